/-
C09: serializability of the generic concurrent model — if every operation
holds `confMu` around all its shared accesses (exclusively when it writes),
every reachable state is the state of a sequential execution of the
operations that have released `confMu`, in release order.
-/
import AGH.Model.StatsConc
set_option linter.unusedSimpArgs false
namespace AGH.C09

variable {L : Type}

theorem execBody_append (a b : List (Instr L)) (p : State × L) :
    execBody (a ++ b) p = execBody b (execBody a p) := by
  simp [execBody, List.foldl_append]

theorem execBody_ro (b : List (Instr L)) (h : ∀ i ∈ b, i.readOnly) (p : State × L) :
    (execBody b p).1 = p.1 := by
  induction b generalizing p with
  | nil => rfl
  | cons i b ih =>
    have hi := h i (List.mem_cons_self ..)
    have := ih (fun j hj => h j (List.mem_cons_of_mem _ hj)) (execI i p)
    simp only [execBody, List.foldl_cons] at this ⊢
    rw [this]
    cases i with
    | act f => exact hi p.1 p.2
    | lock l m g => rfl
    | unlock l m g => rfl

theorem Setup.seq_append (S : Setup L) (h : List Nat) (t : Nat) :
    S.seq (h ++ [t]) = (S.effect t (S.seq h)).1 := by
  simp [Setup.seq, List.foldl_append]

/-- Where thread `t` is, relative to the operations committed so far (`hist`). -/
inductive Phase (S : Setup L) (σ : Sys L) (hist : List Nat) (t : Nat) : Prop where
  | idle (hp : S.progs t = none) (hth : σ.th t = ⟨[], S.loc0 t⟩)
      (hw : (σ.lk .conf).writer ≠ some t) (hrd : t ∉ (σ.lk .conf).readers) (hh : t ∉ hist)
  | before (p : CProg L) (hp : S.progs t = some p) (hth : σ.th t = ⟨p.code, S.loc0 t⟩)
      (hw : (σ.lk .conf).writer ≠ some t) (hrd : t ∉ (σ.lk .conf).readers) (hh : t ∉ hist)
  | insideW (p : CProg L) (hp : S.progs t = some p) (hm : p.mode = .W) (done todo : List (Instr L))
      (hb : p.body = done ++ todo)
      (hrest : (σ.th t).rest = todo ++ [.unlock .conf .W (fun _ => true)])
      (hw : (σ.lk .conf).writer = some t) (hh : t ∉ hist)
      (hst : (σ.st, (σ.th t).loc) = execBody done (S.seq hist, S.loc0 t))
  | insideR (p : CProg L) (hp : S.progs t = some p) (hm : p.mode = .R) (done todo : List (Instr L))
      (hb : p.body = done ++ todo)
      (hrest : (σ.th t).rest = todo ++ [.unlock .conf .R (fun _ => true)])
      (hw : (σ.lk .conf).writer ≠ some t) (hrd : t ∈ (σ.lk .conf).readers) (hh : t ∉ hist)
      (hloc : (σ.th t).loc = (execBody done (S.seq hist, S.loc0 t)).2)
  | after (p : CProg L) (hp : S.progs t = some p) (hrest : (σ.th t).rest = [])
      (hw : (σ.lk .conf).writer ≠ some t) (hrd : t ∉ (σ.lk .conf).readers)
      (h1 h2 : List Nat) (hh : hist = h1 ++ t :: h2)
      (hloc : (σ.th t).loc = (S.effect t (S.seq h1)).2)

structure CInv (S : Setup L) (σ : Sys L) (hist : List Nat) : Prop where
  nodup : hist.Nodup
  ph : ∀ t, Phase S σ hist t
  free : (σ.lk .conf).writer = none → σ.st = S.seq hist
  excl : ∀ w, (σ.lk .conf).writer = some w → (σ.lk .conf).readers = []
  rnodup : (σ.lk .conf).readers.Nodup

/-- A thread other than the one that moved keeps its phase. -/
theorem Phase.transfer {S : Setup L} {σ σ' : Sys L} {hist ext : List Nat} {t' : Nat}
    (ph : Phase S σ hist t') (hth : σ'.th t' = σ.th t')
    (hW : (σ'.lk .conf).writer = some t' ↔ (σ.lk .conf).writer = some t')
    (hR : t' ∈ (σ'.lk .conf).readers ↔ t' ∈ (σ.lk .conf).readers)
    (hext : t' ∉ ext)
    (hin : (σ.lk .conf).writer = some t' ∨ t' ∈ (σ.lk .conf).readers →
      σ'.st = σ.st ∧ S.seq (hist ++ ext) = S.seq hist) :
    Phase S σ' (hist ++ ext) t' := by
  have hmem : t' ∉ hist → t' ∉ hist ++ ext := by
    intro h hm
    rcases List.mem_append.mp hm with h' | h'
    · exact h h'
    · exact hext h'
  cases ph with
  | idle hp hth0 hw hrd hh =>
    exact .idle hp (by rw [hth, hth0]) (fun h => hw (hW.mp h)) (fun h => hrd (hR.mp h)) (hmem hh)
  | before p hp hth0 hw hrd hh =>
    exact .before p hp (by rw [hth, hth0]) (fun h => hw (hW.mp h)) (fun h => hrd (hR.mp h)) (hmem hh)
  | insideW p hp hm done todo hb hrest hw hh hst =>
    obtain ⟨e1, e2⟩ := hin (Or.inl hw)
    exact .insideW p hp hm done todo hb (by rw [hth]; exact hrest) (hW.mpr hw) (hmem hh)
      (by rw [hth, e1, e2]; exact hst)
  | insideR p hp hm done todo hb hrest hw hrd hh hloc =>
    obtain ⟨_, e2⟩ := hin (Or.inr hrd)
    exact .insideR p hp hm done todo hb (by rw [hth]; exact hrest) (fun h => hw (hW.mp h)) (hR.mpr hrd) (hmem hh)
      (by rw [hth, e2]; exact hloc)
  | after p hp hrest hw hrd h1 h2 hh hloc =>
    exact .after p hp (by rw [hth]; exact hrest) (fun h => hw (hW.mp h)) (fun h => hrd (hR.mp h))
      h1 (h2 ++ ext) (by rw [hh]; simp) (by rw [hth]; exact hloc)

theorem Phase.transfer0 {S : Setup L} {σ σ' : Sys L} {hist : List Nat} {t' : Nat}
    (ph : Phase S σ hist t') (hth : σ'.th t' = σ.th t')
    (hW : (σ'.lk .conf).writer = some t' ↔ (σ.lk .conf).writer = some t')
    (hR : t' ∈ (σ'.lk .conf).readers ↔ t' ∈ (σ.lk .conf).readers)
    (hin : (σ.lk .conf).writer = some t' ∨ t' ∈ (σ.lk .conf).readers → σ'.st = σ.st) :
    Phase S σ' hist t' := by
  have := ph.transfer (ext := []) hth hW hR (by simp) (fun h => ⟨hin h, by simp⟩)
  simpa using this

theorem setTh_same (th : Nat → Thread L) (t : Nat) (v : Thread L) : setTh th t v t = v := by simp [setTh]
theorem setTh_ne (th : Nat → Thread L) {t t' : Nat} (v : Thread L) (h : t' ≠ t) : setTh th t v t' = th t' := by
  simp [setTh, h]
theorem setLk_same (lk : Lk → LockSt) (l : Lk) (v : LockSt) : setLk lk l v l = v := by simp [setLk]
theorem setLk_ne (lk : Lk → LockSt) {l l' : Lk} (v : LockSt) (h : l' ≠ l) : setLk lk l v l' = lk l' := by
  simp [setLk, h]

/-- A step that leaves `confMu`, the shared state and the history alone and
only advances thread `t` inside its critical section. -/
theorem cinv_inner {S : Setup L} {σ σ' : Sys L} {hist : List Nat} {t : Nat} (hi : CInv S σ hist)
    (hst : σ'.st = σ.st) (hlk : σ'.lk .conf = σ.lk .conf) (hoth : ∀ t', t' ≠ t → σ'.th t' = σ.th t')
    (hph : Phase S σ' hist t) : CInv S σ' hist := by
  refine { nodup := hi.nodup, ph := ?_, free := by rw [hlk, hst]; exact hi.free,
           excl := by rw [hlk]; exact hi.excl, rnodup := by rw [hlk]; exact hi.rnodup }
  intro t'
  by_cases ht : t' = t
  · rw [ht]; exact hph
  · exact (hi.ph t').transfer0 (hoth t' ht) (by rw [hlk]) (by rw [hlk]) (fun _ => hst)

theorem cinv_step {S : Setup L} (hwf : ∀ t p, S.progs t = some p → p.WF) {σ σ' : Sys L} {hist : List Nat}
    (hi : CInv S σ hist) (t : Nat) (hs : σ.step t = some σ') : ∃ hist', CInv S σ' hist' := by
  cases hph : hi.ph t with
  | idle hp hth hw hrd hh => simp [Sys.step, hth] at hs
  | after p hp hrest hw hrd h1 h2 hh hloc => simp [Sys.step, hrest] at hs
  | before p hp hth hw hrd hh =>
    -- acquiring confMu
    have hrest : (σ.th t).rest = .lock .conf p.mode (fun _ => true) ::
        (p.body ++ [.unlock .conf p.mode (fun _ => true)]) := by rw [hth]; rfl
    have hloc : (σ.th t).loc = S.loc0 t := by rw [hth]
    simp only [Sys.step, hrest, if_true] at hs
    by_cases hcan : (σ.lk .conf).can p.mode = true
    · simp only [hcan, if_true, Option.some.injEq] at hs
      subst hs
      refine ⟨hist, ?_⟩
      cases hm : p.mode with
      | W =>
        rw [hm] at hcan
        simp only [LockSt.can, Bool.and_eq_true, Option.isNone_iff_eq_none, List.isEmpty_iff] at hcan
        refine { nodup := hi.nodup, ph := ?_, free := ?_, excl := ?_, rnodup := ?_ }
        · intro t'
          by_cases ht : t' = t
          · subst ht
            refine .insideW p hp hm [] p.body rfl (by simp [setTh_same]) (by simp [setLk_same, LockSt.acq, hm])
              hh ?_
            simp only [setTh_same, execBody, List.foldl_nil, hloc]
            rw [hi.free hcan.1]
          · refine (hi.ph t').transfer0 (setTh_ne _ _ ht) ?_ ?_ ?_
            · simp only [setLk_same, LockSt.acq, hm, hcan.1, Option.some.injEq]
              constructor
              · intro h; exact absurd h.symm ht
              · intro h; cases h
            · simp [setLk_same, LockSt.acq, hm]
            · intro h
              rcases h with h | h
              · rw [hcan.1] at h
              · rw [hcan.2] at h
        · intro h; simp [setLk_same, LockSt.acq, hm] at h
        · intro w _; simp [setLk_same, LockSt.acq, hm, hcan.2]
        · simp [setLk_same, LockSt.acq, hm, hcan.2]
      | R =>
        rw [hm] at hcan
        simp only [LockSt.can, Option.isNone_iff_eq_none] at hcan
        refine { nodup := hi.nodup, ph := ?_, free := ?_, excl := ?_, rnodup := ?_ }
        · intro t'
          by_cases ht : t' = t
          · subst ht
            refine .insideR p hp hm [] p.body rfl (by simp [setTh_same])
              (by simp [setLk_same, LockSt.acq, hm, hcan]) (by simp [setLk_same, LockSt.acq, hm]) hh ?_
            simp [setTh_same, execBody, hloc]
          · refine (hi.ph t').transfer0 (setTh_ne _ _ ht) ?_ ?_ ?_
            · simp [setLk_same, LockSt.acq, hm]
            · simp [setLk_same, LockSt.acq, hm, ht]
            · intro _; rfl
        · intro _; exact hi.free hcan
        · intro w h; simp [setLk_same, LockSt.acq, hm, hcan] at h
        · simp only [setLk_same, LockSt.acq, hm, List.nodup_cons]
          exact ⟨hrd, hi.rnodup⟩
    · simp [hcan] at hs
  | insideW p hp hm done todo hb hrest hw hh hst =>
    have wf := hwf t p hp
    cases todo with
    | nil =>
      -- releasing confMu: the operation commits
      simp only [List.nil_append] at hrest
      simp only [Sys.step, hrest, if_true, Option.some.injEq] at hs
      subst hs
      have hdone : p.body = done := by simpa using hb
      have heff : S.effect t (S.seq hist) = (σ.st, (σ.th t).loc) := by
        simp only [Setup.effect, hp, hdone]; exact hst.symm
      have hreaders := hi.excl t hw
      refine ⟨hist ++ [t], ?_⟩
      refine { nodup := ?_, ph := ?_, free := ?_, excl := ?_, rnodup := ?_ }
      · rw [List.nodup_append]
        exact ⟨hi.nodup, by simp, by intro a ha b hb'; simp at hb'; subst hb'; exact fun h => hh (h ▸ ha)⟩
      · intro t'
        by_cases ht : t' = t
        · subst ht
          refine .after p hp (by simp [setTh_same]) (by simp [setLk_same, LockSt.rel])
            (by simp [setLk_same, LockSt.rel, hreaders]) hist [] rfl ?_
          simp only [setTh_same, heff]
        · refine (hi.ph t').transfer (σ' := _) (ext := [t]) (setTh_ne _ _ ht) ?_ ?_ (by simp [ht]) ?_
          · simp only [setLk_same, LockSt.rel, hw, Option.some.injEq]
            constructor
            · intro h; cases h
            · intro h; exact absurd h.symm ht
          · simp [setLk_same, LockSt.rel]
          · intro h
            rcases h with h | h
            · rw [hw] at h; exact absurd (Option.some.inj h).symm ht
            · rw [hreaders] at h; cases h
      · intro _
        show σ.st = S.seq (hist ++ [t])
        rw [S.seq_append, heff]
      · intro w h; simp [setLk_same, LockSt.rel] at h
      · simp only [setLk_same, LockSt.rel]; exact hi.rnodup
    | cons i todo =>
      have hnc : i.isConf = false := wf.noConf i (by rw [hb]; simp)
      have hrest' : (σ.th t).rest = i :: (todo ++ [.unlock .conf .W (fun _ => true)]) := by simpa using hrest
      have hb' : p.body = (done ++ [i]) ++ todo := by rw [hb]; simp
      cases i with
      | act f =>
        simp only [Sys.step, hrest', Option.some.injEq] at hs
        subst hs
        have hreaders := hi.excl t hw
        refine ⟨hist, ?_⟩
        refine { nodup := hi.nodup, ph := ?_, free := ?_, excl := hi.excl, rnodup := hi.rnodup }
        · intro t'
          by_cases ht : t' = t
          · subst ht
            refine .insideW p hp hm (done ++ [.act f]) todo hb' (by simp [setTh_same]) hw hh ?_
            simp only [setTh_same, execBody_append, ← hst]
            rfl
          · have hnotin : ¬ ((σ.lk .conf).writer = some t' ∨ t' ∈ (σ.lk .conf).readers) := by
              intro h
              rcases h with h | h
              · rw [hw] at h; exact absurd (Option.some.inj h).symm ht
              · rw [hreaders] at h; cases h
            exact (hi.ph t').transfer0 (setTh_ne _ _ ht) Iff.rfl Iff.rfl (fun h => absurd h hnotin)
        · intro h; rw [hw] at h; cases h
      | lock l m g =>
        have hl : l ≠ .conf := by intro h; subst h; simp [Instr.isConf] at hnc
        have hphase : ∀ σ'' : Sys L, σ''.st = σ.st → σ''.lk .conf = σ.lk .conf →
            σ''.th t = ⟨todo ++ [.unlock .conf .W (fun _ => true)], (σ.th t).loc⟩ → Phase S σ'' hist t := by
          intro σ'' e1 e2 e3
          refine .insideW p hp hm (done ++ [.lock l m g]) todo hb' (by rw [e3]) (by rw [e2]; exact hw) hh ?_
          rw [e1, e3, execBody_append, ← hst]; rfl
        simp only [Sys.step, hrest'] at hs
        by_cases hg : g (σ.th t).loc = true
        · simp only [hg, if_true] at hs
          by_cases hcan : (σ.lk l).can m = true
          · simp only [hcan, if_true, Option.some.injEq] at hs
            subst hs
            exact ⟨hist, cinv_inner hi rfl (setLk_ne _ _ hl.symm) (fun t' ht => setTh_ne _ _ ht)
              (hphase _ rfl (setLk_ne _ _ hl.symm) (setTh_same ..))⟩
          · simp [hcan] at hs
        · simp only [hg, Bool.false_eq_true, if_false, Option.some.injEq] at hs
          subst hs
          exact ⟨hist, cinv_inner hi rfl rfl (fun t' ht => setTh_ne _ _ ht) (hphase _ rfl rfl (setTh_same ..))⟩
      | unlock l m g =>
        have hl : l ≠ .conf := by intro h; subst h; simp [Instr.isConf] at hnc
        have hphase : ∀ σ'' : Sys L, σ''.st = σ.st → σ''.lk .conf = σ.lk .conf →
            σ''.th t = ⟨todo ++ [.unlock .conf .W (fun _ => true)], (σ.th t).loc⟩ → Phase S σ'' hist t := by
          intro σ'' e1 e2 e3
          refine .insideW p hp hm (done ++ [.unlock l m g]) todo hb' (by rw [e3]) (by rw [e2]; exact hw) hh ?_
          rw [e1, e3, execBody_append, ← hst]; rfl
        simp only [Sys.step, hrest'] at hs
        by_cases hg : g (σ.th t).loc = true
        · simp only [hg, if_true, Option.some.injEq] at hs
          subst hs
          exact ⟨hist, cinv_inner hi rfl (setLk_ne _ _ hl.symm) (fun t' ht => setTh_ne _ _ ht)
            (hphase _ rfl (setLk_ne _ _ hl.symm) (setTh_same ..))⟩
        · simp only [hg, Bool.false_eq_true, if_false, Option.some.injEq] at hs
          subst hs
          exact ⟨hist, cinv_inner hi rfl rfl (fun t' ht => setTh_ne _ _ ht) (hphase _ rfl rfl (setTh_same ..))⟩
  | insideR p hp hm done todo hb hrest hw hrd hh hloc =>
    have wf := hwf t p hp
    have hwnone : (σ.lk .conf).writer = none := by
      cases hwr : (σ.lk .conf).writer with
      | none => rfl
      | some w => have := hi.excl w hwr; rw [this] at hrd; cases hrd
    have hbase : σ.st = S.seq hist := hi.free hwnone
    cases todo with
    | nil =>
      simp only [List.nil_append] at hrest
      simp only [Sys.step, hrest, if_true, Option.some.injEq] at hs
      subst hs
      have hdone : p.body = done := by simpa using hb
      have hro : ∀ i ∈ p.body, i.readOnly := wf.ro hm
      have heff1 : (S.effect t (S.seq hist)).1 = S.seq hist := by
        simp only [Setup.effect, hp]; exact execBody_ro _ hro _
      have heff2 : (S.effect t (S.seq hist)).2 = (σ.th t).loc := by
        simp only [Setup.effect, hp, hdone]; exact hloc.symm
      have hseq : S.seq (hist ++ [t]) = S.seq hist := by rw [S.seq_append, heff1]
      refine ⟨hist ++ [t], ?_⟩
      refine { nodup := ?_, ph := ?_, free := ?_, excl := ?_, rnodup := ?_ }
      · rw [List.nodup_append]
        exact ⟨hi.nodup, by simp, by intro a ha b hb'; simp at hb'; subst hb'; exact fun h => hh (h ▸ ha)⟩
      · intro t'
        by_cases ht : t' = t
        · subst ht
          refine .after p hp (by simp [setTh_same]) (by simp [setLk_same, LockSt.rel, hwnone]) ?_ hist [] rfl ?_
          · simp only [setLk_same, LockSt.rel]
            exact fun h => (List.Nodup.mem_erase_iff hi.rnodup).mp h |>.1 rfl
          · simp only [setTh_same, heff2]
        · refine (hi.ph t').transfer (σ' := _) (ext := [t]) (setTh_ne _ _ ht) ?_ ?_ (by simp [ht]) ?_
          · simp [setLk_same, LockSt.rel]
          · simp only [setLk_same, LockSt.rel]
            rw [List.Nodup.mem_erase_iff hi.rnodup]
            simp [ht]
          · intro _; exact ⟨rfl, hseq⟩
      · intro _
        show σ.st = S.seq (hist ++ [t])
        rw [hseq]; exact hbase
      · intro w h; simp [setLk_same, LockSt.rel, hwnone] at h
      · simp only [setLk_same, LockSt.rel]; exact hi.rnodup.erase _
    | cons i todo =>
      have hnc : i.isConf = false := wf.noConf i (by rw [hb]; simp)
      have hroi : i.readOnly := wf.ro hm i (by rw [hb]; simp)
      have hrest' : (σ.th t).rest = i :: (todo ++ [.unlock .conf .R (fun _ => true)]) := by simpa using hrest
      have hb' : p.body = (done ++ [i]) ++ todo := by rw [hb]; simp
      have hrodone : ∀ j ∈ done, j.readOnly := fun j hj => wf.ro hm j (by rw [hb]; simp [hj])
      have hdone1 : (execBody done (S.seq hist, S.loc0 t)).1 = S.seq hist := execBody_ro _ hrodone _
      cases i with
      | act f =>
        simp only [Sys.step, hrest', Option.some.injEq] at hs
        subst hs
        have hsame : (f σ.st (σ.th t).loc).1 = σ.st := hroi _ _
        refine ⟨hist, cinv_inner hi hsame rfl (fun t' ht => setTh_ne _ _ ht) ?_⟩
        refine .insideR p hp hm (done ++ [.act f]) todo hb' (by simp [setTh_same]) hw hrd hh ?_
        simp only [setTh_same, execBody_append]
        have : execBody done (S.seq hist, S.loc0 t) = (σ.st, (σ.th t).loc) := by
          apply Prod.ext
          · rw [hdone1, hbase]
          · exact hloc.symm
        rw [this]; rfl
      | lock l m g =>
        have hl : l ≠ .conf := by intro h; subst h; simp [Instr.isConf] at hnc
        have hphase : ∀ σ'' : Sys L, σ''.lk .conf = σ.lk .conf →
            σ''.th t = ⟨todo ++ [.unlock .conf .R (fun _ => true)], (σ.th t).loc⟩ → Phase S σ'' hist t := by
          intro σ'' e2 e3
          refine .insideR p hp hm (done ++ [.lock l m g]) todo hb' (by rw [e3]) (by rw [e2]; exact hw)
            (by rw [e2]; exact hrd) hh ?_
          rw [e3, execBody_append, hloc]; rfl
        simp only [Sys.step, hrest'] at hs
        by_cases hg : g (σ.th t).loc = true
        · simp only [hg, if_true] at hs
          by_cases hcan : (σ.lk l).can m = true
          · simp only [hcan, if_true, Option.some.injEq] at hs
            subst hs
            exact ⟨hist, cinv_inner hi rfl (setLk_ne _ _ hl.symm) (fun t' ht => setTh_ne _ _ ht)
              (hphase _ (setLk_ne _ _ hl.symm) (setTh_same ..))⟩
          · simp [hcan] at hs
        · simp only [hg, Bool.false_eq_true, if_false, Option.some.injEq] at hs
          subst hs
          exact ⟨hist, cinv_inner hi rfl rfl (fun t' ht => setTh_ne _ _ ht) (hphase _ rfl (setTh_same ..))⟩
      | unlock l m g =>
        have hl : l ≠ .conf := by intro h; subst h; simp [Instr.isConf] at hnc
        have hphase : ∀ σ'' : Sys L, σ''.lk .conf = σ.lk .conf →
            σ''.th t = ⟨todo ++ [.unlock .conf .R (fun _ => true)], (σ.th t).loc⟩ → Phase S σ'' hist t := by
          intro σ'' e2 e3
          refine .insideR p hp hm (done ++ [.unlock l m g]) todo hb' (by rw [e3]) (by rw [e2]; exact hw)
            (by rw [e2]; exact hrd) hh ?_
          rw [e3, execBody_append, hloc]; rfl
        simp only [Sys.step, hrest'] at hs
        by_cases hg : g (σ.th t).loc = true
        · simp only [hg, if_true, Option.some.injEq] at hs
          subst hs
          exact ⟨hist, cinv_inner hi rfl (setLk_ne _ _ hl.symm) (fun t' ht => setTh_ne _ _ ht)
            (hphase _ (setLk_ne _ _ hl.symm) (setTh_same ..))⟩
        · simp only [hg, Bool.false_eq_true, if_false, Option.some.injEq] at hs
          subst hs
          exact ⟨hist, cinv_inner hi rfl rfl (fun t' ht => setTh_ne _ _ ht) (hphase _ rfl (setTh_same ..))⟩

theorem cinv_init (S : Setup L) : CInv S S.initSys [] := by
  refine { nodup := List.nodup_nil, ph := ?_, free := fun _ => rfl, excl := ?_, rnodup := List.nodup_nil }
  · intro t
    cases hp : S.progs t with
    | none => exact .idle hp (by simp [Setup.initSys, Setup.code, hp]) (by simp [Setup.initSys]) (by simp [Setup.initSys]) (by simp)
    | some p =>
      exact .before p hp (by simp [Setup.initSys, Setup.code, hp]) (by simp [Setup.initSys]) (by simp [Setup.initSys]) (by simp)
  · intro w h; simp [Setup.initSys] at h

theorem cinv_reach {S : Setup L} (hwf : ∀ t p, S.progs t = some p → p.WF) {σ : Sys L}
    (hr : Reach S.initSys σ) : ∃ hist, CInv S σ hist := by
  induction hr with
  | refl => exact ⟨[], cinv_init S⟩
  | step t _ hs ih =>
    obtain ⟨hist, hi⟩ := ih
    exact cinv_step hwf hi t hs

end AGH.C09
