/-
C19: the cache item codec and the layout of the question.
-/
import AGH.Lemmas.HashPrefixHistory
namespace AGH.C19
open AGH AGH.Bytes

theorem length_be64 (n : Nat) : ∀ k, (be64 n k).length = k
  | 0 => rfl
  | k + 1 => by simp [be64, length_be64 n k]

theorem unbe64_be64 (n : Nat) : ∀ k, unbe64 (be64 n k) = n % 256 ^ k
  | 0 => by simp [be64, unbe64, Nat.mod_one]
  | k + 1 => by
    simp only [be64, unbe64, length_be64, unbe64_be64 n k]
    rw [Nat.pow_succ, Nat.mod_mul]
    rw [Nat.mul_comm (n / 256 ^ k % 256)]
    omega

theorem chunk32_flatten : ∀ (hs : List Hash) (fuel : Nat), (∀ h ∈ hs, h.length = 32) →
    hs.flatten.length ≤ fuel → chunk32 fuel hs.flatten = hs
  | [], fuel, _, _ => by cases fuel <;> simp [chunk32]
  | h :: hs, fuel, hl, hf => by
    have h32 : h.length = 32 := hl h (by simp)
    have hne : (h ++ hs.flatten).isEmpty = false := by
      cases h with
      | nil => simp at h32
      | cons x xs => rfl
    simp only [List.flatten_cons, List.length_append] at hf
    cases fuel with
    | zero => omega
    | succ f =>
      have ht : (h ++ hs.flatten).take 32 = h := by
        rw [List.take_append_of_le_length (by omega), List.take_of_length_le (by omega)]
      have hd : (h ++ hs.flatten).drop 32 = hs.flatten := by
        rw [List.drop_append_of_le_length (by omega), List.drop_of_length_le (by omega), List.nil_append]
      simp only [List.flatten_cons, chunk32, hne, Bool.false_eq_true, if_false, ht, hd]
      rw [chunk32_flatten hs f (fun x hx => hl x (List.mem_cons_of_mem _ hx)) (by omega)]

theorem decode_encode_item (base : Nat) (it : Item) (hexp : base + it.exp < 2 ^ 64)
    (hl : ∀ h ∈ it.hs, h.length = 32) :
    decodeItem (encodeItem base it) = (base + it.exp, it.hs) := by
  unfold decodeItem encodeItem
  have e : (be64 (base + it.exp) 8).length = 8 := length_be64 _ 8
  have h8 : (be64 (base + it.exp) 8 ++ it.hs.flatten).take 8 = be64 (base + it.exp) 8 := by
    rw [List.take_append_of_le_length (by omega), List.take_of_length_le (by omega)]
  have hd : (be64 (base + it.exp) 8 ++ it.hs.flatten).drop 8 = it.hs.flatten := by
    rw [List.drop_append_of_le_length (by omega), List.drop_of_length_le (by omega), List.nil_append]
  rw [h8, hd, unbe64_be64]
  have : (base + it.exp) % 256 ^ 8 = base + it.exp := Nat.mod_eq_of_lt (by omega)
  rw [this, chunk32_flatten it.hs _ hl (by simp)]

theorem questionOfPrefixes_eq (suffix : Bytes) : ∀ ps : List Prefix,
    questionOfPrefixes suffix ps = (ps.flatMap (fun p => hexBytes p ++ [dot])) ++ suffix
  | [] => rfl
  | p :: ps => by simp [questionOfPrefixes, questionOfPrefixes_eq suffix ps]

theorem hexBytes_length : ∀ p : Bytes, (hexBytes p).length = 2 * p.length
  | [] => rfl
  | b :: rest => by simp [hexBytes, hexBytes_length rest]; omega

end AGH.C19
