/-
C15 helper lemmas: the model of `bytes.TrimSpace` is idempotent.
A trimmed string is characterised by `LeftOK` (its first rune, decoded
forwards, is not a space) and `RightOK` (its last rune, decoded backwards as
`utf8.DecodeLastRune` does, is not a space and spans exactly the bytes the
forward decoder assigns to it); such a string is a fixed point, and every
result of `trimSpace` is empty or of that kind.
-/
import AGH.Lemmas.RuleListTrim
import AGH.Lemmas.SafeFSParse
namespace AGH.C15
open AGH AGH.Bytes
open AGH.C17 (decodeRune runeError isCont decodeRune_append decodeRune_size)

/-! ### Small UTF-8 facts -/

theorem decodeRune_single (b : Nat) (hb : 0x80 ≤ b) : decodeRune [b] = (runeError, 1) := by
  have h1 : ¬ b < 0x80 := by omega
  by_cases h2 : b < 0xC2
  · simp [decodeRune, h1, h2]
  by_cases h3 : b < 0xE0
  · simp [decodeRune, h1, h2, h3]
  by_cases h4 : b < 0xF0
  · simp [decodeRune, h1, h2, h3, h4]
  by_cases h5 : b < 0xF5
  · simp [decodeRune, h1, h2, h3, h4, h5]
  · simp [decodeRune, h1, h2, h3, h4, h5]

/-- A non-ASCII byte followed by nothing or by a byte that is not a
continuation byte is a one-byte (invalid) rune. -/
theorem decodeRune_no_cont (b c : Nat) (t : Bytes) (hb : 0x80 ≤ b) (hc : isCont c = false) :
    (decodeRune (b :: c :: t)).2 = 1 := by
  have h1 : ¬ b < 0x80 := by omega
  have hcc : ¬ (0x80 ≤ c ∧ c ≤ 0xBF) := by
    intro h; simp [isCont, h.1, h.2] at hc
  by_cases h2 : b < 0xC2
  · simp [decodeRune, h1, h2]
  by_cases h3 : b < 0xE0
  · simp [decodeRune, h1, h2, h3, hc]
  by_cases h4 : b < 0xF0
  · rcases t with _ | ⟨b2, t⟩
    · simp [decodeRune, h1, h2, h3, h4]
    · simp only [decodeRune, h1, h2, h3, h4, if_true, if_false]
      rw [if_neg]
      intro h
      simp only [Bool.and_eq_true, decide_eq_true_eq] at h
      apply hcc
      refine ⟨?_, ?_⟩
      · have := h.1.1; split at this <;> omega
      · have := h.1.2; split at this <;> omega
  by_cases h5 : b < 0xF5
  · rcases t with _ | ⟨b2, _ | ⟨b3, t⟩⟩
    · simp [decodeRune, h1, h2, h3, h4, h5]
    · simp [decodeRune, h1, h2, h3, h4, h5]
    · simp only [decodeRune, h1, h2, h3, h4, h5, if_true, if_false]
      rw [if_neg]
      intro h
      simp only [Bool.and_eq_true, decide_eq_true_eq] at h
      apply hcc
      refine ⟨?_, ?_⟩
      · have := h.1.1.1; split at this <;> omega
      · have := h.1.1.2; split at this <;> omega
  · simp [decodeRune, h1, h2, h3, h4, h5]

theorem isSpaceRune_ascii (c : Nat) (h : c < 0x80) : isSpaceRune c = isAsciiSpace c := by
  unfold isSpaceRune isAsciiSpace
  have e1 : (c == 0x85) = false := by simp; omega
  have e2 : (c == 0xA0) = false := by simp; omega
  have e3 : (c == 0x1680) = false := by simp; omega
  have e4 : (decide (0x2000 ≤ c) && decide (c ≤ 0x200A)) = false := by simp; omega
  have e5 : (c == 0x2028) = false := by simp; omega
  have e6 : (c == 0x2029) = false := by simp; omega
  have e7 : (c == 0x202F) = false := by simp; omega
  have e8 : (c == 0x205F) = false := by simp; omega
  have e9 : (c == 0x3000) = false := by simp; omega
  rw [e1, e2, e3, e4, e5, e6, e7, e8, e9]
  simp

theorem isCont_lt {b : Nat} (h : b < 0x80) : isCont b = false := by
  simp [isCont]; omega

theorem isCont_lead {c : Nat} (h : 0xC2 ≤ c) : isCont c = false := by
  simp [isCont]; omega

theorem isSpaceRune_runeError : isSpaceRune runeError = false := by decide

/-- `DecodeLastRune` result of size one on a non-ASCII last byte is the error rune. -/
theorem decodeLastRev_one (b : Nat) (rest : Bytes) (hb : ¬ b < 0x80)
    (h : (decodeLastRev (b :: rest)).2 = 1) : (decodeLastRev (b :: rest)).1 = runeError := by
  unfold decodeLastRev at h ⊢
  simp only [hb, if_false] at h ⊢
  generalize (if (match (b :: rest)[1]? with | some x => runeStart x | none => false) = true then 2
        else if (match (b :: rest)[2]? with | some x => runeStart x | none => false) = true then 3
        else if (match (b :: rest)[3]? with | some x => runeStart x | none => false) = true then 4
        else min (b :: rest).length 5) = k at h ⊢
  by_cases hd : (decodeRune ((b :: rest).take k).reverse).2 ≠ k
  · rw [if_pos hd]
  · rw [if_neg hd] at h ⊢
    simp only [ne_eq, Decidable.not_not] at hd
    have hk : k = 1 := by rw [← hd]; exact h
    subst hk
    simp only [List.take_succ_cons, List.take_zero, List.reverse_cons, List.reverse_nil, List.nil_append]
    rw [decodeRune_single b (by omega)]

end AGH.C15

namespace AGH.C15
open AGH AGH.Bytes
open AGH.C17 (decodeRune runeError isCont decodeRune_append decodeRune_size)

/-- The rune `lastIndexFunc` examines when the prefix has length `e`. -/
def lastD (z : Bytes) (e : Nat) : Nat × Nat :=
  if z.getD (e - 1) 0 < 0x80 then (z.getD (e - 1) 0, 1) else decodeLastRune (z.take e)

/-- The width `TrimRightFunc` adds to the index it found. -/
def fwdW (y : Bytes) (i : Nat) : Nat :=
  if y.getD i 0 ≥ 0x80 then (decodeRune (y.drop i)).2 else 1

/-- The byte at index `e`, if any, is not a continuation byte. -/
def NC (z : Bytes) (e : Nat) : Prop := ∀ c, z[e]? = some c → isCont c = false

def LeftOK (y : Bytes) : Prop := y ≠ [] ∧ isSpaceRune (decodeRune y).1 = false

def RightOK (y : Bytes) : Prop :=
  y ≠ [] ∧ isSpaceRune (lastD y y.length).1 = false ∧
  (y.length - (lastD y y.length).2) + fwdW y (y.length - (lastD y y.length).2) = y.length

theorem lastIdxF_lastD (f : Nat) (z : Bytes) (e : Nat) :
    lastIdxF (f + 1) z e =
      if e = 0 then none
      else if (!isSpaceRune (lastD z e).1) = true then some (e - (lastD z e).2)
      else lastIdxF f z (e - (lastD z e).2) := rfl

theorem trimRightFunc_fwdW (z : Bytes) :
    trimRightFunc z =
      match lastIdxF (z.length + 1) z z.length with
      | some i => z.take (i + fwdW z i)
      | none => [] := by
  unfold trimRightFunc fwdW
  cases lastIdxF (z.length + 1) z z.length with
  | none => rfl
  | some i => simp only; split <;> rfl

/-! ### Trimmed strings are fixed points -/

theorem trimLeftFunc_fixed {y : Bytes} (h : LeftOK y) : trimLeftFunc y = y := by
  obtain ⟨hne, hns⟩ := h
  unfold trimLeftFunc trimLeftF
  cases y with
  | nil => exact absurd rfl hne
  | cons c t => simp only [hns, Bool.not_false, if_true]

theorem trimRightFunc_fixed {y : Bytes} (h : RightOK y) : trimRightFunc y = y := by
  obtain ⟨hne, hns, hw⟩ := h
  rw [trimRightFunc_fwdW, lastIdxF_lastD]
  have hlen : y.length ≠ 0 := by
    intro h0; exact hne (List.length_eq_zero_iff.mp h0)
  rw [if_neg hlen, if_pos (by simp [hns])]
  simp only
  rw [hw, List.take_length]

theorem trimFunc_fixed {y : Bytes} (hl : LeftOK y) (hr : RightOK y) : trimFunc y = y := by
  unfold trimFunc
  rw [trimLeftFunc_fixed hl, trimRightFunc_fixed hr]

/-- `RightOK` when the last byte is an ASCII non-space. -/
theorem rightOK_ascii (r : Bytes) (b : Nat) (hb : b < 0x80) (hs : isSpaceRune b = false) :
    RightOK (r ++ [b]) := by
  have hlast : (r ++ [b]).getD ((r ++ [b]).length - 1) 0 = b := by
    simp [List.getD_eq_getElem?_getD]
  refine ⟨by simp, ?_, ?_⟩
  · unfold lastD; rw [hlast, if_pos hb]; exact hs
  · have hd : (lastD (r ++ [b]) (r ++ [b]).length).2 = 1 := by
      unfold lastD; rw [hlast, if_pos hb]
    rw [hd]
    unfold fwdW
    rw [hlast, if_neg (by omega)]
    simp

theorem leftOK_ascii (c : Nat) (t : Bytes) (hc : c < 0x80) (hs : isSpaceRune c = false) :
    LeftOK (c :: t) := by
  refine ⟨by simp, ?_⟩
  simp [decodeRune, hc, hs]

/-- A trimmed string: empty, or its first and last runes are not spaces. -/
def Trimmed (y : Bytes) : Prop := y = [] ∨ (LeftOK y ∧ RightOK y)

theorem trimSpaceBack_fixed (y : Bytes) (hl : LeftOK y) (hr : RightOK y) :
    trimSpaceBack y.reverse = y := by
  obtain ⟨hne, hns, _⟩ := hr
  cases hrev : y.reverse with
  | nil => exact absurd (List.reverse_eq_nil_iff.mp hrev) hne
  | cons b r =>
    have hy : y = r.reverse ++ [b] := by
      have := congrArg List.reverse hrev
      simpa using this
    unfold trimSpaceBack
    by_cases hb : b ≥ 0x80
    · rw [if_pos hb, ← hrev, List.reverse_reverse]
      exact trimFunc_fixed hl ⟨hne, hns, by assumption⟩
    · rw [if_neg hb]
      have hlast : y.getD (y.length - 1) 0 = b := by
        rw [hy]; simp [List.getD_eq_getElem?_getD]
      have hsb : isSpaceRune b = false := by
        unfold lastD at hns
        rw [hlast, if_pos (by omega)] at hns
        exact hns
      rw [← isSpaceRune_ascii b (by omega), hsb]
      simp only [Bool.false_eq_true, if_false]
      rw [← hrev, List.reverse_reverse]

theorem trimSpace_fixed (y : Bytes) (h : Trimmed y) : trimSpace y = y := by
  rcases h with rfl | ⟨hl, hr⟩
  · rfl
  · cases y with
    | nil => exact absurd rfl hl.1
    | cons c t =>
      unfold trimSpace
      by_cases hc : c ≥ 0x80
      · rw [if_pos hc]; exact trimFunc_fixed hl hr
      · rw [if_neg hc]
        have hsc : isSpaceRune c = false := by
          have := hl.2
          simpa [decodeRune, show c < 0x80 by omega] using this
        rw [← isSpaceRune_ascii c (by omega), hsc]
        simp only [Bool.false_eq_true, if_false]
        exact trimSpaceBack_fixed _ hl hr

end AGH.C15

namespace AGH.C15
open AGH AGH.Bytes
open AGH.C17 (decodeRune runeError isCont decodeRune_append decodeRune_size)

/-! ### Every result of the trimming functions is trimmed -/

theorem getD_of_lt (z : Bytes) (i : Nat) (h : i < z.length) : z[i]? = some (z.getD i 0) := by
  simp [List.getD_eq_getElem?_getD, List.getElem?_eq_getElem h]

theorem getD_take (z : Bytes) (e i : Nat) (h : i < e) : (z.take e).getD i 0 = z.getD i 0 := by
  simp [List.getD_eq_getElem?_getD, List.getElem?_take, h]

theorem lastD_take (z : Bytes) (e : Nat) (he : 1 ≤ e) : lastD (z.take e) e = lastD z e := by
  unfold lastD
  rw [getD_take z e (e - 1) (by omega), List.take_take, Nat.min_self]

/-- The three shapes of the rune `lastIndexFunc` examines. -/
theorem lastD_cases (z : Bytes) (e : Nat) (he : 1 ≤ e) (hle : e ≤ z.length) :
    (z.getD (e - 1) 0 < 0x80 ∧ lastD z e = (z.getD (e - 1) 0, 1)) ∨
    (0x80 ≤ z.getD (e - 1) 0 ∧ (lastD z e).2 = 1 ∧ (lastD z e).1 = runeError) ∨
    (0x80 ≤ z.getD (e - 1) 0 ∧ 2 ≤ (lastD z e).2 ∧ (lastD z e).2 ≤ e ∧
      ∃ c t, (z.take e).drop (e - (lastD z e).2) = c :: t ∧ decodeRune (c :: t) = lastD z e ∧ 0xC2 ≤ c ∧
        z[e - (lastD z e).2]? = some c) := by
  by_cases hb : z.getD (e - 1) 0 < 0x80
  · left; exact ⟨hb, by unfold lastD; rw [if_pos hb]⟩
  · right
    have hrev := take_reverse_cons z e he hle
    have hdl : lastD z e = decodeLastRev (z.getD (e - 1) 0 :: (z.take (e - 1)).reverse) := by
      unfold lastD; rw [if_neg hb]; unfold decodeLastRune; rw [hrev]
    have hlen : (z.getD (e - 1) 0 :: (z.take (e - 1)).reverse).length = e := by
      simp only [List.length_cons, List.length_reverse, List.length_take]; omega
    rcases decodeLastRev_spec (z.getD (e - 1) 0) (z.take (e - 1)).reverse hb with h1 | ⟨h2, h3, h4⟩
    · left
      refine ⟨by omega, by rw [hdl]; exact h1, ?_⟩
      rw [hdl]; exact decodeLastRev_one _ _ hb h1
    · right
      rw [← hdl] at h2 h3 h4
      rw [hlen] at h3
      refine ⟨by omega, h2, h3, ?_⟩
      rw [← hrev] at h4
      rw [List.take_reverse, List.reverse_reverse, List.length_take, Nat.min_eq_left hle] at h4
      cases hdr : (z.take e).drop (e - (lastD z e).2) with
      | nil =>
        exfalso
        have := congrArg List.length hdr
        simp only [List.length_drop, List.length_take, List.length_nil] at this
        omega
      | cons c t =>
        rw [hdr] at h4
        have hlead := decodeRune_lead c t (by rw [h4]; exact h2)
        refine ⟨c, t, rfl, h4, hlead, ?_⟩
        have h0 : ((z.take e).drop (e - (lastD z e).2))[0]? = some c := by rw [hdr]; rfl
        rw [List.getElem?_drop, List.getElem?_take] at h0
        simp only [Nat.add_zero] at h0
        rw [if_pos (by omega)] at h0
        exact h0

theorem lastD_size (z : Bytes) (e : Nat) (he : 1 ≤ e) (hle : e ≤ z.length) :
    1 ≤ (lastD z e).2 ∧ (lastD z e).2 ≤ e := by
  rcases lastD_cases z e he hle with ⟨_, h⟩ | ⟨_, h, _⟩ | ⟨_, h2, h3, _⟩
  · rw [h]; exact ⟨Nat.le_refl _, he⟩
  · rw [h]; exact ⟨Nat.le_refl _, he⟩
  · exact ⟨by omega, h3⟩

/-- After a space rune has been stepped over, the byte now at the end of the
prefix is the first byte of that rune: not a continuation byte. -/
theorem space_step_NC (z : Bytes) (e : Nat) (he : 1 ≤ e) (hle : e ≤ z.length)
    (hs : isSpaceRune (lastD z e).1 = true) : NC z (e - (lastD z e).2) := by
  intro c hc
  rcases lastD_cases z e he hle with ⟨hb, h⟩ | ⟨_, _, h⟩ | ⟨_, _, _, c', t, _, _, hlead, hidx⟩
  · rw [h] at hc
    simp only at hc
    rw [getD_of_lt z (e - 1) (by omega)] at hc
    have hc' : z.getD (e - 1) 0 = c := Option.some.inj hc
    rw [← hc']
    exact isCont_lt hb
  · rw [h, isSpaceRune_runeError] at hs; cases hs
  · rw [hidx] at hc
    have hc' : c' = c := Option.some.inj hc
    rw [← hc']
    exact isCont_lead hlead

theorem lastIdxF_found : ∀ (f : Nat) (z : Bytes) (e i : Nat), lastIdxF f z e = some i → e ≤ z.length →
    NC z e → ∃ e', 1 ≤ e' ∧ e' ≤ e ∧ NC z e' ∧ isSpaceRune (lastD z e').1 = false ∧
      i = e' - (lastD z e').2 := by
  intro f
  induction f with
  | zero => intro z e i h; simp [lastIdxF] at h
  | succ f ih =>
    intro z e i h hle hnc
    rw [lastIdxF_lastD] at h
    by_cases he : e = 0
    · rw [if_pos he] at h; cases h
    rw [if_neg he] at h
    by_cases hns : (!isSpaceRune (lastD z e).1) = true
    · rw [if_pos hns] at h
      simp only [Option.some.injEq] at h
      exact ⟨e, by omega, Nat.le_refl _, hnc, by simpa using hns, h.symm⟩
    · rw [if_neg hns] at h
      have hsp : isSpaceRune (lastD z e).1 = true := by simpa using hns
      have hsz := lastD_size z e (by omega) hle
      obtain ⟨e', h1, h2, h3, h4, h5⟩ := ih z _ i h (by omega) (space_step_NC z e (by omega) hle hsp)
      exact ⟨e', h1, by omega, h3, h4, h5⟩

theorem drop_take_split (z : Bytes) (i e : Nat) (h : i ≤ e) (hle : e ≤ z.length) :
    z.drop i = (z.take e).drop i ++ z.drop e := by
  conv => lhs; rw [← List.take_append_drop e z]
  rw [List.drop_append_of_le_length (by simp only [List.length_take]; omega)]

end AGH.C15

namespace AGH.C15
open AGH AGH.Bytes
open AGH.C17 (decodeRune runeError isCont decodeRune_append decodeRune_size)

theorem drop_eq_cons_getD (z : Bytes) (i : Nat) (h : i < z.length) :
    z.drop i = z.getD i 0 :: z.drop (i + 1) := by
  rw [List.drop_eq_getElem_cons h]
  simp [List.getD_eq_getElem?_getD, List.getElem?_eq_getElem h]

/-- The width the forward decoder assigns to the rune found by the backward
scan is the size the backward scan measured — on the whole string and on the
prefix that ends with that rune. -/
theorem width_agrees (z : Bytes) (e : Nat) (he : 1 ≤ e) (hle : e ≤ z.length) (hnc : NC z e) :
    (e - (lastD z e).2) + fwdW z (e - (lastD z e).2) = e ∧
    (e - (lastD z e).2) + fwdW (z.take e) (e - (lastD z e).2) = e := by
  rcases lastD_cases z e he hle with ⟨hb, h⟩ | ⟨hb, h1, _⟩ | ⟨hb, h2, h3, c, t, hdr, hdec, hlead, hidx⟩
  · -- ASCII last byte
    rw [h]
    simp only
    unfold fwdW
    have hnb : ¬ z.getD (e - 1) 0 ≥ 0x80 := by omega
    rw [getD_take z e (e - 1) (by omega), if_neg hnb, if_neg hnb]
    omega
  · -- an invalid byte, standing alone
    rw [h1]
    unfold fwdW
    have hb' : z.getD (e - 1) 0 ≥ 0x80 := hb
    rw [getD_take z e (e - 1) (by omega), if_pos hb', if_pos hb']
    have hd1 : z.drop (e - 1) = z.getD (e - 1) 0 :: z.drop e := by
      rw [drop_eq_cons_getD z (e - 1) (by omega)]
      congr 2; omega
    have hw1 : (decodeRune (z.drop (e - 1))).2 = 1 := by
      rw [hd1]
      cases hde : z.drop e with
      | nil => rw [decodeRune_single _ hb]
      | cons c' t' =>
        have hc' : z[e]? = some c' := by
          have : (z.drop e)[0]? = some c' := by rw [hde]; rfl
          rwa [List.getElem?_drop, Nat.add_zero] at this
        exact decodeRune_no_cont _ c' t' hb (hnc c' hc')
    have hd2 : (z.take e).drop (e - 1) = [z.getD (e - 1) 0] := by
      have hlt : e - 1 < (z.take e).length := by simp only [List.length_take]; omega
      rw [drop_eq_cons_getD (z.take e) (e - 1) hlt, getD_take z e (e - 1) (by omega)]
      congr 1
      apply List.drop_eq_nil_of_le
      simp only [List.length_take]; omega
    have hw2 : (decodeRune ((z.take e).drop (e - 1))).2 = 1 := by
      rw [hd2, decodeRune_single _ hb]
    rw [hw1, hw2]
    omega
  · -- a well-formed multi-byte rune
    have hgi : z.getD (e - (lastD z e).2) 0 = c := by
      simp [List.getD_eq_getElem?_getD, hidx]
    unfold fwdW
    have hc80 : c ≥ 0x80 := by omega
    rw [getD_take z e _ (by omega), hgi, if_pos hc80, if_pos hc80]
    have hsplit := drop_take_split z (e - (lastD z e).2) e (by omega) hle
    have hvalid : ¬ ((decodeRune (c :: t)).1 = runeError ∧ (decodeRune (c :: t)).2 = 1) := by
      rw [hdec]; intro hh; omega
    have hwz : (decodeRune (z.drop (e - (lastD z e).2))).2 = (lastD z e).2 := by
      rw [hsplit, hdr, decodeRune_append (c :: t) (z.drop e) hvalid (by simp), hdec]
    have hwt : (decodeRune ((z.take e).drop (e - (lastD z e).2))).2 = (lastD z e).2 := by
      rw [hdr, hdec]
    rw [hwz, hwt]
    omega

theorem trimLeftF_leftOK : ∀ (f : Nat) (s : Bytes), trimLeftF f s = [] ∨ LeftOK (trimLeftF f s) := by
  intro f
  induction f with
  | zero => intro s; left; rfl
  | succ f ih =>
    intro s
    unfold trimLeftF
    cases s with
    | nil => left; rfl
    | cons c t =>
      simp only
      by_cases h : (!isSpaceRune (decodeRune (c :: t)).1) = true
      · rw [if_pos h]; right; exact ⟨by simp, by simpa using h⟩
      · rw [if_neg h]; exact ih _

/-- A non-empty prefix of a string whose first rune is not a space still
starts with a non-space rune. -/
theorem leftOK_take (z : Bytes) (e : Nat) (h : LeftOK z) (he : 1 ≤ e) : LeftOK (z.take e) := by
  obtain ⟨hne, hns⟩ := h
  have hne' : z.take e ≠ [] := by
    cases z with
    | nil => exact absurd rfl hne
    | cons c t =>
      obtain ⟨e, rfl⟩ : ∃ e', e = e' + 1 := ⟨e - 1, by omega⟩
      simp
  refine ⟨hne', ?_⟩
  by_cases hv : (decodeRune (z.take e)).1 = runeError ∧ (decodeRune (z.take e)).2 = 1
  · rw [hv.1]; exact isSpaceRune_runeError
  · have := decodeRune_append (z.take e) (z.drop e) hv hne'
    rw [List.take_append_drop] at this
    rw [← this]; exact hns

theorem trimRightFunc_trimmed (z : Bytes) (hz : z = [] ∨ LeftOK z) : Trimmed (trimRightFunc z) := by
  rw [trimRightFunc_fwdW]
  cases hl : lastIdxF (z.length + 1) z z.length with
  | none => left; rfl
  | some i =>
    simp only
    have hnc0 : NC z z.length := by
      intro c hc
      rw [List.getElem?_eq_none (Nat.le_refl _)] at hc; cases hc
    obtain ⟨e, he1, hele, hnc, hns, rfl⟩ := lastIdxF_found _ _ _ _ hl (Nat.le_refl _) hnc0
    obtain ⟨hw1, hw2⟩ := width_agrees z e he1 hele hnc
    rw [hw1]
    right
    have hzl : LeftOK z := by
      rcases hz with rfl | hz
      · simp at hele; omega
      · exact hz
    refine ⟨leftOK_take z e hzl he1, ?_⟩
    have hlen : (z.take e).length = e := by simp only [List.length_take]; omega
    refine ⟨(leftOK_take z e hzl he1).1, ?_, ?_⟩
    · rw [hlen, lastD_take z e he1]; exact hns
    · rw [hlen, lastD_take z e he1]; exact hw2

theorem trimFunc_trimmed (s : Bytes) : Trimmed (trimFunc s) :=
  trimRightFunc_trimmed _ (trimLeftF_leftOK _ _)

theorem trimSpaceBack_trimmed : ∀ (rev : Bytes) (c0 : Nat), rev.getLast? = some c0 → c0 < 0x80 →
    isSpaceRune c0 = false → Trimmed (trimSpaceBack rev) := by
  intro rev
  induction rev with
  | nil => intro c0 h; simp at h
  | cons c r ih =>
    intro c0 hlast hc0 hs0
    unfold trimSpaceBack
    by_cases hc : c ≥ 0x80
    · rw [if_pos hc]; exact trimFunc_trimmed _
    · rw [if_neg hc]
      by_cases hsp : isAsciiSpace c = true
      · rw [if_pos hsp]
        cases r with
        | nil =>
          -- the only byte is the first one, which is not a space
          simp only [List.getLast?_singleton, Option.some.injEq] at hlast
          rw [hlast, ← isSpaceRune_ascii c0 hc0, hs0] at hsp
          cases hsp
        | cons c1 r1 =>
          exact ih c0 (by simpa [List.getLast?_cons_cons] using hlast) hc0 hs0
      · rw [if_neg hsp]
        right
        have hsc : isSpaceRune c = false := by
          rw [isSpaceRune_ascii c (by omega)]; simpa using hsp
        rw [List.reverse_cons]
        refine ⟨?_, rightOK_ascii r.reverse c (by omega) hsc⟩
        -- the first byte of the reversed list is `c0`
        cases hrr : r.reverse with
        | nil =>
          have hr : r = [] := List.reverse_eq_nil_iff.mp hrr
          subst hr
          simp only [List.getLast?_singleton, Option.some.injEq] at hlast
          rw [List.nil_append]
          exact leftOK_ascii c [] (by omega) hsc
        | cons a t =>
          have ha : a = c0 := by
            have h1 : r.getLast? = some a := by
              rw [List.getLast?_eq_head?_reverse, hrr]; rfl
            have h2 : (c :: r).getLast? = r.getLast? := by
              cases r with
              | nil => simp at hrr
              | cons x y => simp [List.getLast?_cons_cons]
            rw [h2, h1] at hlast
            exact Option.some.inj hlast
          rw [ha, List.cons_append]
          exact leftOK_ascii c0 _ hc0 hs0

theorem trimSpace_trimmed : ∀ (x : Bytes), Trimmed (trimSpace x) := by
  intro x
  induction x with
  | nil => left; rfl
  | cons c rest ih =>
    unfold trimSpace
    by_cases hc : c ≥ 0x80
    · rw [if_pos hc]; exact trimFunc_trimmed _
    · rw [if_neg hc]
      by_cases hsp : isAsciiSpace c = true
      · rw [if_pos hsp]; exact ih
      · rw [if_neg hsp]
        have hsc : isSpaceRune c = false := by
          rw [isSpaceRune_ascii c (by omega)]; simpa using hsp
        refine trimSpaceBack_trimmed _ c ?_ (by omega) hsc
        rw [List.getLast?_reverse]; rfl

/-- **`bytes.TrimSpace` is idempotent.** -/
theorem trimSpace_idem (x : Bytes) : trimSpace (trimSpace x) = trimSpace x :=
  trimSpace_fixed _ (trimSpace_trimmed x)

end AGH.C15
