/-
Helper lemmas about the Layer B model of urlfilter's rule selection.
-/
import AGH.Lemmas.Filter
import AGH.Model.FilterRules
set_option linter.unusedSimpArgs false
namespace AGH.Filter
open AGH AGH.Bytes

theorem bestRank_none (l : List NetRule) : bestRank l = none ↔ l = [] := by
  cases l with
  | nil => simp [bestRank]
  | cons r rest =>
    simp only [bestRank]
    cases bestRank rest <;> simp

theorem bestRank_ge (l : List NetRule) (k : Nat) (h : bestRank l = some k) : ∀ r ∈ l, r.rank ≤ k := by
  induction l generalizing k with
  | nil => simp
  | cons r rest ih =>
    intro x hx
    simp only [bestRank] at h
    cases hb : bestRank rest with
    | none =>
      rw [hb] at h
      have : rest = [] := (bestRank_none rest).mp hb
      subst this
      simp at hx; cases h; subst hx; exact Nat.le_refl _
    | some k' =>
      rw [hb] at h
      cases h
      rcases List.mem_cons.mp hx with rfl | hx
      · exact Nat.le_max_left _ _
      · exact Nat.le_trans (ih k' hb x hx) (Nat.le_max_right _ _)

theorem bestRank_attained (l : List NetRule) (k : Nat) (h : bestRank l = some k) : ∃ r ∈ l, r.rank = k := by
  induction l generalizing k with
  | nil => simp [bestRank] at h
  | cons r rest ih =>
    simp only [bestRank] at h
    cases hb : bestRank rest with
    | none => rw [hb] at h; cases h; exact ⟨r, List.mem_cons_self, rfl⟩
    | some k' =>
      rw [hb] at h
      cases h
      obtain ⟨x, hx, hxk⟩ := ih k' hb
      by_cases hle : r.rank ≤ k'
      · exact ⟨x, List.mem_cons_of_mem _ hx, by rw [hxk]; exact (Nat.max_eq_right hle).symm⟩
      · exact ⟨r, List.mem_cons_self, (Nat.max_eq_left (Nat.le_of_lt (Nat.lt_of_not_le hle))).symm⟩

theorem rank_cases (r : NetRule) :
    (r.rank = 3 ∧ r.whitelist = true ∧ r.important = true) ∨
    (r.rank = 2 ∧ r.whitelist = false ∧ r.important = true) ∨
    (r.rank = 1 ∧ r.whitelist = true ∧ r.important = false) ∨
    (r.rank = 0 ∧ r.whitelist = false ∧ r.important = false) := by
  unfold NetRule.rank
  cases r.whitelist <;> cases r.important <;> simp

/-- the matching network rules of a rule list -/
def matching (rs : List Rule) (q : ReqInfo) : List NetRule := (netRules rs).filter (fun r => netMatch r q)

theorem engineMatch_net (rs : List Rule) (q : ReqInfo) (hq : q.host ≠ []) (k : Nat)
    (h : bestRank (matching rs q) = some k) :
    engineMatch rs q = some (.net (k == 1 || k == 3)) := by
  unfold engineMatch
  have : q.host.isEmpty = false := by cases hh : q.host <;> simp_all
  simp only [this, Bool.false_eq_true, if_false]
  unfold matching at h
  rw [h]

end AGH.Filter
