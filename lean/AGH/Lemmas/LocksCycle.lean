/-
C05 helper: a cycle of lock-order edges admits no rank function (used for the
counterexample theorem about the reported lock-order findings).  Core Lean only.
-/
import AGH.Spec.Locks
namespace AGH.C05

theorem closedWalk_rank_lt (es : List (Nat × Nat)) (rank : Nat → Nat)
    (hr : ∀ e ∈ es, rank e.1 < rank e.2) (start : Nat) :
    ∀ (r : List Nat) (cur : Nat), closedWalk es start cur r = true → rank cur < rank start := by
  intro r
  induction r with
  | nil =>
    intro cur h
    simp only [closedWalk, List.contains_iff_mem] at h
    exact hr (cur, start) h
  | cons b r ih =>
    intro cur h
    simp only [closedWalk, Bool.and_eq_true, List.contains_iff_mem] at h
    have h1 := hr (cur, b) h.1
    have h2 := ih b h.2
    exact Nat.lt_trans h1 h2

/-- A cycle in the edge list: no assignment of ranks makes every edge go up. -/
theorem no_rank_of_cycle (es : List (Nat × Nat)) (c : List Nat) (hc : cycleIn es c = true) :
    ∀ rank : Nat → Nat, ¬ (∀ e ∈ es, rank e.1 < rank e.2) := by
  intro rank hr
  cases c with
  | nil => simp [cycleIn] at hc
  | cons a r =>
    have := closedWalk_rank_lt es rank hr a r a hc
    exact Nat.lt_irrefl _ this

end AGH.C05
