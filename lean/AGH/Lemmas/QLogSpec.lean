/-
Lemmas for C07: the model refines the spec's ghost log; the time invariant;
the monitor accepts every answer of the model.  Core Lean only.
-/
import AGH.Lemmas.QLogParse
namespace AGH.C07
open AGH AGH.Bytes

theorem statusMatch_eq_sat (v : Status) (reason : Nat) (isF : Bool) :
    statusMatch v reason isF = statusSat v reason isF := by
  cases v <;> cases isF <;>
    simp [statusMatch, statusSat, isFilteredWithReason, reasonIn, rAllowList, rRewritten,
      rRewrittenAutoHosts, rRewrittenRule, rBlockList, rBlockedService, rParental, rSafeBrowsing,
      rSafeSearch] <;> (rw [Bool.eq_iff_iff]; simp)

/-- A well-formed request is accepted, with the meaning the spec gives it. -/
theorem parse_of_ask (sd : Int) (r : Req) (a : Ask) (h : ask r = some a) :
    ∃ p, parseParams sd r = some p ∧ p.olderThan = a.olderThan ∧ p.limit = a.limit ∧
      (match a.offset with
       | some o => p.offset = o ∧ p.scan = 0
       | none => p.offset = 0 ∧ p.scan = sd) ∧
      ∀ c e, matchE c p e = satisfies c a e := by
  unfold ask at h
  cases ho : askOlder r with
  | none => simp [ho] at h
  | some ot =>
    cases hl : askLimit r with
    | none => simp [ho, hl] at h
    | some limit =>
      cases hf : askOffset r limit with
      | none => simp [ho, hl, hf] at h
      | some off =>
        cases hs : askStatus r with
        | none => simp [ho, hl, hf, hs] at h
        | some st =>
          cases ht : askTerm r with
          | none => simp [ho, hl, hf, hs, ht] at h
          | some tm =>
            simp only [ho, hl, hf, hs, ht, Option.some.injEq] at h
            subst h
            have hpo : parseOlder r = some ot := by rw [parseOlder_eq_ask, ho]
            have hpl := parseLimit_of_ask r limit hl
            have hps := parseStatus_of_ask r st hs
            have hpt := parseTerm_of_ask r tm ht
            -- the criteria mean the same
            have hcrit : ∀ (olderThan : Option Int) (off sc : Int) c e,
                matchE c { olderThan := olderThan,
                           criteria := critList (tm.map (fun x => .term x.1 x.2.1 x.2.2)) (st.map .status),
                           offset := off, limit := limit, scan := sc } e =
                satisfies c { olderThan := olderThan, offset := none, limit := limit, term := tm, status := st } e := by
              intro olderThan off sc c e
              unfold matchE satisfies critList
              cases olderThan <;> cases tm with
              | none =>
                cases st with
                | none => simp
                | some v => simp [critMatch, statusMatch_eq_sat]
              | some x =>
                obtain ⟨v, asc, strict⟩ := x
                cases st with
                | none => simp [critMatch, termMatch_eq_sat]
                | some w => simp [critMatch, termMatch_eq_sat, statusMatch_eq_sat, Bool.and_assoc]
            have hsat_off : ∀ (o1 o2 : Option Nat) c e,
                satisfies c { olderThan := ot, offset := o1, limit := limit, term := tm, status := st } e =
                satisfies c { olderThan := ot, offset := o2, limit := limit, term := tm, status := st } e := by
              intros; rfl
            cases off with
            | none =>
              have hpf := parseOffset_of_ask_none sd r limit hf
              refine ⟨{ olderThan := ot,
                        criteria := critList (tm.map (fun x => .term x.1 x.2.1 x.2.2)) (st.map .status),
                        offset := 0, limit := limit, scan := sd }, ?_, rfl, rfl, ⟨rfl, rfl⟩, ?_⟩
              · simp only [parseParams, hpo, hpl, hpf, hps, hpt]
                cases st <;> rfl
              · intro c e; exact hcrit ot 0 sd c e
            | some o =>
              have hpf := parseOffset_of_ask_some sd r limit o hf
              refine ⟨{ olderThan := ot,
                        criteria := critList (tm.map (fun x => .term x.1 x.2.1 x.2.2)) (st.map .status),
                        offset := o, limit := limit, scan := 0 }, ?_, rfl, rfl, ⟨rfl, rfl⟩, ?_⟩
              · simp only [parseParams, hpo, hpl, hpf, hps, hpt]
                cases st <;> rfl
              · intro c e
                rw [hcrit ot o 0 c e]
                exact hsat_off none (some o) c e


def tag (t : Loc) (l : List Entry) : List (Entry × Loc) := l.map (fun e => (e, t))

def tagged (s : State) : List (Entry × Loc) := tag .rot s.rot ++ tag .cur s.cur ++ tag .mem s.mem

def Refines (g : Ghost) (s : State) : Prop := g.log = tagged s ∧ g.conf = s.conf

@[simp] theorem tag_nil (t : Loc) : tag t [] = [] := rfl
@[simp] theorem tag_append (t : Loc) (a b : List Entry) : tag t (a ++ b) = tag t a ++ tag t b := by
  simp [tag]
@[simp] theorem tag_map_fst (t : Loc) (l : List Entry) : (tag t l).map (·.1) = l := by
  simp [tag, Function.comp_def]

theorem filter_tag (p : Entry × Loc → Bool) (t : Loc) (l : List Entry) (b : Bool)
    (h : ∀ e, p (e, t) = b) : (tag t l).filter p = if b then tag t l else [] := by
  induction l with
  | nil => cases b <;> rfl
  | cons e rest ih =>
    simp only [tag, List.map_cons, List.filter_cons, h e] at ih ⊢
    cases b <;> simp_all

theorem retag_tag (a b t : Loc) (l : List Entry) : retag a b (tag t l) = tag (if t = a then b else t) l := by
  simp only [retag, tag, List.map_map]
  congr 1
  funext e
  simp only [Function.comp]
  split <;> rfl

theorem retag_append (a b : Loc) (x y : List (Entry × Loc)) : retag a b (x ++ y) = retag a b x ++ retag a b y := by
  simp [retag]

theorem countLoc_tag (loc t : Loc) (l : List Entry) : countLoc loc (tag t l) = if t = loc then l.length else 0 := by
  unfold countLoc
  rw [filter_tag _ t l (decide (t = loc)) (by intro e; rfl)]
  by_cases h : t = loc <;> simp [h, tag]

theorem countLoc_append (loc : Loc) (x y : List (Entry × Loc)) :
    countLoc loc (x ++ y) = countLoc loc x + countLoc loc y := by
  simp [countLoc]

theorem countLoc_tagged (s : State) :
    countLoc .mem (tagged s) = s.mem.length ∧ countLoc .cur (tagged s) = s.cur.length ∧
    countLoc .rot (tagged s) = s.rot.length := by
  simp [tagged, countLoc_append, countLoc_tag]

theorem trimGo_notmem (d : Nat) (t : Loc) (ht : t ≠ .mem) (l : List Entry) (rest : List (Entry × Loc)) :
    trimMem.go d (tag t l ++ rest) = tag t l ++ trimMem.go d rest := by
  induction l with
  | nil => rfl
  | cons e r ih =>
    simp only [tag, List.map_cons, List.cons_append, trimMem.go] at ih ⊢
    simp [ht, ih]

theorem trimGo_mem (d : Nat) (l : List Entry) : trimMem.go d (tag .mem l) = tag .mem (l.drop d) := by
  induction l generalizing d with
  | nil => simp [tag, trimMem.go]
  | cons e r ih =>
    cases d with
    | zero =>
      simp only [tag, List.map_cons, trimMem.go, List.drop_zero] at ih ⊢
      simp
      have := ih 0
      simpa using this
    | succ k =>
      simp only [tag, List.map_cons, trimMem.go] at ih ⊢
      simp [ih k]

theorem trimMem_tagged (n : Nat) (rot cur mem : List Entry) :
    trimMem n (tag .rot rot ++ tag .cur cur ++ tag .mem mem) =
      tag .rot rot ++ tag .cur cur ++ tag .mem (mem.drop (mem.length - n)) := by
  unfold trimMem
  have hk : countLoc .mem (tag .rot rot ++ tag .cur cur ++ tag .mem mem) = mem.length := by
    simp [countLoc_append, countLoc_tag]
  simp only [hk]
  rw [List.append_assoc, trimGo_notmem _ .rot (by decide), trimGo_notmem _ .cur (by decide), trimGo_mem,
    List.append_assoc]

theorem push_eq_drop (cap : Nat) (mem : List Entry) (e : Entry) :
    push cap mem e = (mem ++ [e]).drop ((mem ++ [e]).length - cap) := by
  unfold push
  simp only
  split
  · rfl
  · rename_i h
    have : (mem ++ [e]).length - cap = 0 := by omega
    rw [this]; rfl

theorem refines_flush (g : Ghost) (s : State) (h : Refines g s) : Refines (gFlush g) (flush s) := by
  obtain ⟨hl, hc⟩ := h
  unfold gFlush flush
  by_cases hm : s.mem = []
  · simp only [hm, if_true]
    refine ⟨?_, hc⟩
    simp only [hl, tagged, hm, tag_nil, List.append_nil, retag_append, retag_tag]
    simp
  · simp only [hm, if_false]
    refine ⟨?_, hc⟩
    simp only [hl, tagged, retag_append, retag_tag, tag_append, tag_nil, List.append_nil]
    simp

theorem refines_rotate (g : Ghost) (s : State) (h : Refines g s) (_hne : s.cur ≠ []) :
    Refines { g with log := retag .cur .rot (g.log.filter (fun x => x.2 ≠ .rot)) } { s with rot := s.cur, cur := [] } := by
  obtain ⟨hl, hc⟩ := h
  refine ⟨?_, hc⟩
  simp only [hl, tagged, List.filter_append]
  rw [filter_tag _ .rot s.rot false (by intro e; simp), filter_tag _ .cur s.cur true (by intro e; simp),
    filter_tag _ .mem s.mem true (by intro e; simp)]
  simp [retag_append, retag_tag]

theorem find_tag_none (p : Entry × Loc → Bool) (t : Loc) (l : List Entry) (h : ∀ e, p (e, t) = false) :
    (tag t l).find? p = none := by
  induction l with
  | nil => rfl
  | cons e r ih => simp only [tag, List.map_cons, List.find?_cons, h e] at ih ⊢; exact ih

/-- Nothing is in flight: no flush goroutine is waiting to run and the flag is down. -/
def Quiet (s : State) : Prop := s.flushPending = false ∧ s.tasks = 0

theorem push_ne_nil (cap : Nat) (hcap : 0 < cap) (mem : List Entry) (e : Entry) : push cap mem e ≠ [] := by
  rw [push_eq_drop]
  intro h
  have := congrArg List.length h
  simp at this
  omega

theorem ringCap_pos (c : Conf) : 0 < ringCap c := by unfold ringCap; split <;> omega

/-- With nothing in flight, `Add` and the completion of the flush goroutine it
starts are `addEntry`. -/
theorem runTasks_addRaw (s : State) (e : Entry) (hq : Quiet s) : runTasks (addRaw s e) = addEntry s e := by
  obtain ⟨hf, ht⟩ := hq
  unfold addRaw addEntry
  by_cases hen : s.conf.enabled = true
  · simp only [hen, Bool.not_true, Bool.false_eq_true, if_false, hf, Bool.not_false, Bool.true_and]
    by_cases hc : (s.conf.fileEnabled && decide ((push (ringCap s.conf) s.mem e).length ≥ s.conf.memSize)) = true
    · simp only [hc, if_true, runTasks, ht, Nat.zero_add, runTasksN, runTask, flush,
        push_ne_nil _ (ringCap_pos s.conf), if_false]
    · simp only [hc, Bool.false_eq_true, if_false, runTasks, ht, runTasksN]
  · simp only [hen, Bool.not_false, if_true, runTasks, ht, runTasksN]

theorem quiet_flush (s : State) (hq : Quiet s) : Quiet (flush s) := by
  unfold flush Quiet at *
  split <;> simp_all

theorem quiet_addEntry (s : State) (e : Entry) (hq : Quiet s) : Quiet (addEntry s e) := by
  unfold addEntry
  split
  · exact hq
  · dsimp only
    split
    · exact quiet_flush _ hq
    · exact hq

theorem quiet_applyThen (s : State) (t : Then) (hq : Quiet s) : Quiet (applyThen s t) := by
  cases t with
  | clear => exact ⟨rfl, hq.2⟩
  | shutdown => simp only [applyThen, shutdown]; split; exact quiet_flush s hq; exact hq
  | restart m f en => exact ⟨rfl, rfl⟩

/-- The clear / shutdown / restart that overtakes the flush goroutine leads to the
same state as the one that lets it run first. -/
theorem addThen_confluent (s : State) (e : Entry) (t : Then) (hq : Quiet s) :
    runTasks (applyThen (addRaw s e) t) = applyThen (addEntry s e) t := by
  obtain ⟨hf, ht⟩ := hq
  have hcap := push_ne_nil _ (ringCap_pos s.conf) s.mem e
  unfold addRaw addEntry
  by_cases hen : s.conf.enabled = true
  · simp only [hen, Bool.not_true, Bool.false_eq_true, if_false, hf, Bool.not_false, Bool.true_and]
    by_cases hc : (s.conf.fileEnabled && decide ((push (ringCap s.conf) s.mem e).length ≥ s.conf.memSize)) = true
    · have hfe : s.conf.fileEnabled = true := by
        simp only [Bool.and_eq_true] at hc; exact hc.1
      simp only [hc, if_true]
      cases t with
      | clear =>
        simp [applyThen, clear, runTasks, ht, runTasksN, runTask, flush, hcap]
      | shutdown =>
        simp [applyThen, shutdown, hfe, runTasks, ht, runTasksN, runTask, flush, hcap]
      | restart m f en =>
        simp [applyThen, restart, shutdown, hfe, runTasks, runTasksN, flush, hcap]
    · simp only [hc, Bool.false_eq_true, if_false]
      cases t with
      | clear => simp [applyThen, clear, runTasks, ht, runTasksN]
      | shutdown =>
        simp only [applyThen, shutdown]
        split <;> simp [flush, runTasks, ht, runTasksN] <;> split <;> simp [ht, runTasksN]
      | restart m f en => simp [applyThen, restart, runTasks, runTasksN]
  · simp only [hen, Bool.not_false, if_true]
    cases t with
    | clear => simp [applyThen, clear, runTasks, ht, runTasksN]
    | shutdown =>
      simp only [applyThen, shutdown]
      split <;> simp [flush, runTasks, ht, runTasksN] <;> split <;> simp [ht, runTasksN]
    | restart m f en => simp [applyThen, restart, runTasks, runTasksN]

theorem refines_addEntry (g : Ghost) (s : State) (e : Entry) (h : Refines g s) :
    Refines (gAdd g e) (addEntry s e) := by
  have hl := h.1
  have hc := h.2
  simp only [gAdd, addEntry, hc]
  by_cases hen : s.conf.enabled = true
  · simp only [hen, Bool.not_true, Bool.false_eq_true, if_false]
    have hlog : trimMem (ringCap s.conf) (g.log ++ [(e, Loc.mem)]) =
        tagged { s with mem := push (ringCap s.conf) s.mem e } := by
      rw [hl, tagged]
      have : tag .rot s.rot ++ tag .cur s.cur ++ tag .mem s.mem ++ [(e, Loc.mem)] =
          tag .rot s.rot ++ tag .cur s.cur ++ tag .mem (s.mem ++ [e]) := by simp [tag]
      rw [this, trimMem_tagged, push_eq_drop]
      rfl
    rw [hlog]
    have hcnt : countLoc .mem (tagged { s with mem := push (ringCap s.conf) s.mem e }) =
        (push (ringCap s.conf) s.mem e).length := (countLoc_tagged _).1
    rw [hcnt]
    split
    · exact refines_flush _ _ ⟨rfl, rfl⟩
    · exact ⟨rfl, rfl⟩
  · simp only [hen, Bool.not_false, if_true]
    exact h

theorem refines_shutdown (g : Ghost) (s : State) (h : Refines g s) :
    Refines (if g.conf.fileEnabled then gFlush g else g) (shutdown s) := by
  simp only [shutdown, h.2]
  split
  · exact refines_flush g s h
  · exact h

theorem refines_clear (g : Ghost) (s : State) (h : Refines g s) :
    Refines { g with log := [] } (clear s) := ⟨by simp [tagged, clear], h.2⟩

theorem refines_restart (g : Ghost) (s : State) (m : Nat) (f en : Bool) (h : Refines g s) :
    Refines (gRestart g m f en) (restart s m f en) := by
  have hc := h.2
  simp only [gRestart, restart, shutdown, hc]
  have key : ∀ g' s', Refines g' s' →
      Refines { log := g'.log.filter (fun x => x.2 ≠ Loc.mem),
                conf := { g'.conf with memSize := m, fileEnabled := f, enabled := en } }
        { s' with mem := [], flushPending := false, tasks := 0,
                  conf := { s'.conf with memSize := m, fileEnabled := f, enabled := en } } := by
    intro g' s' h'
    refine ⟨?_, by rw [h'.2]⟩
    simp only [h'.1, tagged, List.filter_append]
    rw [filter_tag _ .rot s'.rot true (by intro e; simp), filter_tag _ .cur s'.cur true (by intro e; simp),
      filter_tag _ .mem s'.mem false (by intro e; simp)]
    simp
  split
  · exact key _ _ (refines_flush g s h)
  · exact key _ _ h

theorem refines_step (g : Ghost) (s : State) (op : Op) (h : Refines g s) (hq : Quiet s) :
    Refines (gStep g op) (step s op) := by
  have hl := h.1
  have hc := h.2
  cases op with
  | add e =>
    simp only [gStep, step, runTasks_addRaw s e hq]
    exact refines_addEntry g s e h
  | addThen e t =>
    simp only [step, addThen_confluent s e t hq]
    have h1 := refines_addEntry g s e h
    cases t with
    | clear => exact refines_clear _ _ h1
    | shutdown => exact refines_shutdown _ _ h1
    | restart m f en => exact refines_restart _ _ m f en h1
  | shutdown => exact refines_shutdown g s h
  | rotate =>
    simp only [gStep, step, rotate]
    have hcnt : countLoc .cur g.log = s.cur.length := by rw [hl]; exact (countLoc_tagged s).2.1
    by_cases hcur : s.cur = []
    · simp [hcnt, hcur]; exact h
    · have : ¬ s.cur.length = 0 := fun hh => hcur (List.eq_nil_of_length_eq_zero hh)
      simp only [hcnt, this, hcur, if_false]
      exact refines_rotate g s h hcur
  | rotCheck now =>
    simp only [gStep, step, rotCheck]
    cases hcur : s.cur with
    | nil =>
      have : g.log.find? (fun x => x.2 = Loc.cur) = none := by
        rw [hl, tagged, hcur]
        have hrot : (tag .rot s.rot).find? (fun x => decide (x.2 = Loc.cur)) = none :=
          find_tag_none _ _ _ (by intro e; rfl)
        have hmem : (tag .mem s.mem).find? (fun x => decide (x.2 = Loc.cur)) = none :=
          find_tag_none _ _ _ (by intro e; rfl)
        simp only [tag_nil, List.append_nil, List.find?_append, hrot, hmem]
        rfl
      simp only [this]
      exact h
    | cons first rest =>
      have : g.log.find? (fun x => x.2 = Loc.cur) = some (first, Loc.cur) := by
        rw [hl, tagged, hcur]
        have hrot : (tag .rot s.rot).find? (fun x => decide (x.2 = Loc.cur)) = none :=
          find_tag_none _ _ _ (by intro e; rfl)
        simp only [List.find?_append, hrot]
        simp [tag]
      have hivl : g.conf.ivl = s.conf.ivl := by rw [hc]
      simp only [this, hivl]
      split
      · exact h
      · have hne : s.cur ≠ [] := by rw [hcur]; simp
        have := refines_rotate g s h hne
        simpa [rotate, hcur] using this
  | clear => exact refines_clear g s h
  | restart m f en => exact refines_restart g s m f en h
  | putConf en an ivl ign =>
    simp only [gStep, step, putConf]
    split
    · exact h
    · exact ⟨hl, by simp [hc]⟩
  | setClients tbl =>
    simp only [gStep, step, setClients]
    exact ⟨hl, by simp [hc]⟩

/-- Every operation ends with nothing in flight. -/
theorem quiet_step (s : State) (op : Op) (hq : Quiet s) : Quiet (step s op) := by
  cases op with
  | add e => simp only [step, runTasks_addRaw s e hq]; exact quiet_addEntry s e hq
  | addThen e t =>
    simp only [step, addThen_confluent s e t hq]
    exact quiet_applyThen _ t (quiet_addEntry s e hq)
  | shutdown => exact quiet_applyThen s .shutdown hq
  | rotate => simp only [step, rotate]; split <;> exact hq
  | rotCheck now =>
    simp only [step, rotCheck]
    split
    · exact hq
    · split
      · exact hq
      · simp only [rotate]; split <;> exact hq
  | clear => exact quiet_applyThen s .clear hq
  | restart m f en => exact quiet_applyThen s (.restart m f en) hq
  | putConf en an ivl ign => simp only [step, putConf]; split <;> exact hq
  | setClients tbl => exact hq

end AGH.C07
