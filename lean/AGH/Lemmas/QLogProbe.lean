/-
C20 helper lemmas, part 3: `readProbeLine` on a position inside a line and at
the end of the file.  Core only.
-/
import AGH.Lemmas.QLogScan
namespace AGH.C20
open AGH

theorem probeScan_line (f : File) (seekPos rel bufLen s e : Nat)
    (hl : LineAt f s e) (hsple : seekPos ≤ s) (_hsplt : seekPos = 0 ∨ seekPos < s)
    (hrel1 : s ≤ seekPos + rel) (hrel2 : seekPos + rel ≤ e) (heb : e - seekPos < bufLen) :
    probeScan (probeWindow f seekPos bufLen) seekPos rel bufLen = .ok (s, e, e + 1) := by
  have hse := hl.le
  have hg : ∀ i, i < bufLen → probeWindow f seekPos bufLen i = f.byte (seekPos + i) := by
    intro i hi; simp [probeWindow, hi]
  have hback : scanBack (probeWindow f seekPos bufLen) rel = s - seekPos := by
    apply scanBack_eq
    · omega
    · intro i hi1 hi2
      rw [hg i (by omega)]
      exact hl.body _ (by omega) (by omega)
    · by_cases hs : s = seekPos
      · left; omega
      · right
        rw [hg _ (by omega)]
        rw [show seekPos + (s - seekPos - 1) = s - 1 by omega]
        rcases hl.before with h | h
        · omega
        · exact h
  have hfwd : scanFwd (probeWindow f seekPos bufLen) rel (bufLen - rel) = some (e - seekPos) := by
    apply scanFwd_eq
    · rw [hg _ heb, show seekPos + (e - seekPos) = e by omega]; exact hl.nl
    · omega
    · omega
    · intro i hi1 hi2
      rw [hg i (by omega)]
      exact hl.body _ (by omega) (by omega)
  unfold probeScan
  rw [hfwd, hback]
  have : ¬ (s - seekPos > e - seekPos) := by omega
  simp only [this, if_false]
  congr 2
  · omega
  · congr 1 <;> omega

/-- A probe anywhere in `[s, e]` of a line shorter than `maxEntry` returns exactly
that line and the index after its newline. -/
theorem readProbeLine_line (P : Params) (f : File) (s e p : Nat)
    (hl : LineAt f s e) (hlen : e - s < P.maxEntry) (h1 : s ≤ p) (h2 : p ≤ e) :
    readProbeLine P f p = .ok (s, e, e + 1) := by
  have hse := hl.le
  have hlt := hl.lt
  unfold readProbeLine
  by_cases hp : p > P.maxEntry
  · simp only [hp, if_true]
    have hb0 : ¬ (min (2 * P.maxEntry) (f.size - (p - P.maxEntry)) = 0) := by omega
    simp only [hb0, if_false]
    exact probeScan_line f _ _ _ s e hl (by omega) (by omega) (by omega) (by omega) (by omega)
  · simp only [hp, if_false]
    have hb0 : ¬ (min (2 * P.maxEntry) (f.size - 0) = 0) := by omega
    simp only [hb0, if_false]
    exact probeScan_line f _ _ _ s e hl (by omega) (by omega) (by omega) (by omega) (by omega)

theorem probeScan_end (f : File) (seekPos rel : Nat) (hrel0 : 0 < rel)
    (hnl : f.byte (seekPos + rel - 1) = 10) :
    probeScan (probeWindow f seekPos rel) seekPos rel rel = .ok (seekPos + rel, seekPos + rel, seekPos + rel) := by
  have hback : scanBack (probeWindow f seekPos rel) rel = rel := by
    apply scanBack_eq
    · omega
    · intro i hi1 hi2; omega
    · right
      have : rel - 1 < rel := by omega
      simp only [probeWindow, this, if_true]
      rw [show seekPos + (rel - 1) = seekPos + rel - 1 by omega]; exact hnl
  unfold probeScan
  rw [hback, Nat.sub_self]
  simp only [scanFwd]
  have : ¬ (rel > rel) := by omega
  simp only [this, if_false]
  congr 2
  · omega
  · congr 1 <;> omega

/-- A probe at the end of a non-empty file that ends with a newline returns the
empty line at `size`. -/
theorem readProbeLine_end (P : Params) (f : File) (hM : 0 < P.maxEntry) (h0 : 0 < f.size)
    (hnl : f.byte (f.size - 1) = 10) :
    readProbeLine P f f.size = .ok (f.size, f.size, f.size) := by
  unfold readProbeLine
  by_cases hp : f.size > P.maxEntry
  · simp only [hp, if_true]
    have hb : min (2 * P.maxEntry) (f.size - (f.size - P.maxEntry)) = P.maxEntry := by omega
    rw [hb]
    have hb0 : ¬ (P.maxEntry = 0) := by omega
    simp only [hb0, if_false]
    have := probeScan_end f (f.size - P.maxEntry) P.maxEntry hM
      (by rw [show f.size - P.maxEntry + P.maxEntry - 1 = f.size - 1 by omega]; exact hnl)
    rw [show f.size - P.maxEntry + P.maxEntry = f.size by omega] at this
    exact this
  · simp only [hp, if_false]
    have hb : min (2 * P.maxEntry) (f.size - 0) = f.size := by omega
    rw [hb]
    have hb0 : ¬ (f.size = 0) := by omega
    simp only [hb0, if_false]
    have := probeScan_end f 0 f.size h0 (by simpa using hnl)
    simpa using this

end AGH.C20
