/-
Lemmas for C07: what `search` returns — soundness for every validated
request, offset/limit slices, cursor pages.  Core Lean only.
-/
import AGH.Lemmas.QLogRead
namespace AGH.C07
open AGH

/-! ### quick match over-approximates the full match -/

theorem critQuick_of_critMatch (c : Conf) (cr : Criterion) (e : Entry)
    (h : critMatch c cr e = true) : critQuick c cr e = true := by
  cases cr with
  | term v a strict =>
    simp only [critQuick]
    split
    · rfl
    · simpa [critMatch] using h
  | status v => rfl

theorem quickE_of_matchE (c : Conf) (p : Params) (e : Entry)
    (h : matchE c p e = true) : quickE c p e = true := by
  simp only [matchE, Bool.and_eq_true, List.all_eq_true] at h
  simp only [quickE, List.all_eq_true]
  intro cr hcr
  exact critQuick_of_critMatch c cr e (h.2 cr hcr)

theorem keepE_eq_keepMem (c : Conf) (p : Params) (e : Entry) : keepE c p e = keepMem c p e := by
  simp only [keepE, keepMem]
  cases hm : matchE c p e with
  | false => simp
  | true => simp [quickE_of_matchE c p e hm]

theorem keepMem_older (c : Conf) (p : Params) (e : Entry) (t : Int) (hot : p.olderThan = some t)
    (h : keepMem c p e = true) : e.ts < t := by
  simp only [keepMem, matchE, hot, Bool.and_eq_true, decide_eq_true_eq] at h
  exact h.2.1

/-! ### invariant and the visible sequence -/

def Inv (s : State) : Prop := Asc (s.rot ++ s.cur ++ s.mem)

def memRev (s : State) : List Entry := if s.conf.memSize = 0 then [] else s.mem.reverse

/-- Everything the API can see, newest first. -/
def logRev (s : State) : List Entry := memRev s ++ filesRev s.rot s.cur

/-- The sequence a request pages through. -/
def vis (s : State) (p : Params) : List Entry := (logRev s).filter (keepMem s.conf p)

structure ValidP (p : Params) : Prop where
  off : 0 ≤ p.offset
  lim : 1 ≤ p.limit
  sum : p.offset + p.limit ≤ maxInt

theorem desc_full (s : State) (h : Inv s) : Desc (s.mem.reverse ++ filesRev s.rot s.cur) := by
  have : s.mem.reverse ++ filesRev s.rot s.cur = (s.rot ++ s.cur ++ s.mem).reverse := by
    simp [filesRev]
  rw [this]
  exact List.pairwise_reverse.mpr h

theorem desc_logRev (s : State) (h : Inv s) : Desc (logRev s) := by
  have hd := desc_full s h
  unfold logRev memRev
  split
  · exact (List.pairwise_append.mp hd).2.1
  · exact hd

theorem desc_files (s : State) (h : Inv s) : Desc (filesRev s.rot s.cur) :=
  (List.pairwise_append.mp (desc_full s h)).2.1

theorem asc_files (s : State) (h : Inv s) : Asc (s.rot ++ s.cur) :=
  (List.pairwise_append.mp h).1

theorem searchMemory_eq (s : State) (p : Params) :
    searchMemory s p = (memRev s).filter (keepMem s.conf p) := by
  unfold searchMemory memRev
  split <;> simp

theorem wrap64_id (x : Int) (h0 : 0 ≤ x) (h1 : x ≤ maxInt) : wrap64 x = x := by
  unfold wrap64; unfold maxInt at h1; omega

/-- Closed form of `search` for validated parameters: never a fault. -/
theorem search_eq (s : State) (p : Params) (hv : ValidP p) :
    search s p = .ok (
      let E := sortDesc ((searchMemory s p ++ (searchFiles s p).1).take (p.offset + p.limit).toNat)
      let D := E.drop p.offset.toNat
      (D, match D.getLast? with
          | some e => some e.ts
          | none => if p.offset > 0 ∧ ¬ ((E.length : Int) > p.offset) then none else (searchFiles s p).2)) := by
  have hTL : wrap64 (p.offset + p.limit) = p.offset + p.limit :=
    wrap64_id _ (by have := hv.off; have := hv.lim; omega) hv.sum
  have hl : p.limit ≠ 0 := by have := hv.lim; omega
  have hoff := hv.off
  have hlim := hv.lim
  unfold search
  simp only [hl, if_false, hTL]
  have hnf : ¬ (((searchMemory s p ++ (searchFiles s p).1).length : Int) > p.offset + p.limit ∧
      p.offset + p.limit < 0) := by omega
  rcases hsf : searchFiles s p with ⟨fileE, o0⟩
  simp only [hsf] at hnf
  simp only [hnf, if_false]
  have htake : (if ((searchMemory s p ++ fileE).length : Int) > p.offset + p.limit
      then (searchMemory s p ++ fileE).take (p.offset + p.limit).toNat else searchMemory s p ++ fileE) =
      (searchMemory s p ++ fileE).take (p.offset + p.limit).toNat := by
    split
    · rfl
    · rw [List.take_of_length_le]; omega
  rw [htake]
  generalize sortDesc ((searchMemory s p ++ fileE).take (p.offset + p.limit).toNat) = E
  by_cases ho : p.offset > 0
  · by_cases hlen : (E.length : Int) > p.offset
    · simp [ho, hlen]
      cases (List.drop p.offset.toNat E).getLast? <;> rfl
    · simp only [ho, hlen, if_true, if_false]
      have : E.drop p.offset.toNat = [] := by
        apply List.drop_eq_nil_of_le; omega
      simp [this]
  · have h0 : p.offset = 0 := by omega
    simp [h0]
    cases E.getLast? <;> rfl


theorem keepE_fun (c : Conf) (p : Params) : keepE c p = keepMem c p :=
  funext (keepE_eq_keepMem c p)

/-- Everything `searchFiles` guarantees once the reader could be positioned. -/
theorem searchFiles_some (s : State) (p : Params) (hi : Inv s) (hv : ValidP p) (rem : List Entry)
    (hseek : seekRecord s.rot s.cur p.olderThan = some rem) :
    (filesRev s.rot s.cur).filter (keepMem s.conf p) = rem.filter (keepMem s.conf p) ∧ Desc rem ∧
    (∀ x ∈ rem, x ∈ filesRev s.rot s.cur) ∧
    ∃ n, n ≤ rem.length ∧
      (searchFiles s p).1 = (rem.take n).filter (keepMem s.conf p) ∧
      (((searchFiles s p).1.length : Int) ≤ p.offset + p.limit) ∧
      ((searchFiles s p).2 = none → n = rem.length) ∧
      (∀ c, (searchFiles s p).2 = some c → ∃ e, rem[n - 1]? = some e ∧ 1 ≤ n ∧ e.ts = c ∧
          (((searchFiles s p).1.length : Int) < p.offset + p.limit → 0 < p.scan ∧ p.scan ≤ n)) ∧
      (p.scan ≤ 0 → (searchFiles s p).1 = (rem.filter (keepMem s.conf p)).take (p.offset + p.limit).toNat) := by
  have hTL : wrap64 (p.offset + p.limit) = p.offset + p.limit :=
    wrap64_id _ (by have := hv.off; have := hv.lim; omega) hv.sum
  have hpos : ((([] : List Entry).length : Int)) < p.offset + p.limit := by
    have := hv.off; have := hv.lim; simp; omega
  obtain ⟨pre, hsplit, hpre⟩ := seekRecord_some (asc_files s hi) hseek
  have hprefil : pre.filter (keepMem s.conf p) = [] := by
    apply List.filter_eq_nil_iff.mpr
    intro e he hk
    cases hot : p.olderThan with
    | none =>
      rw [hot] at hseek
      simp only [seekRecord, Option.some.injEq] at hseek
      rw [← hseek] at hsplit
      have : pre = [] := by
        have := congrArg List.length hsplit
        simp only [List.length_append] at this
        exact List.eq_nil_of_length_eq_zero (by omega)
      simp [this] at he
    | some t =>
      have h1 := hpre e he t hot
      have h2 := keepMem_older s.conf p e t hot hk
      omega
  have hdesc : Desc rem := by
    have := desc_files s hi
    rw [hsplit] at this
    exact (List.pairwise_append.mp this).2.1
  refine ⟨by rw [hsplit, List.filter_append, hprefil, List.nil_append], hdesc,
    fun x hx => by rw [hsplit]; exact List.mem_append_right _ hx, ?_⟩
  have hsf : searchFiles s p =
      readEntries (keepMem s.conf p) p.scan (p.offset + p.limit) rem [] 0 none := by
    unfold searchFiles
    rw [hseek, hTL, keepE_fun]
  obtain ⟨n, hn, h1, h2, h3, h4⟩ := readEntries_spec (keepMem s.conf p) p.scan (p.offset + p.limit)
    rem [] 0 none hpos (Or.inl (by by_cases h : p.scan ≤ 0; exact Or.inr h; left; omega))
  rw [hsf]
  refine ⟨n, hn, by simpa using h1, h2, h3, ?_, ?_⟩
  · intro c hc
    rcases h4 c hc with ⟨_, habs, _⟩ | ⟨e, he, hn1, hts, hb⟩
    · cases habs
    · exact ⟨e, he, hn1, hts, fun hl => by have := hb hl; omega⟩
  · intro hscan
    have := readEntries_unlimited (keepMem s.conf p) p.scan (p.offset + p.limit) hscan rem [] 0 none hpos
    simpa using this

/-- The file part is always a prefix of the kept file records. -/
theorem searchFiles_prefix (s : State) (p : Params) (hi : Inv s) (hv : ValidP p) :
    (searchFiles s p).1 <+: (filesRev s.rot s.cur).filter (keepMem s.conf p) := by
  cases hseek : seekRecord s.rot s.cur p.olderThan with
  | none =>
    have : searchFiles s p = ([], none) := by unfold searchFiles; rw [hseek]
    rw [this]; exact List.nil_prefix
  | some rem =>
    obtain ⟨hfil, _, _, n, _, h1, _⟩ := searchFiles_some s p hi hv rem hseek
    rw [h1, hfil]
    exact (List.take_prefix n rem).filter _

theorem vis_eq (s : State) (p : Params) :
    vis s p = searchMemory s p ++ (filesRev s.rot s.cur).filter (keepMem s.conf p) := by
  rw [vis, logRev, List.filter_append, searchMemory_eq]

theorem desc_vis (s : State) (p : Params) (hi : Inv s) : Desc (vis s p) :=
  List.Pairwise.filter _ (desc_logRev s hi)

/-- SOUNDNESS, for every validated request: the answer is a sub-sequence of the
visible sequence (every entry satisfies the filters, newest first, no entry
twice) of at most `limit` entries. -/
theorem search_sound (s : State) (p : Params) (hi : Inv s) (hv : ValidP p) :
    ∃ D O, search s p = .ok (D, O) ∧ D.Sublist (vis s p) ∧ (D.length : Int) ≤ p.limit := by
  rw [search_eq s p hv]
  refine ⟨_, _, rfl, ?_, ?_⟩
  · have hpre : (searchMemory s p ++ (searchFiles s p).1) <+: vis s p := by
      rw [vis_eq]
      exact (List.prefix_append_right_inj _).mpr (searchFiles_prefix s p hi hv)
    have htake : ((searchMemory s p ++ (searchFiles s p).1).take (p.offset + p.limit).toNat).Sublist (vis s p) :=
      ((List.take_sublist _ _).trans hpre.sublist)
    have hd : Desc ((searchMemory s p ++ (searchFiles s p).1).take (p.offset + p.limit).toNat) :=
      List.Pairwise.sublist htake (desc_vis s p hi)
    rw [sortDesc_of_desc _ hd]
    exact (List.drop_sublist _ _).trans htake
  · have hoff := hv.off
    have hlim := hv.lim
    have h1 : (sortDesc ((searchMemory s p ++ (searchFiles s p).1).take (p.offset + p.limit).toNat)).length
        ≤ (p.offset + p.limit).toNat := by
      have hpre : (searchMemory s p ++ (searchFiles s p).1) <+: vis s p := by
        rw [vis_eq]
        exact (List.prefix_append_right_inj _).mpr (searchFiles_prefix s p hi hv)
      have htake : ((searchMemory s p ++ (searchFiles s p).1).take (p.offset + p.limit).toNat).Sublist (vis s p) :=
        ((List.take_sublist _ _).trans hpre.sublist)
      rw [sortDesc_of_desc _ (List.Pairwise.sublist htake (desc_vis s p hi))]
      simp [List.length_take]; omega
    rw [List.length_drop]
    omega


/-- The cursor is absent or the time of an entry of the log. -/
def CursorOK (s : State) (p : Params) : Prop :=
  match p.olderThan with
  | none => True
  | some t => ∃ e ∈ s.rot ++ s.cur ++ s.mem, e.ts = t

theorem seek_of_cursorOK (s : State) (p : Params) (hi : Inv s) (hc : CursorOK s p) :
    ∃ rem, seekRecord s.rot s.cur p.olderThan = some rem ∧
      ∀ t, p.olderThan = some t → ∀ x ∈ rem.tail, x.ts < t := by
  unfold CursorOK at hc
  cases hot : p.olderThan with
  | none => exact ⟨_, rfl, by simp⟩
  | some t =>
    rw [hot] at hc
    obtain ⟨rem, h1, h2⟩ := seekRecord_cursor hi hc
    exact ⟨rem, h1, fun t' ht' => by cases ht'; exact h2⟩

/-- OFFSET/LIMIT paging: with an unlimited scan the answer is exactly the slice
`[offset, offset+limit)` of the visible sequence. -/
theorem search_offset (s : State) (p : Params) (hi : Inv s) (hv : ValidP p) (hscan : p.scan ≤ 0)
    (hc : CursorOK s p) :
    ∃ O, search s p = .ok (((vis s p).drop p.offset.toNat).take p.limit.toNat, O) := by
  obtain ⟨rem, hseek, _⟩ := seek_of_cursorOK s p hi hc
  obtain ⟨hfil, _, _, n, _, _, _, _, _, hunl⟩ := searchFiles_some s p hi hv rem hseek
  have hs := search_eq s p hv
  dsimp only at hs
  have hE : (searchMemory s p ++ (searchFiles s p).1).take (p.offset + p.limit).toNat =
      (vis s p).take (p.offset + p.limit).toNat := by
    rw [hunl hscan, take_append_take, vis_eq, hfil]
  have hd : Desc ((vis s p).take (p.offset + p.limit).toNat) :=
    List.Pairwise.sublist (List.take_sublist _ _) (desc_vis s p hi)
  have hoff := hv.off
  have hlim := hv.lim
  have : ((vis s p).take (p.offset + p.limit).toNat).drop p.offset.toNat =
      ((vis s p).drop p.offset.toNat).take p.limit.toNat := by
    rw [List.drop_take]
    congr 1
    omega
  rw [hE, sortDesc_of_desc _ hd, this] at hs
  exact ⟨_, hs⟩

theorem mem_log_of_logRev (s : State) (x : Entry) (h : x ∈ logRev s) : x ∈ s.rot ++ s.cur ++ s.mem := by
  simp only [logRev, memRev, filesRev, List.mem_append, List.mem_reverse] at h
  simp only [List.mem_append]
  rcases h with h1 | h1 | h1
  · split at h1
    · simp at h1
    · exact Or.inr (List.mem_reverse.mp h1)
  · exact Or.inl (Or.inr h1)
  · exact Or.inl (Or.inl h1)

theorem take_ne_nil {α} (l : List α) (n : Nat) (hn : 1 ≤ n) (hl : l ≠ []) : l.take n ≠ [] := by
  cases l with
  | nil => exact absurd rfl hl
  | cons a t => cases n with
    | zero => omega
    | succ k => simp

/-- CURSOR paging: the page is everything visible down to the returned cursor
(or everything, when no cursor is returned), and the cursor moves. -/
theorem search_cursor (s : State) (p : Params) (hi : Inv s) (hv : ValidP p) (hoff : p.offset = 0)
    (hc : CursorOK s p) :
    ∃ D O, search s p = .ok (D, O) ∧ (D.length : Int) ≤ p.limit ∧
      (O = none → D = vis s p) ∧
      (∀ c, O = some c → D = (vis s p).filter (fun e => decide (e.ts ≥ c)) ∧
        (∀ t, p.olderThan = some t → (2 ≤ p.scan ∨ p.scan ≤ 0) → c < t) ∧
        (∃ e ∈ s.rot ++ s.cur ++ s.mem, e.ts = c)) := by
  obtain ⟨D, O, hs, hsub, hlen⟩ := search_sound s p hi hv
  refine ⟨D, O, hs, hlen, ?_⟩
  rw [search_eq s p hv] at hs
  obtain ⟨rem, hseek, htail⟩ := seek_of_cursorOK s p hi hc
  obtain ⟨hfil, hdrem, hremsub, n, hn, hF, hFlen, hnone, hsome, _⟩ := searchFiles_some s p hi hv rem hseek
  have hlim := hv.lim
  -- the page before sorting is a prefix of the visible sequence
  have hpre : (searchMemory s p ++ (searchFiles s p).1) <+: vis s p := by
    rw [vis_eq]
    exact (List.prefix_append_right_inj _).mpr (searchFiles_prefix s p hi hv)
  have hpre' : ((searchMemory s p ++ (searchFiles s p).1).take (p.offset + p.limit).toNat) <+: vis s p :=
    (List.take_prefix _ _).trans hpre
  have hd : Desc ((searchMemory s p ++ (searchFiles s p).1).take (p.offset + p.limit).toNat) :=
    List.Pairwise.sublist hpre'.sublist (desc_vis s p hi)
  dsimp only at hs
  rw [sortDesc_of_desc _ hd] at hs
  simp only [hoff] at hs
  simp only [Int.toNat_zero, List.drop_zero, Int.zero_add, gt_iff_lt, Int.lt_irrefl, false_and,
    if_false, Except.ok.injEq, Prod.mk.injEq] at hs
  obtain ⟨hD, hO⟩ := hs
  simp only [hoff, Int.zero_add] at hpre' hFlen hsome
  rw [hD] at hpre'
  cases hgl : D.getLast? with
  | some x =>
    rw [← hD] at hgl
    rw [hgl] at hO
    -- D = D.dropLast ++ [x] is a prefix of the visible sequence
    obtain ⟨ys, hys⟩ := List.getLast?_eq_some_iff.mp hgl
    have hDx : D = ys ++ [x] := by rw [← hD]; exact hys
    obtain ⟨S, hS⟩ := hpre'
    constructor
    · intro h; rw [← hO] at h; cases h
    · intro c hc'
      rw [← hO] at hc'
      simp only [Option.some.injEq] at hc'
      subst hc'
      have hV : vis s p = ys ++ x :: S := by
        rw [← hS, hDx]; simp
      have hx : x ∈ vis s p := by rw [hV]; simp
      refine ⟨?_, ?_, ?_⟩
      · have := desc_filter_ge_prefix ys S x (hV ▸ desc_vis s p hi)
        rw [hV, this, ← hDx]
      · intro t hot _
        have hk : keepMem s.conf p x = true := (List.mem_filter.mp hx).2
        exact keepMem_older s.conf p x t hot hk
      · exact ⟨x, mem_log_of_logRev s x (List.mem_filter.mp hx).1, rfl⟩
  | none =>
    have hDnil : D = [] := List.getLast?_eq_none_iff.mp hgl
    rw [← hD] at hgl
    rw [hgl] at hO
    -- nothing matched among what was read
    have hMF : searchMemory s p ++ (searchFiles s p).1 = [] := by
      by_cases h : searchMemory s p ++ (searchFiles s p).1 = []
      · exact h
      · have := take_ne_nil _ p.limit.toNat (by omega) h
        rw [hD, hDnil] at this
        exact absurd rfl this
    have hM : searchMemory s p = [] := (List.append_eq_nil_iff.mp hMF).1
    have hFnil : (searchFiles s p).1 = [] := (List.append_eq_nil_iff.mp hMF).2
    have hV : vis s p = rem.filter (keepMem s.conf p) := by rw [vis_eq, hM, hfil]; simp
    constructor
    · intro h
      rw [← hO] at h
      have := hnone h
      rw [hDnil, hV]
      rw [hF, this, List.take_length] at hFnil
      exact hFnil.symm
    · intro c hc'
      rw [← hO] at hc'
      obtain ⟨e, he, hn1, hts, hbud⟩ := hsome c hc'
      obtain ⟨hlt, hget⟩ := List.getElem?_eq_some_iff.mp he
      have hsplit : rem = rem.take (n - 1) ++ e :: rem.drop n := by
        have h1 := List.take_append_drop (n - 1) rem
        rw [List.drop_eq_getElem_cons hlt, hget] at h1
        have : n - 1 + 1 = n := by omega
        rw [this] at h1
        exact h1.symm
      have htaken : rem.take n = rem.take (n - 1) ++ [e] := by
        have : n = (n - 1) + 1 := by omega
        rw [this, List.take_add_one, he]
        simp
      refine ⟨?_, ?_, ?_⟩
      · rw [hDnil, hV, List.filter_filter]
        have hcomm : rem.filter (fun a => decide (a.ts ≥ c) && keepMem s.conf p a) =
            (rem.filter (fun a => decide (a.ts ≥ c))).filter (keepMem s.conf p) := by
          rw [List.filter_filter]
          congr 1
          funext a
          exact Bool.and_comm _ _
        rw [hcomm]
        have hge : rem.filter (fun a => decide (a.ts ≥ c)) = rem.take n := by
          have := desc_filter_ge_prefix (rem.take (n - 1)) (rem.drop n) e (hsplit ▸ hdrem)
          rw [← hsplit, hts] at this
          rw [this, htaken]
        rw [hge, ← hF, hFnil]
      · intro t hot hsc
        have hb := hbud (by rw [hFnil]; simp; omega)
        have hn2 : 2 ≤ n := by omega
        have hmem : e ∈ rem.tail := by
          have : rem.tail[n - 2]? = some e := by
            rw [List.getElem?_tail]
            have : n - 2 + 1 = n - 1 := by omega
            rw [this]; exact he
          exact List.mem_of_getElem? this
        have := htail t hot e hmem
        omega
      · refine ⟨e, ?_, hts⟩
        have : e ∈ filesRev s.rot s.cur := hremsub e (List.mem_of_getElem? he)
        simp only [filesRev, List.mem_append, List.mem_reverse] at this
        simp only [List.mem_append]
        rcases this with h1 | h1
        · exact Or.inl (Or.inr h1)
        · exact Or.inl (Or.inl h1)


end AGH.C07
