/-
C20 helper lemmas, part 8: small facts used by the simulation proof (hashes,
the monitor's cached context, timestamp lookup, report classes).  Core only.
-/
import AGH.Lemmas.QLogReaderSeek
namespace AGH.C20
open AGH

theorem getD_set {α : Type} (l : List α) (i j : Nat) (a d : α) :
    (l.set i a).getD j d = if i = j ∧ i < l.length then a else l.getD j d := by
  by_cases h : i = j
  · subst h
    by_cases hi : i < l.length
    · rw [getD_set_eq _ _ _ _ hi]; simp [hi]
    · rw [List.set_eq_of_length_le (by omega)]; simp [hi]
  · rw [getD_set_ne _ _ _ _ _ h]; simp [h]

theorem getD_noPromise (n k : Nat) : (noPromise n).getD k none = none := by
  simp only [noPromise, List.getD_eq_getElem?_getD, List.getElem?_replicate]
  split <;> rfl

/-! ### hashes -/

theorem slice_succ (f : File) (a n : Nat) :
    f.slice a (a + (n + 1)) = f.byte a :: f.slice (a + 1) (a + 1 + n) := by
  unfold File.slice
  rw [show a + (n + 1) - a = n + 1 by omega, show a + 1 + n - (a + 1) = n by omega,
    List.range_succ_eq_map]
  simp only [List.map_cons, List.map_map, Nat.add_zero]
  congr 1
  apply List.map_congr_left
  intro i _
  simp only [Function.comp]
  congr 1; omega

theorem hashRange_eq (f : File) : ∀ (n : Nat) (h : UInt64) (a : Nat),
    hashRange f h a n = (f.slice a (a + n)).foldl fnvByte h := by
  intro n
  induction n with
  | zero => intro h a; simp [hashRange, File.slice]
  | succ n ih =>
    intro h a
    rw [hashRange, ih, slice_succ]
    rfl

theorem slice_norm (f : File) (a b : Nat) : f.slice a (a + (b - a)) = f.slice a b := by
  unfold File.slice
  rw [show a + (b - a) - a = b - a by omega]

theorem foldl_hash (fs : List File) : ∀ (rs : List (Nat × Nat × Nat)) (h0 : UInt64),
    rs.foldl (fun h x => fnvByte (hashRange (fs.getD x.1 noFile) h x.2.1 (x.2.2 - x.2.1)) 10) h0 =
      (rs.map (fun x => (fs.getD x.1 noFile).slice x.2.1 x.2.2)).foldl
        (fun h l => fnvByte (l.foldl fnvByte h) 10) h0 := by
  intro rs
  induction rs with
  | nil => intro h0; rfl
  | cons x rs ih =>
    intro h0
    simp only [List.foldl_cons, List.map_cons]
    rw [ih, hashRange_eq, slice_norm]

theorem hashRanges_eq (fs : List File) (rs : List (Nat × Nat × Nat)) :
    hashRanges fs rs = hashLines (rs.map (fun x => (fs.getD x.1 noFile).slice x.2.1 x.2.2)) :=
  foldl_hash fs rs fnvInit

/-- The monitor's check of `n` reads passes when the lines read are the promised ones. -/
theorem checkNext_ok (fs : List File) (rem : List Bytes) (n : Nat) (xs : List (Nat × Nat × Nat))
    (h : xs.map (fun x => (fs.getD x.1 noFile).slice x.2.1 x.2.2) = rem.take n) :
    checkNext rem n xs.length (if n > rem.length then some Err.eof else none) (hashRanges fs xs) = none := by
  unfold checkNext
  have h1 : xs.length = (rem.take n).length := by rw [← h]; simp
  rw [hashRanges_eq, h]
  simp [h1]

/-! ### the cached context -/

section
variable (tsOf : Bytes → Int) (ds : List FileDesc)

theorem mkCtx_ds : (mkCtx tsOf ds).ds = ds := rfl

theorem mkCtx_readableF (k : Nat) (h : (mkCtx tsOf ds).readableF.getD k false = true) :
    ∃ d, ds[k]? = some d ∧ readable d = true := by
  simp only [mkCtx, List.getD_eq_getElem?_getD, List.getElem?_map] at h
  cases hd : ds[k]? with
  | none => simp [hd] at h
  | some d => exact ⟨d, rfl, by simpa [hd] using h⟩

theorem mkCtx_seekableF (k : Nat) (h : (mkCtx tsOf ds).seekableF.getD k false = true) :
    ∃ d, ds[k]? = some d ∧ readable d = true ∧ stampsOK (d.lines.map tsOf) = true := by
  simp only [mkCtx, List.getD_eq_getElem?_getD, List.getElem?_map] at h
  cases hd : ds[k]? with
  | none => simp [hd] at h
  | some d =>
    refine ⟨d, rfl, ?_⟩
    simpa [hd, seekable, stampsOf] using h

theorem mkCtx_stamps (k : Nat) (d : FileDesc) (hd : ds[k]? = some d) :
    (mkCtx tsOf ds).stamps.getD k [] = d.lines.map tsOf := by
  simp [mkCtx, List.getD_eq_getElem?_getD, hd, stampsOf]

theorem mkCtx_allReadable : (mkCtx tsOf ds).allReadable = true ↔ ∀ d ∈ ds, readable d = true := by
  simp [mkCtx, List.all_eq_true]

theorem getD_ds (k : Nat) (d : FileDesc) (hd : ds[k]? = some d) : ds.getD k {lines := []} = d := by
  simp [List.getD_eq_getElem?_getD, hd]

theorem mkCtx_allSeekable (hsmall : ∀ d ∈ ds, (render d.lines).length < 2 ^ 63)
    (h : (mkCtx tsOf ds).allSeekable = true) : GlobalCtx tsOf ds := by
  simp only [mkCtx, Bool.and_eq_true, List.all_eq_true, List.mem_map, id, forall_exists_index,
    and_imp, forall_apply_eq_imp_iff₂] at h
  obtain ⟨hrd, hst⟩ := h
  have hfl : (ds.map (stampsOf tsOf)).flatten = (ds.flatMap (fun d => d.lines)).map tsOf := by
    rw [List.map_flatMap, List.flatMap_def]; rfl
  rw [hfl] at hst
  simp only [stampsOK, Bool.and_eq_true, List.all_eq_true, List.mem_map, bne_iff_ne, ne_eq,
    forall_exists_index, and_imp, forall_apply_eq_imp_iff₂] at hst
  refine ⟨hrd, ?_, ?_, hsmall⟩
  · intro d hd l hl
    exact hst.1 l (List.mem_flatMap.2 ⟨d, hd, hl⟩)
  · have := increasing_pairwise _ hst.2
    rwa [List.pairwise_map] at this

end

/-! ### timestamp lookup -/

theorem findStampIdx_some (tsOf : Bytes → Int) (lines : List Bytes) (ts : Int) (i : Nat)
    (h : findStampIdx (lines.map tsOf) ts = some i) :
    ∃ hi : i < lines.length, tsOf lines[i] = ts := by
  unfold findStampIdx at h
  rw [List.findIdx?_eq_some_iff_getElem] at h
  obtain ⟨hi, h1, _⟩ := h
  simp only [List.length_map] at hi
  refine ⟨hi, ?_⟩
  simpa using h1

theorem findStampIdx_none (tsOf : Bytes → Int) (lines : List Bytes) (ts : Int)
    (h : findStampIdx (lines.map tsOf) ts = none) : ∀ l ∈ lines, tsOf l ≠ ts := by
  unfold findStampIdx at h
  rw [List.findIdx?_eq_none_iff] at h
  intro l hl
  have := h (tsOf l) (List.mem_map_of_mem hl)
  simpa using this

theorem findStampFilesIdx_some (st : List (List Int)) (ts : Int) :
    ∀ n j k, findStampFilesIdx st ts n = some (j, k) → j < n ∧ findStampIdx (st.getD j []) ts = some k := by
  intro n
  induction n with
  | zero => intro j k h; simp [findStampFilesIdx] at h
  | succ n ih =>
    intro j k h
    unfold findStampFilesIdx at h
    cases hf : findStampIdx (st.getD n []) ts with
    | some k' =>
      rw [hf] at h
      simp only [Option.some.injEq, Prod.mk.injEq] at h
      obtain ⟨rfl, rfl⟩ := h
      exact ⟨by omega, hf⟩
    | none =>
      rw [hf] at h
      obtain ⟨h1, h2⟩ := ih j k h
      exact ⟨by omega, h2⟩

theorem findStampFilesIdx_none (st : List (List Int)) (ts : Int) :
    ∀ n, findStampFilesIdx st ts n = none → ∀ j, j < n → findStampIdx (st.getD j []) ts = none := by
  intro n
  induction n with
  | zero => intro _ j hj; omega
  | succ n ih =>
    intro h j hj
    unfold findStampFilesIdx at h
    cases hf : findStampIdx (st.getD n []) ts with
    | some k' => rw [hf] at h; cases h
    | none =>
      rw [hf] at h
      by_cases hjn : j = n
      · subst hjn; exact hf
      · exact ih h j (by omega)

/-! ### report classes -/

theorem sortedLast : ∀ (rest : List Int) (x : Int), (x :: rest).Pairwise (· < ·) →
    (x :: rest).getLastD x ∈ x :: rest ∧ ∀ y ∈ x :: rest, y ≤ (x :: rest).getLastD x := by
  intro rest
  induction rest with
  | nil => intro x _; simp [List.getLastD]
  | cons y r ih =>
    intro x h
    rw [List.pairwise_cons] at h
    obtain ⟨h1, h2⟩ := ih y h.2
    have hxy : x < y := h.1 y (by simp)
    have heq : (x :: y :: r).getLastD x = (y :: r).getLastD y := by simp [List.getLastD]
    rw [heq]
    refine ⟨List.mem_cons_of_mem _ h1, ?_⟩
    intro z hz
    rcases List.mem_cons.1 hz with hz | hz
    · subst hz
      have := h2 y (by simp); omega
    · exact h2 z hz

theorem absentClassOK_cons (first : Int) (rest : List Int) (ts : Int) (e : Err) :
    absentClassOK (first :: rest) ts e =
      (if ts < first then decide ((if e = .depth then Err.notFound else e) = .tooEarly)
       else if (first :: rest).getLastD first < ts then
         decide ((if e = .depth then Err.notFound else e) = .tooLate)
       else decide ((if e = .depth then Err.notFound else e) = .notFound)) := rfl

theorem absentClassOK_absentErr (tsOf : Bytes → Int) (ts : Int) (lines : List Bytes)
    (hs : lines.Pairwise (fun a b => tsOf a < tsOf b)) (habs : ∀ l ∈ lines, tsOf l ≠ ts) :
    absentClassOK (lines.map tsOf) ts (absentErr tsOf ts lines) = true := by
  cases lines with
  | nil => simp [absentErr, absentClassOK]
  | cons a t =>
    have hsI : ((a :: t).map tsOf).Pairwise (· < ·) := by rw [List.pairwise_map]; exact hs
    simp only [List.map_cons] at hsI
    obtain ⟨hL1, hL2⟩ := sortedLast (t.map tsOf) (tsOf a) hsI
    rw [List.pairwise_cons] at hs
    rw [List.map_cons, absentClassOK_cons]
    by_cases h1 : ts < tsOf a
    · have hall : ∀ l ∈ a :: t, ts < tsOf l := by
        intro l hl
        rcases List.mem_cons.1 hl with h | h
        · subst h; exact h1
        · have := hs.1 l h; omega
      have hE : absentErr tsOf ts (a :: t) = .tooEarly := by unfold absentErr; rw [if_pos hall]
      rw [hE, if_pos h1]; rfl
    · have ha : tsOf a ≠ ts := habs a (by simp)
      have hnall : ¬ (∀ l ∈ a :: t, ts < tsOf l) := fun h => h1 (h a (by simp))
      rw [if_neg h1]
      by_cases h2 : (tsOf a :: t.map tsOf).getLastD (tsOf a) < ts
      · have hall : ∀ l ∈ a :: t, tsOf l < ts := by
          intro l hl
          have : tsOf l ∈ tsOf a :: t.map tsOf := by
            rw [← List.map_cons]; exact List.mem_map_of_mem hl
          have := hL2 _ this; omega
        have hE : absentErr tsOf ts (a :: t) = .tooLate := by
          unfold absentErr; rw [if_neg hnall, if_pos hall]
        rw [hE, if_pos h2]; rfl
      · have hnall2 : ¬ (∀ l ∈ a :: t, tsOf l < ts) := by
          intro h
          rw [← List.map_cons] at hL1
          obtain ⟨l, hl, he⟩ := List.mem_map.1 hL1
          have := h l hl
          rw [← List.map_cons] at h2
          omega
        have hE : absentErr tsOf ts (a :: t) = .notFound := by
          unfold absentErr; rw [if_neg hnall, if_neg hnall2]
        rw [hE, if_neg h2]; rfl

end AGH.C20
