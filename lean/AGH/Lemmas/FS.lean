/-
Helper lemmas for C14 (core Lean only).
-/
import AGH.Spec.FS
namespace AGH.C14
open AGH

@[simp] theorem upd_same {α : Type} [DecidableEq α] {β : Type} (f : α → β) (a : α) (b : β) :
    upd f a b a = b := by simp [upd]

theorem upd_ne {α : Type} [DecidableEq α] {β : Type} (f : α → β) {a x : α} (b : β) (h : x ≠ a) :
    upd f a b x = f x := by simp [upd, h]

theorem writeAt_end (c d : Content) : writeAt c c.length d = c ++ d := by
  simp [writeAt]

/-! ## Settled ⇒ the property holds at that instant -/

theorem settled_visible {s : FS} {dest : Path} {v : Option Content} (h : Settled s dest v) :
    visible s dest = v := by
  cases v with
  | none => simp [Settled] at h; simp [visible, h]
  | some c =>
    obtain ⟨i, hn, hc, _⟩ := h
    simp [visible, hn, hc]

theorem settled_crash {s : FS} {dest : Path} {v : Option Content} (h : Settled s dest v)
    {c : Option Content} (hc : AfterCrash s dest c) : c = v := by
  cases v with
  | none =>
    simp [Settled] at h
    cases c with
    | none => rfl
    | some x => obtain ⟨i, hi, _⟩ := hc; simp [h] at hi
  | some c0 =>
    obtain ⟨i, hn, hca, _, hd, _⟩ := h
    cases c with
    | none => simp [AfterCrash, hn] at hc
    | some x =>
      obtain ⟨j, hj, hs⟩ := hc
      rw [hn] at hj
      cases hj
      simp [Survives, hd] at hs
      simp [hs, hca]

theorem settled_old_ok {s : FS} {dest : Path} {old : Option Content} (new : Content)
    (h : Settled s dest old) : OKAt s dest old new :=
  ⟨Or.inl (settled_visible h), fun _ hc => Or.inl (settled_crash h hc)⟩

theorem settled_new_ok {s : FS} {dest : Path} (old : Option Content) {new : Content}
    (h : Settled s dest (some new)) : OKAt s dest old new :=
  ⟨Or.inr (settled_visible h), fun _ hc => Or.inr (settled_crash h hc)⟩

/-! ## One step -/

theorem mkFile_wf {s : FS} (h : WF s) (p : Path) (fd : Nat) : WF (s.mkFile p fd) := by
  constructor
  · intro q i hq
    simp only [FS.mkFile] at hq ⊢
    by_cases hqp : q = p
    · subst hqp; simp at hq; omega
    · rw [upd_ne _ _ hqp] at hq; have := h.names_lt q i hq; omega
  · intro fd' i off hq
    simp only [FS.mkFile] at hq ⊢
    by_cases hf : fd' = fd
    · subst hf; simp at hq; omega
    · rw [upd_ne _ _ hf] at hq; have := h.fds_lt fd' i off hq; omega

theorem step_wf {s s' : FS} {e : Sys} (h : WF s) (hs : step s e = .ok s') : WF s' := by
  cases e with
  | creat p fd =>
    simp only [step] at hs
    split at hs
    · cases hs
    · split at hs
      · cases hs
      · cases hs; exact mkFile_wf h p fd
  | openWr p fd t =>
    simp only [step] at hs
    split at hs
    · cases hs
    · split at hs
      · cases hs; exact mkFile_wf h p fd
      · rename_i i hi
        have hlt := h.names_lt p i hi
        split at hs <;> cases hs
        all_goals
          constructor
          · exact h.names_lt
          · intro fd' j off hq
            simp only at hq ⊢
            by_cases hf : fd' = fd
            · subst hf; simp at hq; omega
            · rw [upd_ne _ _ hf] at hq; exact h.fds_lt fd' j off hq
  | write fd d =>
    simp only [step] at hs
    split at hs
    · cases hs
    · rename_i i off hi
      split at hs <;> cases hs
      · exact h
      · constructor
        · exact h.names_lt
        · intro fd' j off' hq
          simp only at hq ⊢
          by_cases hf : fd' = fd
          · subst hf; simp at hq; have := h.fds_lt fd' i off hi; omega
          · rw [upd_ne _ _ hf] at hq; exact h.fds_lt fd' j off' hq
  | fsync fd =>
    simp only [step] at hs
    split at hs
    · cases hs
    · cases hs; exact ⟨h.names_lt, h.fds_lt⟩
  | close fd =>
    simp only [step] at hs
    split at hs
    · cases hs
    · cases hs
      constructor
      · exact h.names_lt
      · intro fd' j off hq
        simp only at hq
        by_cases hf : fd' = fd
        · subst hf; simp at hq
        · rw [upd_ne _ _ hf] at hq; exact h.fds_lt fd' j off hq
  | rename a b =>
    simp only [step] at hs
    split at hs
    · cases hs
    · rename_i i hi
      split at hs <;> cases hs
      · exact h
      · constructor
        · intro q j hq
          simp only at hq ⊢
          by_cases hqa : q = a
          · subst hqa; simp at hq
          · rw [upd_ne _ _ hqa] at hq
            by_cases hqb : q = b
            · subst hqb; simp at hq; subst hq; exact h.names_lt a i hi
            · rw [upd_ne _ _ hqb] at hq; exact h.names_lt q j hq
        · exact h.fds_lt
  | unlink a =>
    simp only [step] at hs
    split at hs
    · cases hs
    · cases hs
      constructor
      · intro q j hq
        simp only at hq ⊢
        by_cases hqa : q = a
        · subst hqa; simp at hq
        · rw [upd_ne _ _ hqa] at hq; exact h.names_lt q j hq
      · exact h.fds_lt
  | fsyncDir => simp only [step] at hs; cases hs; exact h

/-- Frame: a successful syscall that does not name `dest` leaves it settled. -/
theorem step_safe {s s' : FS} {e : Sys} {dest : Path} {v : Option Content} (hwf : WF s)
    (h : Settled s dest v) (hsafe : e.safeFor dest = true) (hs : step s e = .ok s') :
    Settled s' dest v := by
  cases e with
  | openWr p fd t => simp [Sys.safeFor] at hsafe
  | creat p fd =>
    simp [Sys.safeFor] at hsafe
    have hne : dest ≠ p := fun h => hsafe h.symm
    simp only [step] at hs
    split at hs
    · cases hs
    · split at hs
      · cases hs
      · cases hs
        cases v with
        | none => simp only [Settled, FS.mkFile] at h ⊢; rw [upd_ne _ _ hne]; exact h
        | some c =>
          obtain ⟨i, hn, hc, hd, hdi, hfd⟩ := h
          have hlt := hwf.names_lt dest i hn
          have hi : i ≠ s.next := by omega
          refine ⟨i, ?_, ?_, ?_, ?_, ?_⟩
          · simp only [FS.mkFile]; rw [upd_ne _ _ hne]; exact hn
          · simp only [FS.mkFile]; rw [upd_ne _ _ hi]; exact hc
          · simp only [FS.mkFile]; rw [upd_ne _ _ hi]; exact hd
          · simp only [FS.mkFile]; rw [upd_ne _ _ hi]; exact hdi
          · intro fd' off
            simp only [FS.mkFile]
            by_cases hf : fd' = fd
            · subst hf; simp; intro h1; omega
            · rw [upd_ne _ _ hf]; exact hfd fd' off
  | write fd d =>
    simp only [step] at hs
    split at hs
    · cases hs
    · rename_i j off hj
      split at hs <;> cases hs
      · exact h
      · cases v with
        | none => exact h
        | some c =>
          obtain ⟨i, hn, hc, hd, hdi, hfd⟩ := h
          have hij : i ≠ j := by
            intro hij; subst hij; exact hfd fd off hj
          refine ⟨i, hn, ?_, hd, ?_, ?_⟩
          · simp only; rw [upd_ne _ _ hij]; exact hc
          · simp only; rw [upd_ne _ _ hij]; exact hdi
          · intro fd' off'
            simp only
            by_cases hf : fd' = fd
            · subst hf; simp; intro h1; exact absurd h1.symm hij
            · rw [upd_ne _ _ hf]; exact hfd fd' off'
  | fsync fd =>
    simp only [step] at hs
    split at hs
    · cases hs
    · rename_i j off hj
      cases hs
      cases v with
      | none => exact h
      | some c =>
        obtain ⟨i, hn, hc, hd, hdi, hfd⟩ := h
        have hij : i ≠ j := by
          intro hij; subst hij; exact hfd fd off hj
        refine ⟨i, hn, hc, ?_, ?_, hfd⟩
        · simp only; rw [upd_ne _ _ hij]; exact hd
        · simp only; rw [upd_ne _ _ hij]; exact hdi
  | close fd =>
    simp only [step] at hs
    split at hs
    · cases hs
    · cases hs
      cases v with
      | none => exact h
      | some c =>
        obtain ⟨i, hn, hc, hd, hdi, hfd⟩ := h
        refine ⟨i, hn, hc, hd, hdi, ?_⟩
        intro fd' off
        simp only
        by_cases hf : fd' = fd
        · subst hf; simp
        · rw [upd_ne _ _ hf]; exact hfd fd' off
  | rename a b =>
    simp [Sys.safeFor] at hsafe
    have hna : dest ≠ a := fun h => hsafe.1 h.symm
    have hnb : dest ≠ b := fun h => hsafe.2 h.symm
    simp only [step] at hs
    split at hs
    · cases hs
    · split at hs <;> cases hs
      · exact h
      · cases v with
        | none => simp only [Settled] at h ⊢; rw [upd_ne _ _ hna, upd_ne _ _ hnb]; exact h
        | some c =>
          obtain ⟨i, hn, rest⟩ := h
          refine ⟨i, ?_, rest⟩
          simp only; rw [upd_ne _ _ hna, upd_ne _ _ hnb]; exact hn
  | unlink a =>
    simp [Sys.safeFor] at hsafe
    have hna : dest ≠ a := fun h => hsafe h.symm
    simp only [step] at hs
    split at hs
    · cases hs
    · cases hs
      cases v with
      | none => simp only [Settled] at h ⊢; rw [upd_ne _ _ hna]; exact h
      | some c =>
        obtain ⟨i, hn, rest⟩ := h
        refine ⟨i, ?_, rest⟩
        simp only; rw [upd_ne _ _ hna]; exact hn
  | fsyncDir => simp only [step] at hs; cases hs; exact h

/-! ## Runs -/

theorem runAbort_cons_ok {s s' : FS} {e : Sys} (h : step s e = .ok s') (es : List Sys) :
    runAbort s (e :: es) = runAbort s' es := by
  simp only [runAbort, h]

theorem runAbort_cons_err {s : FS} {e : Sys} {er : Errno} (h : step s e = .error er)
    (es : List Sys) : runAbort s (e :: es) = (s, false) := by
  simp only [runAbort, h]

theorem runAbort_append (s : FS) (a b : List Sys) :
    runAbort s (a ++ b) =
      if (runAbort s a).2 then runAbort (runAbort s a).1 b else ((runAbort s a).1, false) := by
  induction a generalizing s with
  | nil => simp [runAbort]
  | cons e es ih =>
    rw [List.cons_append]
    cases hstep : step s e with
    | error er => rw [runAbort_cons_err hstep, runAbort_cons_err hstep]; simp
    | ok s' => rw [runAbort_cons_ok hstep, runAbort_cons_ok hstep]; exact ih s'

theorem runAbort_wf {s : FS} (h : WF s) (es : List Sys) : WF (runAbort s es).1 := by
  induction es generalizing s with
  | nil => exact h
  | cons e es ih =>
    simp only [runAbort]
    cases hstep : step s e with
    | error er => exact h
    | ok s' => exact ih (step_wf h hstep)

/-- Any program made of syscalls that do not name `dest` leaves it settled at
every instant (in particular every abandoned save and every cleanup path). -/
theorem runAbort_safe {s : FS} {dest : Path} {v : Option Content} (hwf : WF s)
    (h : Settled s dest v) (es : List Sys) (hes : ∀ e ∈ es, e.safeFor dest = true) :
    Settled (runAbort s es).1 dest v := by
  induction es generalizing s with
  | nil => exact h
  | cons e es ih =>
    simp only [runAbort]
    cases hstep : step s e with
    | error er => exact h
    | ok s' =>
      exact ih (step_wf hwf hstep) (step_safe hwf h (hes e (by simp)) hstep)
        (fun e' he' => hes e' (by simp [he']))

theorem safe_take {dest : Path} {es : List Sys} (h : ∀ e ∈ es, e.safeFor dest = true) (k : Nat) :
    ∀ e ∈ es.take k, e.safeFor dest = true :=
  fun e he => h e (List.mem_of_mem_take he)

/-! ## The staging part of an atomic save -/

theorem probe_safe {pr : Probe} {dest : Path} (h1 : pr.src ≠ dest) (h2 : pr.dst ≠ dest) :
    ∀ e ∈ probeOps pr, e.safeFor dest = true := by
  intro e he
  simp only [probeOps] at he
  cases ho : pr.outcome <;> simp [ho] at he
  all_goals
    rcases he with he | he | he | he | he | he <;> subst he <;> simp [Sys.safeFor, h1, h2]

theorem startFail_safe {pr : Probe} {dest : Path} (h1 : pr.src ≠ dest) :
    ∀ e ∈ startFail pr, e.safeFor dest = true := by
  intro e he
  simp only [startFail, List.mem_cons, List.not_mem_nil, or_false] at he
  rcases he with he | he | he <;> subst he <;> simp [Sys.safeFor, h1]

theorem writes_safe (dest : Path) (fd : Nat) (chunks : List Content) :
    ∀ e ∈ chunks.map (Sys.write fd), e.safeFor dest = true := by
  intro e he
  simp at he
  obtain ⟨d, _, rfl⟩ := he
  rfl

theorem stage_safe {pr : Probe} {tmp dest : Path} (hn : TempNames pr tmp dest) (fd : Nat)
    (chunks : List Content) : ∀ e ∈ stageOps pr tmp fd chunks, e.safeFor dest = true := by
  intro e he
  simp only [stageOps, List.mem_append] at he
  rcases he with ((he | he) | he) | he
  · exact probe_safe hn.1 hn.2.1 e he
  · simp at he; subst he; simp [Sys.safeFor, hn.2.2]
  · exact writes_safe dest fd chunks e he
  · simp at he; rcases he with he | he <;> subst he <;> rfl

theorem abort_safe {pr : Probe} {tmp dest : Path} (hn : TempNames pr tmp dest) (fd : Nat)
    (chunks : List Content) : ∀ e ∈ pendingAbort pr tmp fd chunks, e.safeFor dest = true := by
  intro e he
  simp only [pendingAbort, List.mem_append] at he
  rcases he with ((he | he) | he) | he
  · exact probe_safe hn.1 hn.2.1 e he
  · simp at he; subst he; simp [Sys.safeFor, hn.2.2]
  · exact writes_safe dest fd chunks e he
  · simp at he; rcases he with he | he <;> subst he <;> simp [Sys.safeFor, hn.2.2]

/-- The temporary file is open as `fd` (the only descriptor on it) and holds `c`. -/
def TmpOpen (s : FS) (tmp : Path) (fd : Nat) (c : Content) : Prop :=
  ∃ i, s.names tmp = some i ∧ s.fds fd = some (i, c.length) ∧ s.cache i = c ∧
    (∀ fd' off, s.fds fd' = some (i, off) → fd' = fd) ∧ (c ≠ [] → s.dirty i = true)

theorem creat_open {s s' : FS} {tmp : Path} {fd : Nat} (hwf : WF s)
    (hs : step s (.creat tmp fd) = .ok s') : TmpOpen s' tmp fd [] := by
  simp only [step] at hs
  split at hs
  · cases hs
  · split at hs
    · cases hs
    · cases hs
      refine ⟨s.next, by simp [FS.mkFile], by simp [FS.mkFile], by simp [FS.mkFile], ?_, by simp⟩
      intro fd' off hq
      simp only [FS.mkFile] at hq
      by_cases hf : fd' = fd
      · exact hf
      · rw [upd_ne _ _ hf] at hq
        have := hwf.fds_lt fd' s.next off hq
        omega

theorem write_open {s : FS} {tmp : Path} {fd : Nat} {c : Content} (h : TmpOpen s tmp fd c)
    (d : Content) : ∃ s', step s (.write fd d) = .ok s' ∧ TmpOpen s' tmp fd (c ++ d) := by
  obtain ⟨i, hn, hfd, hc, huniq, hdirty⟩ := h
  by_cases hd : d = []
  · subst hd
    exact ⟨s, by simp [step, hfd], ⟨i, hn, by simpa using hfd, by simpa using hc, huniq,
      by simpa using hdirty⟩⟩
  · have hde : d.isEmpty = false := by cases d <;> simp_all
    refine ⟨{ s with cache := upd s.cache i (writeAt (s.cache i) c.length d),
                     dirty := upd s.dirty i true,
                     fds := upd s.fds fd (some (i, c.length + d.length)) },
      by simp [step, hfd, hde], ⟨i, hn, ?_, ?_, ?_, ?_⟩⟩
    · simp
    · simp [hc, writeAt_end]
    · intro fd' off hq
      simp only at hq
      by_cases hf : fd' = fd
      · exact hf
      · rw [upd_ne _ _ hf] at hq; exact huniq fd' off hq
    · intro _; simp

theorem writes_open {s : FS} {tmp : Path} {fd : Nat} {c : Content} (h : TmpOpen s tmp fd c)
    (chunks : List Content) :
    ∃ s', runAbort s (chunks.map (Sys.write fd)) = (s', true) ∧
      TmpOpen s' tmp fd (c ++ chunks.flatten) := by
  induction chunks generalizing s c with
  | nil => exact ⟨s, rfl, by simpa using h⟩
  | cons d ds ih =>
    obtain ⟨s1, hs1, ho1⟩ := write_open h d
    obtain ⟨s2, hs2, ho2⟩ := ih ho1
    refine ⟨s2, ?_, by simpa [List.append_assoc] using ho2⟩
    simp only [List.map_cons, runAbort, hs1]
    exact hs2

theorem sync_close_ready {s : FS} {tmp : Path} {fd : Nat} {c : Content} (h : TmpOpen s tmp fd c) :
    ∃ s', runAbort s [.fsync fd, .close fd] = (s', true) ∧ TmpReady s' tmp c := by
  obtain ⟨i, hn, hfd, hc, huniq, _⟩ := h
  refine ⟨{ s with disk := upd s.disk i (s.cache i), dirty := upd s.dirty i false,
                   fds := upd s.fds fd none },
    by simp [runAbort, step, hfd], ⟨i, hn, ?_, ?_, ?_, ?_⟩⟩
  · exact hc
  · simp [hc]
  · simp
  · intro fd' off hq
    simp only at hq
    by_cases hf : fd' = fd
    · subst hf; simp at hq
    · rw [upd_ne _ _ hf] at hq; exact hf (huniq fd' off hq)

/-- If the staging part ran to completion, the temporary file is ready. -/
theorem stage_complete {s₀ s₁ : FS} {pr : Probe} {tmp : Path} {fd : Nat} {chunks : List Content}
    (hwf : WF s₀) (h : runAbort s₀ (stageOps pr tmp fd chunks) = (s₁, true)) :
    TmpReady s₁ tmp chunks.flatten := by
  simp only [stageOps, List.append_assoc] at h
  rw [runAbort_append] at h
  split at h
  · -- probe completed
    have hwfA := runAbort_wf hwf (probeOps pr)
    generalize (runAbort s₀ (probeOps pr)).1 = sA at h hwfA
    simp only [List.singleton_append, runAbort] at h
    cases hc : step sA (.creat tmp fd) with
    | error er => simp [hc] at h
    | ok sB =>
      simp only [hc] at h
      have hopen := creat_open hwfA hc
      rw [runAbort_append] at h
      obtain ⟨sC, hsC, hoC⟩ := writes_open hopen chunks
      simp only [hsC, if_true] at h
      obtain ⟨sD, hsD, hrD⟩ := sync_close_ready hoC
      rw [hsD] at h
      cases h
      simpa using hrD
  · cases h

theorem rename_settles {s s' : FS} {tmp dest : Path} {c : Content} (h : TmpReady s tmp c)
    (hne : tmp ≠ dest) (hs : step s (.rename tmp dest) = .ok s') : Settled s' dest (some c) := by
  obtain ⟨i, hn, rest⟩ := h
  simp only [step, hn, hne, if_false] at hs
  cases hs
  refine ⟨i, ?_, rest⟩
  simp only
  rw [upd_ne _ _ (Ne.symm hne)]
  simp

/-- A completed atomic save has installed the new version, synced. -/
theorem atomic_complete {s₀ s : FS} {pr : Probe} {dest tmp : Path} {fd : Nat}
    {chunks : List Content} (hwf : WF s₀) (hne : tmp ≠ dest)
    (h : runAbort s₀ (atomicWrite pr dest tmp fd chunks) = (s, true)) :
    Settled s dest (some chunks.flatten) := by
  rw [atomicWrite, runAbort_append] at h
  cases hr : runAbort s₀ (stageOps pr tmp fd chunks) with
  | mk s₁ ok =>
    rw [hr] at h
    cases ok with
    | false => simp at h
    | true =>
      simp only [if_true, runAbort] at h
      have hready := stage_complete hwf hr
      cases hren : step s₁ (.rename tmp dest) with
      | error er => simp [hren] at h
      | ok s₂ =>
        simp only [hren, Prod.mk.injEq, and_true] at h
        subst h
        exact rename_settles hready hne hren

/-- Without the `fsync`: a completed save leaves `dest` on a dirty inode. -/
theorem nosync_complete {s₀ s : FS} {pr : Probe} {dest tmp : Path} {fd : Nat}
    {chunks : List Content} (hwf : WF s₀) (hne : tmp ≠ dest)
    (h : runAbort s₀ (atomicNoSync pr dest tmp fd chunks) = (s, true)) :
    ∃ i, s.names dest = some i ∧ s.cache i = chunks.flatten ∧
      (chunks.flatten ≠ [] → s.dirty i = true) := by
  simp only [atomicNoSync, List.append_assoc] at h
  rw [runAbort_append] at h
  split at h
  · have hwfA := runAbort_wf hwf (probeOps pr)
    generalize (runAbort s₀ (probeOps pr)).1 = sA at h hwfA
    simp only [List.singleton_append, runAbort] at h
    cases hc : step sA (.creat tmp fd) with
    | error er => simp [hc] at h
    | ok sB =>
      simp only [hc] at h
      have hopen := creat_open hwfA hc
      rw [runAbort_append] at h
      obtain ⟨sC, hsC, i, hn, hfd, hcache, _, hdirty⟩ := writes_open hopen chunks
      simp only [hsC, if_true] at h
      simp only [List.nil_append] at hcache hdirty hfd
      simp only [runAbort, step, hfd] at h
      simp only [hn, hne, if_false] at h
      cases h
      refine ⟨i, ?_, hcache, hdirty⟩
      simp only
      rw [upd_ne _ _ (Ne.symm hne)]
      simp
  · cases h

/-! ## One save, every prefix -/

theorem take_append_singleton_cases {α : Type} (a : List α) (x : α) (k : Nat) :
    (a ++ [x]).take k = a.take k ∨ (a ++ [x]).take k = a ++ [x] := by
  by_cases hk : k ≤ a.length
  · left; exact List.take_append_of_le_length hk
  · right
    apply List.take_of_length_le
    simp; omega

/-- Core invariant of one atomic save: after any prefix, `dest` is settled at the
old or at the new version (and the state stays well-formed). -/
theorem atomic_prefix {s₀ : FS} {pr : Probe} {dest tmp : Path} {fd : Nat} {chunks : List Content}
    {old : Option Content} (hwf : WF s₀) (h0 : Settled s₀ dest old) (hn : TempNames pr tmp dest)
    (k : Nat) :
    let s := (runAbort s₀ ((atomicWrite pr dest tmp fd chunks).take k)).1
    WF s ∧ (Settled s dest old ∨ Settled s dest (some chunks.flatten)) := by
  intro s
  refine ⟨runAbort_wf hwf _, ?_⟩
  have hsafe := stage_safe hn fd chunks
  rcases take_append_singleton_cases (stageOps pr tmp fd chunks) (.rename tmp dest) k with hk | hk
  · left
    show Settled (runAbort s₀ ((atomicWrite pr dest tmp fd chunks).take k)).1 dest old
    rw [atomicWrite, hk]
    exact runAbort_safe hwf h0 _ (safe_take hsafe k)
  · show Settled (runAbort s₀ ((atomicWrite pr dest tmp fd chunks).take k)).1 dest old ∨
      Settled (runAbort s₀ ((atomicWrite pr dest tmp fd chunks).take k)).1 dest (some chunks.flatten)
    rw [atomicWrite, hk, runAbort_append]
    have hst := runAbort_safe hwf h0 _ hsafe
    cases hr : runAbort s₀ (stageOps pr tmp fd chunks) with
    | mk s₁ ok =>
      rw [hr] at hst
      cases ok with
      | false => left; simpa using hst
      | true =>
        simp only [if_true, runAbort]
        have hready := stage_complete hwf hr
        cases hren : step s₁ (.rename tmp dest) with
        | error er => left; simpa using hst
        | ok s₂ => right; simpa using rename_settles hready hn.2.2 hren

theorem abort_prefix {s₀ : FS} {pr : Probe} {dest tmp : Path} {fd : Nat} {chunks : List Content}
    {old : Option Content} (hwf : WF s₀) (h0 : Settled s₀ dest old) (hn : TempNames pr tmp dest)
    (k : Nat) :
    let s := (runAbort s₀ ((pendingAbort pr tmp fd chunks).take k)).1
    WF s ∧ Settled s dest old :=
  ⟨runAbort_wf hwf _, runAbort_safe hwf h0 _ (safe_take (abort_safe hn fd chunks) k)⟩

/-! ## Successive saves -/

theorem save_prefix {s₀ : FS} {dest : Path} {old : Option Content} (sv : Save) (hwf : WF s₀)
    (h0 : Settled s₀ dest old) (hn : TempNames sv.pr sv.tmp dest) (k : Nat) :
    WF (runAbort s₀ ((sv.prog dest).take k)).1 ∧
      (Settled (runAbort s₀ ((sv.prog dest).take k)).1 dest old ∨
        Settled (runAbort s₀ ((sv.prog dest).take k)).1 dest (some sv.new)) := by
  unfold Save.prog Save.new
  cases hs : sv.started with
  | false =>
    simp only [Bool.not_false, if_true]
    exact ⟨runAbort_wf hwf _,
      Or.inl (runAbort_safe hwf h0 _ (safe_take (startFail_safe hn.1) k))⟩
  | true =>
    simp only [Bool.not_true, Bool.false_eq_true, if_false]
    cases hc : sv.commit with
    | true =>
      simp only [if_true]
      exact atomic_prefix (chunks := sv.chunks) (fd := sv.fd) hwf h0 hn k
    | false =>
      simp only [Bool.false_eq_true, if_false]
      have := abort_prefix (chunks := sv.chunks) (fd := sv.fd) hwf h0 hn k
      exact ⟨this.1, Or.inl this.2⟩

theorem saves_settled (dest : Path) (svs : List Save) :
    ∀ (s₀ : FS) (old : Option Content), WF s₀ → Settled s₀ dest old →
      (∀ sv ∈ svs, TempNames sv.pr sv.tmp dest) →
      WF (runSaves s₀ dest svs) ∧
        ∃ prev, prev ∈ old :: svs.map (fun sv => some sv.new) ∧
          Settled (runSaves s₀ dest svs) dest prev := by
  induction svs with
  | nil => intro s₀ old hwf h0 _; exact ⟨hwf, old, by simp, h0⟩
  | cons sv rest ih =>
    intro s₀ old hwf h0 hn
    have h1 := save_prefix sv hwf h0 (hn sv (by simp)) (sv.prog dest).length
    simp only [List.take_length] at h1
    have hrest : ∀ x ∈ rest, TempNames x.pr x.tmp dest := fun x hx => hn x (by simp [hx])
    simp only [runSaves, List.foldl_cons]
    rcases h1.2 with hs | hs
    · obtain ⟨hw, prev, hmem, hp⟩ := ih _ old h1.1 hs hrest
      refine ⟨hw, prev, ?_, hp⟩
      simp only [List.map_cons, List.mem_cons] at hmem ⊢
      rcases hmem with h | h
      · exact Or.inl h
      · exact Or.inr (Or.inr h)
    · obtain ⟨hw, prev, hmem, hp⟩ := ih _ (some sv.new) h1.1 hs hrest
      refine ⟨hw, prev, ?_, hp⟩
      simp only [List.map_cons, List.mem_cons] at hmem ⊢
      rcases hmem with h | h
      · exact Or.inr (Or.inl h)
      · exact Or.inr (Or.inr h)

/-! ## The writes of a program -/

theorem writesOf_append (a b : List Sys) : writesOf (a ++ b) = writesOf a ++ writesOf b := by
  simp [writesOf, List.filterMap_append]

theorem writesOf_map (fd : Nat) (l : List Content) : writesOf (l.map (Sys.write fd)) = l := by
  induction l with
  | nil => rfl
  | cons d ds ih => simp only [writesOf] at ih ⊢; simp [ih]

theorem writesOf_probe (pr : Probe) : writesOf (probeOps pr) = [] := by
  cases ho : pr.outcome <;> simp [writesOf, probeOps, ho]

end AGH.C14
