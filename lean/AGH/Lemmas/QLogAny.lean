/-
C20 helper lemmas, part 11: reads on ANY byte content (overlong lines, no final
newline, empty lines, CRLF, binary garbage): the buffer invariant survives, no
Go panic is reachable, every `ReadNext` moves strictly left, so reading always
ends with `io.EOF`; and wherever the reader comes to stand on the newline of a
line shorter than `maxEntry`, that line is returned intact
(`readNext_line`, part 1).  Core only.
-/
import AGH.Lemmas.QLogScan
namespace AGH.C20
open AGH

theorem scanBack_le (g : Nat → Nat) : ∀ rel, scanBack g rel ≤ rel := by
  intro rel
  induction rel with
  | zero => simp [scanBack]
  | succ r ih => unfold scanBack; split <;> omega

/-- `readNextLine` on any content, from a sound buffer state. -/
theorem readNextLine_any (P : Params) (f : File) (q : QState) (hinv : Inv P f q) :
    ∃ q' res, readNextLine P f q q.position = (q', res) ∧
      q'.hasBuf = true ∧ q'.position = q.position ∧
      q.position ≤ q'.bufStart + P.bufSize ∧ q'.bufLen = min P.bufSize (f.size - q'.bufStart) ∧
      res ≠ .error .panic ∧
      ∀ a b, res = .ok (a, b) → a ≤ b ∧ b = q.position := by
  by_cases hinit : (!q.hasBuf || (decide (q.position < q.bufStart + P.maxEntry) && q.bufStart != 0)) = true
  · -- initBuffer
    let bs := if q.position > P.bufSize then q.position - P.bufSize else 0
    have hbsle : bs ≤ q.position := by
      show (if q.position > P.bufSize then q.position - P.bufSize else 0) ≤ q.position
      split <;> omega
    have hcap : q.position ≤ bs + P.bufSize := by
      show q.position ≤ (if q.position > P.bufSize then q.position - P.bufSize else 0) + P.bufSize
      split <;> omega
    let q1 : QState := { q with hasBuf := true, bufStart := bs, bufLen := min P.bufSize (f.size - bs) }
    by_cases hn : min P.bufSize (f.size - bs) = 0
    · refine ⟨q1, .error .eof, ?_, rfl, rfl, hcap, rfl, (by intro h; cases h), (by intro a b h; cases h)⟩
      unfold readNextLine
      simp only [hinit, if_true, initBuffer]
      show (if (!(min P.bufSize (f.size - bs) != 0)) = true then _ else _) = _
      simp [hn]
      rfl
    · have hrel : ¬ (q.position - bs > P.bufSize) := by omega
      refine ⟨q1, .ok (bs + scanBack (bufByte f q1) (q.position - bs), bs + (q.position - bs)), ?_,
        rfl, rfl, hcap, rfl, (by intro h; cases h), ?_⟩
      · unfold readNextLine
        simp only [hinit, if_true, initBuffer]
        have hn' : (min P.bufSize (f.size - bs) != 0) = true := by simp [hn]
        show (if (!(min P.bufSize (f.size - bs) != 0)) = true then _ else _) = _
        simp only [hn', Bool.not_true, Bool.false_eq_true, if_false]
        show (if q.position - q1.bufStart > P.bufSize then _ else _) = _
        simp only [show q1.bufStart = bs from rfl, hrel, if_false]
        rfl
      · intro a b h
        simp only [Except.ok.injEq, Prod.mk.injEq] at h
        obtain ⟨rfl, rfl⟩ := h
        have := scanBack_le (bufByte f q1) (q.position - bs)
        omega
  · have hb : q.hasBuf = true := by
      cases h : q.hasBuf <;> simp [h] at hinit ⊢
    have hcond : ¬ (q.position < q.bufStart + P.maxEntry ∧ q.bufStart ≠ 0) := by
      intro ⟨h1, h2⟩
      apply hinit
      simp [h1, h2]
    obtain ⟨hcap, hlenb⟩ := hinv hb
    have hbsle : q.bufStart ≤ q.position := by
      by_cases h0 : q.bufStart = 0
      · omega
      · have : ¬ (q.position < q.bufStart + P.maxEntry) := fun h => hcond ⟨h, h0⟩
        omega
    have hrel : ¬ (q.position - q.bufStart > P.bufSize) := by omega
    refine ⟨q, .ok (q.bufStart + scanBack (bufByte f q) (q.position - q.bufStart),
      q.bufStart + (q.position - q.bufStart)), ?_, hb, rfl, hcap, hlenb, (by intro h; cases h), ?_⟩
    · unfold readNextLine
      simp only [hinit, Bool.false_eq_true, if_false]
      simp only [Bool.not_true, Bool.false_eq_true, if_false, hrel]
    · intro a b h
      simp only [Except.ok.injEq, Prod.mk.injEq] at h
      obtain ⟨rfl, rfl⟩ := h
      have := scanBack_le (bufByte f q) (q.position - q.bufStart)
      omega

/-- `ReadNext` on any content: the invariant survives, no panic, and a successful
read returns `file[a, position)` and moves strictly left. -/
theorem readNext_any (P : Params) (f : File) (q : QState) (hinv : Inv P f q) :
    ∃ q' res, readNext P f q = (q', res) ∧ Inv P f q' ∧ q'.position ≤ q.position ∧
      res ≠ .error .panic ∧
      (q.position = 0 → res = .error .eof) ∧
      ∀ a b, res = .ok (a, b) → a ≤ b ∧ b = q.position ∧ q'.position < q.position := by
  by_cases h0 : q.position = 0
  · refine ⟨q, .error .eof, (by unfold readNext; simp [h0]), hinv, Nat.le_refl _,
      (by intro h; cases h), fun _ => rfl, (by intro a b h; cases h)⟩
  · obtain ⟨q1, res, h1, hb, hp, hcap, hlenb, hnp, hok⟩ := readNextLine_any P f q hinv
    cases res with
    | error e =>
      refine ⟨q1, .error e, ?_, ?_, (by omega), hnp, fun h => absurd h h0, (by intro a b h; cases h)⟩
      · unfold readNext; simp only [h0, if_false, h1]
      · intro _; exact ⟨by omega, hlenb⟩
    | ok ab =>
      obtain ⟨a, b⟩ := ab
      obtain ⟨hab, hbp⟩ := hok a b rfl
      refine ⟨{ q1 with position := if a = 0 then 0 else a - 1 }, .ok (a, b), ?_, ?_, ?_,
        (by intro h; cases h), fun h => absurd h h0, ?_⟩
      · unfold readNext; simp only [h0, if_false, h1]
      · intro _
        refine ⟨?_, hlenb⟩
        show (if a = 0 then 0 else a - 1) ≤ q1.bufStart + P.bufSize
        split <;> omega
      · show (if a = 0 then 0 else a - 1) ≤ q.position
        split <;> omega
      · intro a' b' h
        simp only [Except.ok.injEq, Prod.mk.injEq] at h
        obtain ⟨rfl, rfl⟩ := h
        refine ⟨hab, hbp, ?_⟩
        show (if a = 0 then 0 else a - 1) < q.position
        split <;> omega

/-- Reading never loops: from a sound state at position `p`, more than `p` calls
of `ReadNext` always end with an error (which is never a panic) — on ANY file
content. -/
theorem fReadMany_terminates (P : Params) (f : File) :
    ∀ (n : Nat) (q : QState) (acc : List (Nat × Nat)), Inv P f q → q.position < n →
      ∃ e, (fReadMany P f n q acc).2.2 = some e ∧ e ≠ .panic := by
  intro n
  induction n with
  | zero => intro q acc _ h; omega
  | succ n ih =>
    intro q acc hinv hlt
    obtain ⟨q', res, h1, h2, h3, h4, h5, h6⟩ := readNext_any P f q hinv
    rw [fReadMany, h1]
    cases res with
    | error e =>
      exact ⟨e, rfl, fun h => h4 (by rw [h])⟩
    | ok ab =>
      obtain ⟨a, b⟩ := ab
      have := (h6 a b rfl).2.2
      exact ih q' ((a, b) :: acc) h2 (by omega)

end AGH.C20
