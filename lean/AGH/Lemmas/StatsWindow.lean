/-
C09: what `getData` reports in a state that satisfies the invariant —
window sums against the ghost counts.
-/
import AGH.Lemmas.StatsInv3
namespace AGH.C09

/-- `Σ_{k<m} F k` -/
def wsum (F : Nat → Nat) (m : Nat) : Nat := ((List.range m).map F).sum

theorem wsum_succ (F : Nat → Nat) (m : Nat) : wsum F (m + 1) = wsum F m + F m := by
  simp [wsum, List.range_succ]

theorem wsum_le {F G : Nat → Nat} (m : Nat) (h : ∀ k, k < m → F k ≤ G k) : wsum F m ≤ wsum G m := by
  induction m with
  | zero => simp [wsum]
  | succ m ih =>
    rw [wsum_succ, wsum_succ]
    have := ih (fun k hk => h k (by omega))
    have := h m (by omega)
    omega

/-- Counted queries selected by `q` of hour `h`. -/
def cntAt (q : Ev → Bool) (evs : List Ev) (h : Nat) (sel : Sel) : Nat :=
  cnt (fun e => q e && e.hour == h && sel.sees e) evs

theorem upperAt_eq (g : Ghost) (h : Nat) (sel : Sel) : upperAt g h sel = cntAt (fun _ => true) g.evs h sel := by
  unfold upperAt cntAt
  exact cnt_congr _ (fun e _ => by simp)

theorem lowerAt_eq (g : Ghost) (h : Nat) (sel : Sel) : lowerAt g h sel = cntAt (·.kept) g.evs h sel := rfl

theorem range_bool (a m h : Nat) :
    ((decide (a ≤ h) && decide (h < a + m)) || (h == a + m)) = (decide (a ≤ h) && decide (h < a + (m + 1))) := by
  rw [Bool.eq_iff_iff]
  simp only [Bool.or_eq_true, Bool.and_eq_true, decide_eq_true_eq, beq_iff_eq]
  omega

theorem win_bool (now L h : Nat) (hL : 1 ≤ L) (hn : L ≤ now) :
    ((decide (now + 1 - L ≤ h) && decide (h < now + 1 - L + (L - 1))) || (h == now)) = inWindow now L h := by
  rw [Bool.eq_iff_iff]
  simp only [inWindow, Bool.or_eq_true, Bool.and_eq_true, decide_eq_true_eq, beq_iff_eq]
  omega

/-- Summing the per-hour counts over `a, a+1, …, a+m-1`. -/
theorem cnt_range (q : Ev → Bool) (evs : List Ev) (sel : Sel) (a m : Nat) :
    wsum (fun k => cntAt q evs (a + k) sel) m =
      cnt (fun e => q e && decide (a ≤ e.hour) && decide (e.hour < a + m) && sel.sees e) evs := by
  induction m with
  | zero =>
    simp only [wsum, List.range_zero, List.map_nil, List.sum_nil]
    symm; apply cnt_false; intro e _
    have : (decide (a ≤ e.hour) && decide (e.hour < a + 0)) = false := by
      rw [Bool.eq_false_iff]
      simp only [ne_eq, Bool.and_eq_true, decide_eq_true_eq]
      omega
    rw [Bool.and_assoc (q e), this]
    simp
  | succ m ih =>
    rw [wsum_succ, ih]
    unfold cntAt
    rw [cnt_add_disjoint]
    · apply cnt_congr
      intro e _
      rw [Bool.and_assoc (q e) (decide (a ≤ e.hour)) (decide (e.hour < a + (m + 1))), ← range_bool]
      cases q e <;> cases sel.sees e <;> simp
    · intro e _ ⟨hp, hq⟩
      simp only [Bool.and_eq_true, decide_eq_true_eq, beq_iff_eq] at hp hq
      omega

/-- The stored hours `now+1-L … now-1` together with the current hour `now`
are exactly the retention window. -/
theorem cnt_window (q : Ev → Bool) (evs : List Ev) (sel : Sel) (now L : Nat) (hL : 1 ≤ L) (hn : L ≤ now) :
    wsum (fun k => cntAt q evs (now + 1 - L + k) sel) (L - 1) + cntAt q evs now sel =
      cnt (fun e => q e && inWindow now L e.hour && sel.sees e) evs := by
  rw [cnt_range]
  unfold cntAt
  rw [cnt_add_disjoint]
  · apply cnt_congr
    intro e _
    rw [← win_bool now L e.hour hL hn]
    cases q e <;> cases sel.sees e <;> simp
  · intro e _ ⟨hp, hq⟩
    simp only [Bool.and_eq_true, decide_eq_true_eq, beq_iff_eq] at hp hq
    omega

theorem upper_eq (g : Ghost) (sel : Sel) :
    upper g sel = cnt (fun e => (fun _ => true) e && inWindow g.now g.limit e.hour && sel.sees e) g.evs := by
  unfold upper; exact cnt_congr _ (fun e _ => by simp)

theorem lower_eq (g : Ghost) (sel : Sel) :
    lower g sel = cnt (fun e => (·.kept) e && inWindow g.now g.limit e.hour && sel.sees e) g.evs := rfl

theorem val_getD (sel : Sel) (o : Option UnitDB) : sel.val (o.getD UnitDB.empty) = optVal sel o := by
  cases o <;> cases sel <;> simp [optVal, Sel.val, UnitDB.empty]

/-- Without wrap the stored units are the buckets of hours `now+1-L … now-1`. -/
theorem storedUnits_eq {g : Ghost} {s : State} (hi : Inv g s) :
    storedUnits s g.limit =
      (List.range (g.limit - 1)).map fun k => (s.db.get (g.now + 1 - g.limit + k)).getD UnitDB.empty := by
  have hr := hi.limit_range
  have hnl := hi.nowLimit
  have hhi := hi.hi
  have h1 : sub32 g.now g.limit = g.now - g.limit := sub32_eq (by omega) hhi
  have h2 : add32 (g.now - g.limit) 1 = g.now + 1 - g.limit := by
    rw [add32_eq (by omega)]; omega
  have h3 : sub32 g.now (g.now + 1 - g.limit) = g.limit - 1 := by
    rw [sub32_eq (by omega) hhi]; omega
  unfold storedUnits
  rw [hi.cur, h1, h2, h3]
  apply List.map_congr_left
  intro k hk
  have hk' : k < g.limit - 1 := List.mem_range.mp hk
  rw [add32_eq (by omega)]

/-- `sumBy` of one selector over what `loadUnits` returns. -/
theorem sum_units {g : Ghost} {s : State} (hi : Inv g s) (sel : Sel) :
    sumBy sel.val (storedUnits s g.limit ++ [s.curr.serialize]) =
      wsum (fun k => optVal sel (s.db.get (g.now + 1 - g.limit + k))) (g.limit - 1) +
        sel.val s.curr.serialize := by
  rw [storedUnits_eq hi]
  simp only [sumBy, wsum, List.map_append, List.map_map, List.sum_append, List.map_cons, List.map_nil,
    List.sum_cons, List.sum_nil, Nat.add_zero]
  congr 2
  apply List.map_congr_left
  intro k _
  exact val_getD sel _

theorem total_le_upper {g : Ghost} {s : State} (hi : Inv g s) (sel : Sel) :
    sumBy sel.val (storedUnits s g.limit ++ [s.curr.serialize]) ≤ upper g sel := by
  have hr := hi.limit_range
  have hnl := hi.nowLimit
  rw [sum_units hi, upper_eq, ← cnt_window _ _ _ _ _ hr.1 (by omega)]
  have h1 := wsum_le (F := fun k => optVal sel (s.db.get (g.now + 1 - g.limit + k)))
    (G := fun k => cntAt (fun _ => true) g.evs (g.now + 1 - g.limit + k) sel) (g.limit - 1)
    (fun k _ => by rw [← upperAt_eq]; exact optVal_le_upperAt hi _ sel)
  have h2 := hi.curUp sel
  rw [upperAt_eq] at h2
  omega

theorem lower_le_total {g : Ghost} {s : State} (hi : Inv g s) (sel : Sel) :
    lower g sel ≤ sumBy sel.val (storedUnits s g.limit ++ [s.curr.serialize]) := by
  have hr := hi.limit_range
  have hnl := hi.nowLimit
  rw [sum_units hi, lower_eq, ← cnt_window _ _ _ _ _ hr.1 (by omega)]
  have h1 := wsum_le (G := fun k => optVal sel (s.db.get (g.now + 1 - g.limit + k)))
    (F := fun k => cntAt (·.kept) g.evs (g.now + 1 - g.limit + k) sel) (g.limit - 1)
    (fun k hk => by rw [← lowerAt_eq]; exact hi.dbLo _ (by omega) sel)
  have h2 := hi.curLo sel
  rw [lowerAt_eq] at h2
  omega

end AGH.C09
