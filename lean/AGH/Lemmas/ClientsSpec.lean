/-
C04 lemmas, part 6: the spec's functions (`noSharing`, `owner`, `mostSpecific`)
characterised by membership, so that they can be compared with the index.
Core Lean only.
-/
import AGH.Spec.Clients
import AGH.Lemmas.ClientsStorage
import AGH.Lemmas.Access
namespace AGH.C04
open AGH AGH.Bytes
open AGH.C03 (IP Prefix inCIDR)

/-! ### identifiers of a client -/

@[simp] theorem mem_idents_name {c : Client} {n : Bytes} : Ident.name n ∈ c.idents ↔ n = c.name := by
  simp [Client.idents]

@[simp] theorem mem_idents_cid {c : Client} {k : Bytes} : Ident.cid k ∈ c.idents ↔ k ∈ c.cids := by
  simp [Client.idents]

@[simp] theorem mem_idents_ip {c : Client} {k : IP} : Ident.ip k ∈ c.idents ↔ k ∈ c.ips := by
  simp [Client.idents]

@[simp] theorem mem_idents_subnet {c : Client} {k : Prefix} : Ident.subnet k ∈ c.idents ↔ k ∈ c.subnets := by
  simp [Client.idents]

@[simp] theorem mem_idents_mac {c : Client} {k : MAC} : Ident.mac k ∈ c.idents ↔ k ∈ c.macs := by
  simp [Client.idents]

/-! ### no sharing -/

/-- Two distinct clients with nothing in common. -/
def DisjointP (a b : Client) : Prop := a.uid ≠ b.uid ∧ ∀ k, k ∈ a.idents → k ∉ b.idents

theorem disjointClients_iff {a b : Client} : disjointClients a b = true ↔ DisjointP a b := by
  simp [disjointClients, DisjointP]

theorem DisjointP.symm {a b : Client} (h : DisjointP a b) : DisjointP b a :=
  ⟨fun e => h.1 e.symm, fun k hb ha => h.2 k ha hb⟩

theorem noSharing_iff {reg : Registry} : noSharing reg = true ↔ reg.Pairwise DisjointP := by
  induction reg with
  | nil => simp [noSharing]
  | cons c rest ih =>
    simp only [noSharing, Bool.and_eq_true, List.all_eq_true, disjointClients_iff, ih,
      List.pairwise_cons]

theorem noSharing_perm {l1 l2 : Registry} (h : l1.Perm l2) : noSharing l1 = noSharing l2 := by
  apply Bool.eq_iff_iff.mpr
  rw [noSharing_iff, noSharing_iff]
  exact h.pairwise_iff DisjointP.symm

/-- In a registry without sharing an identifier has at most one owner. -/
theorem owner_unique {reg : Registry} (h : reg.Pairwise DisjointP) {a b : Client} (ha : a ∈ reg)
    (hb : b ∈ reg) {k : Ident} (hka : k ∈ a.idents) (hkb : k ∈ b.idents) : a = b := by
  induction h with
  | nil => cases ha
  | cons hx _ ih =>
    rcases List.mem_cons.mp ha with rfl | ha' <;> rcases List.mem_cons.mp hb with rfl | hb'
    · rfl
    · exact absurd hkb ((hx b hb').2 k hka)
    · exact absurd hka ((hx a ha').2 k hkb)
    · exact ih ha' hb'

theorem owner_eq_some_iff {reg : Registry} (h : reg.Pairwise DisjointP) {k : Ident} {c : Client} :
    owner reg k = some c ↔ (c ∈ reg ∧ k ∈ c.idents) := by
  unfold owner
  constructor
  · intro hf
    exact ⟨List.mem_of_find?_eq_some hf, by simpa using List.find?_some hf⟩
  · rintro ⟨hc, hk⟩
    cases hf : reg.find? (fun c => c.idents.contains k) with
    | none =>
      have := List.find?_eq_none.mp hf c hc
      simp [hk] at this
    | some c' =>
      have hm := List.mem_of_find?_eq_some hf
      have hk' : k ∈ c'.idents := by simpa using List.find?_some hf
      rw [owner_unique h hm hc hk' hk]

theorem owner_eq_none_iff {reg : Registry} {k : Ident} :
    owner reg k = none ↔ ∀ c ∈ reg, k ∉ c.idents := by
  unfold owner
  rw [List.find?_eq_none]
  simp

/-! ### the most specific containing CIDR -/

theorem mem_containing {reg : Registry} {ip : IP} {p : Prefix} {c : Client} :
    (p, c) ∈ containing reg ip ↔ (c ∈ reg ∧ p ∈ c.subnets ∧ inCIDR p ip = true) := by
  unfold containing
  simp only [List.mem_flatMap, List.mem_map, List.mem_filter, Prod.mk.injEq]
  constructor
  · rintro ⟨c', hc', p', ⟨hp', hin⟩, rfl, rfl⟩
    exact ⟨hc', hp', hin⟩
  · rintro ⟨hc, hp, hin⟩
    exact ⟨c, hc, p, ⟨hp, hin⟩, rfl, rfl⟩

theorem moreSpecific_iff {p q : Prefix} :
    moreSpecific p q = true ↔ (p.bits > q.bits ∨ (p.bits = q.bits ∧ p.addr < q.addr)) := by
  simp [moreSpecific]

theorem moreSpecific_trans {p q r : Prefix} (h1 : moreSpecific p q = true) (h2 : moreSpecific q r = true) :
    moreSpecific p r = true := by
  rw [moreSpecific_iff] at *
  omega

/-- The fold keeps an element of the list than which no element is more specific. -/
theorem foldl_pickBest (l : List (Prefix × Client)) (init : Option (Prefix × Client)) :
    match l.foldl pickBest init with
    | none => init = none ∧ l = []
    | some b => (b ∈ l ∨ init = some b) ∧ (∀ x ∈ l, moreSpecific x.1 b.1 = false) ∧
        (∀ i, init = some i → moreSpecific i.1 b.1 = false) := by
  induction l generalizing init with
  | nil =>
    cases init with
    | none => simp
    | some b =>
      simp only [List.foldl_nil, List.not_mem_nil, false_or, true_and, false_implies, implies_true,
        Option.some.injEq]
      intro i hi; subst hi
      simp [moreSpecific]
  | cons x rest ih =>
    simp only [List.foldl_cons]
    have := ih (pickBest init x)
    cases hr : rest.foldl pickBest (pickBest init x) with
    | none =>
      rw [hr] at this
      cases init <;> simp [pickBest] at this
      · split at this <;> simp at this
    | some b =>
      rw [hr] at this
      simp only at this ⊢
      obtain ⟨hmem, hbest, hinit⟩ := this
      cases init with
      | none =>
        simp only [pickBest] at hmem hinit
        refine ⟨?_, ?_, by simp⟩
        · rcases hmem with hm | hm
          · exact Or.inl (List.mem_cons_of_mem _ hm)
          · left; rw [← Option.some.inj hm]; exact List.mem_cons_self
        · intro y hy
          rcases List.mem_cons.mp hy with rfl | hy
          · exact hinit y rfl
          · exact hbest y hy
      | some i =>
        simp only [pickBest] at hmem hinit
        by_cases hxi : moreSpecific x.1 i.1 = true
        · simp only [hxi, if_true] at hmem hinit
          have hxb := hinit x rfl
          refine ⟨?_, ?_, ?_⟩
          · rcases hmem with hm | hm
            · exact Or.inl (List.mem_cons_of_mem _ hm)
            · left; rw [← Option.some.inj hm]; exact List.mem_cons_self
          · intro y hy
            rcases List.mem_cons.mp hy with rfl | hy
            · exact hxb
            · exact hbest y hy
          · intro j hj
            cases hj
            -- i is worse than x, x is not better than b: i is not better than b
            cases hib : moreSpecific i.1 b.1 with
            | false => rfl
            | true => rw [moreSpecific_trans hxi hib] at hxb; cases hxb
        · have hxi' : moreSpecific x.1 i.1 = false := by
            cases h : moreSpecific x.1 i.1 <;> simp_all
          simp only [hxi', Bool.false_eq_true, if_false] at hmem hinit
          have hib := hinit i rfl
          refine ⟨?_, ?_, ?_⟩
          · rcases hmem with hm | hm
            · exact Or.inl (List.mem_cons_of_mem _ hm)
            · exact Or.inr hm
          · intro y hy
            rcases List.mem_cons.mp hy with rfl | hy
            · -- y not better than i, i not better than b.  Totality is needed here.
              cases hyb : moreSpecific y.1 b.1 with
              | false => rfl
              | true =>
                rw [moreSpecific_iff] at hyb
                have h1 : ¬ (y.1.bits > i.1.bits ∨ (y.1.bits = i.1.bits ∧ y.1.addr < i.1.addr)) := by
                  rw [← moreSpecific_iff]; simp [hxi']
                have h2 : ¬ (i.1.bits > b.1.bits ∨ (i.1.bits = b.1.bits ∧ i.1.addr < b.1.addr)) := by
                  rw [← moreSpecific_iff]; simp [hib]
                omega
            · exact hbest y hy
          · intro j hj
            cases hj
            exact hib

theorem mostSpecific_none {reg : Registry} {ip : IP} :
    mostSpecific reg ip = none ↔ containing reg ip = [] := by
  unfold mostSpecific
  have := foldl_pickBest (containing reg ip) none
  cases hr : (containing reg ip).foldl pickBest none with
  | none => rw [hr] at this; simp [this.2]
  | some b =>
    rw [hr] at this
    simp only [reduceCtorEq, false_iff]
    intro he
    rw [he] at this
    simp at this

theorem mostSpecific_some {reg : Registry} {ip : IP} {b : Prefix × Client}
    (h : mostSpecific reg ip = some b) :
    b ∈ containing reg ip ∧ ∀ x ∈ containing reg ip, moreSpecific x.1 b.1 = false := by
  unfold mostSpecific at h
  have := foldl_pickBest (containing reg ip) none
  rw [h] at this
  simp only [reduceCtorEq, or_false] at this
  exact ⟨this.1, this.2.1⟩

/-- A well-formed `Add` that shares nothing is accepted. -/
theorem Storage.add_accepted (s : Storage) (h : Inv s.index) (c : Client) (hv : c.validate = none)
    (hfresh : ∀ d ∈ s.index.clients, d.uid ≠ c.uid) (hmac : ∀ m ∈ c.macs, macOK m = true)
    (hfree : ∀ d ∈ s.index.clients, ∀ k, k ∈ c.idents → k ∉ d.idents) :
    (s.add c).2 = .ok := by
  have key : ∀ {κ : Type} {m : FMap κ} {ids : Client → List κ} (mk : κ → Ident),
      MapInv m s.index.clients ids → (∀ d k, mk k ∈ d.idents ↔ k ∈ ids d) →
      ∀ ks, (∀ k ∈ ks, mk k ∈ c.idents) → FreeFor m c.uid ks := by
    intro κ m ids mk hm hmk ks hks k hk u hu
    obtain ⟨d, hd, _, hkd⟩ := (hm k u).mp hu
    exact absurd ((hmk d k).mpr hkd) (hfree d hd (mk k) (hks k hk))
  have hnc : NoClash s.index c :=
    { name := key Ident.name h.names (by intro d k; simp) [c.name] (by intro k hk; simp at hk; simp [hk])
      cids := key Ident.cid h.cids (by intro d k; simp) c.cids (by intro k hk; simp [hk])
      ips := key Ident.ip h.ips (by intro d k; simp) c.ips (by intro k hk; simp [hk])
      subs := key Ident.subnet h.subs (by intro d k; simp) c.subnets (by intro k hk; simp [hk])
      macs := key Ident.mac h.macs (by intro d k; simp) c.macs (by intro k hk; simp [hk]) }
  have hcl := (h.clashes_spec c).1.mpr ⟨hnc, hmac⟩
  unfold Storage.add
  simp [hv, Index.client_eq_none.mpr hfresh, hcl]

end AGH.C04
