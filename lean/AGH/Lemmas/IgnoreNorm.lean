/-
C08 lemmas: `NormalizeDomain` is insensitive to letter case and to one
trailing dot.
-/
import AGH.Model.Ignore
set_option linter.unusedSimpArgs false
namespace AGH.Ignore
open AGH AGH.Bytes

/-- `strings.TrimSuffix(x, ".")` -/
def stripDot (x : Bytes) : Bytes := if x.getLast? == some dot then x.dropLast else x

theorem normalize_eq (x : Bytes) : normalize x = if x = [dot] then x else lower (stripDot x) := rfl

theorem lowerB_eq_dot {c : Nat} : lowerB c = dot ↔ c = dot := by
  unfold lowerB isUpperB dot
  by_cases h : (decide (65 ≤ c) && decide (c ≤ 90)) = true
  · simp only [h, if_true]
    simp at h
    omega
  · simp [h]

theorem lower_dropLast (x : Bytes) : lower x.dropLast = (lower x).dropLast := by
  unfold lower
  induction x with
  | nil => rfl
  | cons a rest ih =>
    cases rest with
    | nil => rfl
    | cons b r => simp [List.dropLast] at ih ⊢

theorem lower_getLast? (x : Bytes) : (lower x).getLast? = x.getLast?.map lowerB := by
  unfold lower
  induction x with
  | nil => rfl
  | cons a rest ih =>
    cases rest with
    | nil => rfl
    | cons b r => simp [List.getLast?_cons_cons] at ih ⊢; exact ih

theorem getLast?_lower_dot (x : Bytes) : ((lower x).getLast? == some dot) = (x.getLast? == some dot) := by
  rw [lower_getLast?]
  cases h : x.getLast? with
  | none => rfl
  | some c =>
    simp only [Option.map]
    by_cases hc : c = dot
    · subst hc; simp [lowerB_eq_dot.mpr rfl]
    · have : lowerB c ≠ dot := fun h' => hc (lowerB_eq_dot.mp h')
      have e1 : (lowerB c == dot) = false := by simpa using this
      have e2 : (c == dot) = false := by simpa using hc
      simp [e1, e2]

theorem lower_stripDot (x : Bytes) : lower (stripDot x) = stripDot (lower x) := by
  unfold stripDot
  rw [getLast?_lower_dot]
  by_cases h : (x.getLast? == some dot) = true
  · simp only [h, if_true]; exact lower_dropLast x
  · simp only [h]; rfl

theorem lower_eq_dot {x : Bytes} : lower x = [dot] ↔ x = [dot] := by
  constructor
  · intro h
    match x, h with
    | [], h => simp [lower] at h
    | [c], h =>
      simp [lower] at h
      rw [lowerB_eq_dot.mp h]
    | _ :: _ :: _, h => simp [lower] at h
  · intro h; subst h; rfl

/-- Letter case does not matter. -/
theorem normalize_eq_of_lower_eq {a b : Bytes} (h : lower a = lower b) : normalize a = normalize b := by
  rw [normalize_eq, normalize_eq]
  by_cases ha : a = [dot]
  · have hb : b = [dot] := by
      apply lower_eq_dot.mp
      rw [← h, ha]; rfl
    simp [ha, hb]
  · have hb : b ≠ [dot] := by
      intro hb
      apply ha
      apply lower_eq_dot.mp
      rw [h, hb]; rfl
    simp only [ha, hb, if_false]
    rw [lower_stripDot, lower_stripDot, h]

/-- One trailing dot does not matter. -/
theorem normalize_append_dot {n : Bytes} (h1 : n ≠ []) (h2 : n.getLast? ≠ some dot) :
    normalize (n ++ [dot]) = normalize n := by
  rw [normalize_eq, normalize_eq]
  have e1 : n ++ [dot] ≠ [dot] := by
    intro h
    have := congrArg List.length h
    simp at this
    exact h1 this
  have e2 : n ≠ [dot] := by
    intro h; subst h; simp at h2
  simp only [e1, e2, if_false]
  have s1 : stripDot (n ++ [dot]) = n := by
    unfold stripDot
    simp
  have s2 : stripDot n = n := by
    unfold stripDot
    have : (n.getLast? == some dot) = false := by
      cases hh : n.getLast? with
      | none => rfl
      | some c =>
        rw [hh] at h2
        simp at h2 ⊢
        exact h2
    simp [this]
  rw [s1, s2]

end AGH.Ignore
