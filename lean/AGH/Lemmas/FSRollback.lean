/-
C14: an inode that has been installed at the destination (synced, closed) is
never modified again by any syscall sequence that contains no in-place open.
This is what makes the result robust against a weaker crash model in which the
DIRECTORY may come back in an earlier state: whatever earlier binding of `dest`
survives, the inode it points to still holds a complete version.
-/
import AGH.Lemmas.FSMonitor
namespace AGH.C14
open AGH

/-- Inode `i` holds `c`, synced, with no descriptor open for writing. -/
def Frozen (s : FS) (i : Nat) (c : Content) : Prop :=
  s.cache i = c ∧ s.disk i = c ∧ s.dirty i = false ∧ ∀ fd off, s.fds fd ≠ some (i, off)

def Sys.isOpenWr : Sys → Bool
  | .openWr _ _ _ => true
  | _ => false

theorem step_next_le {s s' : FS} {e : Sys} (hs : step s e = .ok s') : s.next ≤ s'.next := by
  cases e <;> simp only [step] at hs
  case creat p fd =>
    split at hs
    · cases hs
    · split at hs <;> cases hs
      simp [FS.mkFile]
  case openWr p fd t =>
    split at hs
    · cases hs
    · split at hs
      · cases hs; simp [FS.mkFile]
      · split at hs <;> cases hs <;> simp
  case write fd d =>
    split at hs
    · cases hs
    · split at hs <;> cases hs <;> simp
  case fsync fd => split at hs <;> cases hs; simp
  case close fd => split at hs <;> cases hs; simp
  case rename a b =>
    split at hs
    · cases hs
    · split at hs <;> cases hs <;> simp
  case unlink a => split at hs <;> cases hs; simp
  case fsyncDir => cases hs; simp

theorem frozen_step {s s' : FS} {e : Sys} {i : Nat} {c : Content} (hlt : i < s.next)
    (h : Frozen s i c) (he : e.isOpenWr = false) (hs : step s e = .ok s') : Frozen s' i c := by
  obtain ⟨hc, hd, hdi, hfd⟩ := h
  have hi : i ≠ s.next := by omega
  cases e with
  | openWr p fd t => simp [Sys.isOpenWr] at he
  | creat p fd =>
    simp only [step] at hs
    split at hs
    · cases hs
    · split at hs
      · cases hs
      · cases hs
        refine ⟨?_, ?_, ?_, ?_⟩
        · simp only [FS.mkFile]; rw [upd_ne _ _ hi]; exact hc
        · simp only [FS.mkFile]; rw [upd_ne _ _ hi]; exact hd
        · simp only [FS.mkFile]; rw [upd_ne _ _ hi]; exact hdi
        · intro fd' off
          simp only [FS.mkFile]
          by_cases hf : fd' = fd
          · subst hf; simp; intro h1; omega
          · rw [upd_ne _ _ hf]; exact hfd fd' off
  | write fd d =>
    simp only [step] at hs
    split at hs
    · cases hs
    · rename_i j off hj
      have hij : i ≠ j := by intro hij; subst hij; exact hfd fd off hj
      split at hs <;> cases hs
      · exact ⟨hc, hd, hdi, hfd⟩
      · refine ⟨?_, hd, ?_, ?_⟩
        · simp only; rw [upd_ne _ _ hij]; exact hc
        · simp only; rw [upd_ne _ _ hij]; exact hdi
        · intro fd' off'
          simp only
          by_cases hf : fd' = fd
          · subst hf; simp; intro h1; exact absurd h1.symm hij
          · rw [upd_ne _ _ hf]; exact hfd fd' off'
  | fsync fd =>
    simp only [step] at hs
    split at hs
    · cases hs
    · rename_i j off hj
      have hij : i ≠ j := by intro hij; subst hij; exact hfd fd off hj
      cases hs
      refine ⟨hc, ?_, ?_, hfd⟩
      · simp only; rw [upd_ne _ _ hij]; exact hd
      · simp only; rw [upd_ne _ _ hij]; exact hdi
  | close fd =>
    simp only [step] at hs
    split at hs
    · cases hs
    · cases hs
      refine ⟨hc, hd, hdi, ?_⟩
      intro fd' off
      simp only
      by_cases hf : fd' = fd
      · subst hf; simp
      · rw [upd_ne _ _ hf]; exact hfd fd' off
  | rename a b =>
    simp only [step] at hs
    split at hs
    · cases hs
    · split at hs <;> cases hs <;> exact ⟨hc, hd, hdi, hfd⟩
  | unlink a =>
    simp only [step] at hs
    split at hs
    · cases hs
    · cases hs; exact ⟨hc, hd, hdi, hfd⟩
  | fsyncDir => simp only [step] at hs; cases hs; exact ⟨hc, hd, hdi, hfd⟩

theorem frozen_run {i : Nat} {c : Content} (es : List Sys) :
    ∀ (s : FS), i < s.next → Frozen s i c → (∀ e ∈ es, e.isOpenWr = false) →
      Frozen (run s es) i c := by
  induction es with
  | nil => intro s _ h _; exact h
  | cons e es ih =>
    intro s hlt h hes
    rw [run_cons]
    unfold exec
    cases hstep : step s e with
    | error er => exact ih s hlt h (fun e' he' => hes e' (by simp [he']))
    | ok s' =>
      have := step_next_le hstep
      exact ih s' (by omega) (frozen_step hlt h (hes e (by simp)) hstep)
        (fun e' he' => hes e' (by simp [he']))

theorem run_wf {s : FS} (h : WF s) (es : List Sys) : WF (run s es) := by
  induction es generalizing s with
  | nil => exact h
  | cons e es ih =>
    rw [run_cons]
    unfold exec
    cases hstep : step s e with
    | error er => exact ih h
    | ok s' => exact ih (step_wf h hstep)

theorem run_append (s : FS) (a b : List Sys) : run s (a ++ b) = run (run s a) b := by
  simp [run, List.foldl_append]

theorem settled_frozen {s : FS} {dest : Path} {c : Content} {i : Nat}
    (h : Settled s dest (some c)) (hi : s.names dest = some i) : Frozen s i c := by
  obtain ⟨j, hn, rest⟩ := h
  rw [hn] at hi; cases hi
  exact rest

theorem performed_no_openWr {es : List Sys} (h : ∀ e ∈ es, e.isOpenWr = false) (s : FS) :
    ∀ e ∈ performed s es, e.isOpenWr = false := by
  induction es generalizing s with
  | nil => intro e he; simp [performed] at he
  | cons x xs ih =>
    intro e he
    simp only [performed] at he
    cases hstep : step s x with
    | error er => simp [hstep] at he
    | ok s' =>
      simp only [hstep, List.mem_cons] at he
      rcases he with rfl | he
      · exact h e (by simp)
      · exact ih (fun e' he' => h e' (by simp [he'])) s' e he

theorem prog_no_openWr (sv : Save) (dest : Path) : ∀ e ∈ sv.prog dest, e.isOpenWr = false := by
  intro e he
  unfold Save.prog at he
  have hp : ∀ e ∈ probeOps sv.pr, e.isOpenWr = false := by
    intro e he
    simp only [probeOps] at he
    cases ho : sv.pr.outcome <;> simp [ho] at he
    all_goals rcases he with he | he | he | he | he | he <;> subst he <;> rfl
  have hw : ∀ e ∈ sv.chunks.map (Sys.write sv.fd), e.isOpenWr = false := by
    intro e he
    simp at he
    obtain ⟨d, _, rfl⟩ := he
    rfl
  split at he
  · simp only [startFail, List.mem_cons, List.not_mem_nil, or_false] at he
    rcases he with he | he | he <;> subst he <;> rfl
  · split at he
    · simp only [atomicWrite, stageOps, List.mem_append] at he
      rcases he with (((he | he) | he) | he) | he
      · exact hp e he
      · simp at he; subst he; rfl
      · exact hw e he
      · simp at he; rcases he with he | he <;> subst he <;> rfl
      · simp at he; subst he; rfl
    · simp only [pendingAbort, List.mem_append] at he
      rcases he with ((he | he) | he) | he
      · exact hp e he
      · simp at he; subst he; rfl
      · exact hw e he
      · simp at he; rcases he with he | he <;> subst he <;> rfl

end AGH.C14
