/-
C20 helper lemmas, part 7: `qLogReader.seekTS` / `SeekStart` over rotated +
current files with timestamps strictly increasing across the files.  Core only.
-/
import AGH.Lemmas.QLogReader
namespace AGH.C20
open AGH

/-- The reader states agree except that buffers may have been dropped. -/
def SameUpToBuf (r r' : RState) : Prop :=
  r'.curN = r.curN ∧ r'.files.length = r.files.length ∧
  ∀ k, (r'.files.getD k {}).position = (r.files.getD k {}).position ∧
    ((r'.files.getD k {}) = (r.files.getD k {}) ∨ (r'.files.getD k {}).hasBuf = false)

theorem SameUpToBuf.refl (r : RState) : SameUpToBuf r r :=
  ⟨rfl, rfl, fun _ => ⟨rfl, Or.inl rfl⟩⟩

theorem SameUpToBuf.trans {a b c : RState} (h1 : SameUpToBuf a b) (h2 : SameUpToBuf b c) :
    SameUpToBuf a c := by
  refine ⟨h2.1.trans h1.1, h2.2.1.trans h1.2.1, fun k => ?_⟩
  obtain ⟨p1, b1⟩ := h1.2.2 k
  obtain ⟨p2, b2⟩ := h2.2.2 k
  refine ⟨p2.trans p1, ?_⟩
  rcases b2 with h | h
  · rw [h]; exact b1
  · exact Or.inr h

theorem filePos_sameBuf (P : Params) (lines : List Bytes) (c : Nat) (q q' : QState)
    (h : FilePos P lines c q) (hp : q'.position = q.position) (hb : q' = q ∨ q'.hasBuf = false) :
    FilePos P lines c q' := by
  rcases hb with hb | hb
  · rw [hb]; exact h
  · exact ⟨h.1, hp ▸ h.2.1, by intro h'; rw [hb] at h'; cases h'⟩

theorem rpos_sameBuf (P : Params) (ds : List FileDesc) (r r' : RState) (rem : List Bytes)
    (h : RPos P ds r rem) (hs : SameUpToBuf r r') : RPos P ds r' rem := by
  rcases h with ⟨h0, hr⟩ | ⟨j, d, c, hcur, hd, hq, hrem⟩
  · exact Or.inl ⟨hs.1 ▸ h0, hr⟩
  · exact Or.inr ⟨j, d, c, hs.1 ▸ hcur, hd,
      filePos_sameBuf P _ _ _ _ hq (hs.2.2 j).1 (hs.2.2 j).2, hrem⟩

/-- Dropping the buffer of file `i`. -/
theorem sameUpToBuf_set (r : RState) (i : Nat) (q : QState)
    (hq : q = { (r.files.getD i {}) with hasBuf := false }) :
    SameUpToBuf r { r with files := r.files.set i q } := by
  refine ⟨rfl, by simp, fun k => ?_⟩
  by_cases hk : i = k
  · subst hk
    by_cases hi : i < r.files.length
    · show ((r.files.set i q).getD i {}).position = _ ∧ _
      rw [getD_set_eq _ _ _ _ hi, hq]
      exact ⟨rfl, Or.inr rfl⟩
    · show ((r.files.set i q).getD i {}).position = _ ∧ _
      rw [List.set_eq_of_length_le (by omega)]
      exact ⟨rfl, Or.inl rfl⟩
  · show ((r.files.set i q).getD k {}).position = _ ∧ _
    rw [getD_set_ne _ _ _ _ _ hk]
    exact ⟨rfl, Or.inl rfl⟩

section
variable (P : Params) (tsOf : Bytes → Int) (target : Int) (ds : List FileDesc)

/-- Line files whose timestamps are non-zero and strictly increasing across the
whole sequence rotated → current. -/
structure GlobalCtx : Prop where
  rd : ∀ d ∈ ds, readable d = true
  nz : ∀ d ∈ ds, ∀ l ∈ d.lines, tsOf l ≠ 0
  sorted : (ds.flatMap (fun d => d.lines)).Pairwise (fun a b => tsOf a < tsOf b)
  small : ∀ d ∈ ds, (render d.lines).length < 2 ^ 63

theorem GlobalCtx.file (g : GlobalCtx tsOf ds) (d : FileDesc) (hd : d ∈ ds) : SeekCtx tsOf d.lines := by
  refine ⟨((readable_iff d).1 (g.rd d hd)).2, g.nz d hd, ?_⟩
  obtain ⟨pre, post, rfl⟩ := List.append_of_mem hd
  have := g.sorted
  simp only [List.flatMap_append, List.flatMap_cons] at this
  rw [List.pairwise_append, List.pairwise_append] at this
  exact this.2.1.1

/-- Entries of an older file are earlier than entries of a newer file. -/
theorem GlobalCtx.cross (g : GlobalCtx tsOf ds) (j j' : Nat) (d d' : FileDesc)
    (hd : ds[j]? = some d) (hd' : ds[j']? = some d') (hjj : j < j') :
    ∀ a ∈ d.lines, ∀ b ∈ d'.lines, tsOf a < tsOf b := by
  intro a ha b hb
  have hj' := (List.getElem?_eq_some_iff.1 hd').1
  have hsplit : ds = ds.take j' ++ d' :: ds.drop (j' + 1) := by
    conv => lhs; rw [← List.take_append_drop j' ds, List.drop_eq_getElem_cons hj']
    rw [(List.getElem?_eq_some_iff.1 hd').2]
  have hdm : d ∈ ds.take j' := by
    rw [List.mem_take_iff_getElem]
    exact ⟨j, by omega, (List.getElem?_eq_some_iff.1 hd).2⟩
  have := g.sorted
  rw [hsplit] at this
  simp only [List.flatMap_append, List.flatMap_cons] at this
  rw [List.pairwise_append] at this
  exact this.2.2 a (List.mem_flatMap.2 ⟨d, hdm, ha⟩) b (by simp [hb])

theorem getD_fs (j : Nat) (d : FileDesc) (hd : ds[j]? = some d) (hr : readable d = true) :
    (ds.map fileOfDesc).getD j noFile = fileOfLines d.lines := by
  rw [getD_map_fileOfDesc ds j d hd, fileOfDesc_readable d hr]

/-- The timestamp is stored in file `j`, line `k`: every newer file reports
too-early, file `j` finds it; the reader ends on that entry. -/
theorem rSeekLoop_found (hP1 : entryLimit ≤ P.maxEntry) (g : GlobalCtx tsOf ds)
    (j k : Nat) (d : FileDesc) (hd : ds[j]? = some d) (hk : k < d.lines.length)
    (hts : tsOf d.lines[k] = target) :
    ∀ (i : Nat) (r : RState), j < i → i ≤ ds.length → r.files.length = ds.length →
      ∃ r', rSeekLoop P (ds.map fileOfDesc) tsOf target i r = (r', .ok ()) ∧ r'.curN = j + 1 ∧
        r'.files.length = ds.length ∧ FilePos P d.lines (k + 1) (r'.files.getD j {}) := by
  have hdm : d ∈ ds := List.mem_of_getElem? hd
  intro i
  induction i with
  | zero => intro r h; omega
  | succ i ih =>
    intro r hji hile hlen
    by_cases hij : i = j
    · subst hij
      obtain ⟨dd, _, hseek⟩ := seekTS_found P tsOf target d.lines hP1 (g.file tsOf ds d hdm) (g.small d hdm) k hk hts
        (r.files.getD i {})
      refine ⟨{ files := r.files.set i { (r.files.getD i {}) with
          hasBuf := false, position := (render (d.lines.take (k + 1))).length - 1 }, curN := i + 1 },
        ?_, rfl, by simp [hlen], ?_⟩
      · rw [rSeekLoop, getD_fs ds i d hd (g.rd d hdm), hseek]
      · show FilePos P d.lines (k + 1) ((r.files.set i _).getD i {})
        rw [getD_set_eq _ _ _ _ (by omega)]
        exact ⟨by omega, rfl, by intro h; simp at h⟩
    · have hilt : i < ds.length := by omega
      let d' := ds[i]
      have hd' : ds[i]? = some d' := List.getElem?_eq_getElem hilt
      have hdm' : d' ∈ ds := List.getElem_mem hilt
      have hcross := g.cross tsOf ds j i d d' hd hd' (by omega)
      have hgt : ∀ l ∈ d'.lines, target < tsOf l := by
        intro l hl; rw [← hts]; exact hcross _ (List.getElem_mem hk) l hl
      have habs : ∀ l ∈ d'.lines, tsOf l ≠ target := by
        intro l hl; have := hgt l hl; omega
      have hseek := seekTS_absent P tsOf target d'.lines hP1 (g.file tsOf ds d' hdm') (g.small d' hdm') habs
        (r.files.getD i {})
      have hcls : absentErr tsOf target d'.lines = .tooEarly := by
        unfold absentErr; simp only [if_pos hgt]
      obtain ⟨r', h1, h2, h3, h4⟩ := ih { r with files := r.files.set i _ } (by omega) (by omega) (by simp [hlen])
      refine ⟨r', ?_, h2, h3, h4⟩
      rw [rSeekLoop, getD_fs ds i d' hd' (g.rd d' hdm'), hseek, hcls]
      exact h1

theorem rSeekStart_rpos (hne : ds ≠ []) (r : RState) (hlen : r.files.length = ds.length)
    (hrd : ∀ d ∈ ds, readable d = true) :
    RPos P ds (rSeekStart (ds.map fileOfDesc) r) (allRev ds) ∧
      (rSeekStart (ds.map fileOfDesc) r).files.length = ds.length := by
  obtain ⟨n, hn⟩ : ∃ n, ds.length = n + 1 := ⟨ds.length - 1, by
    have : ds.length ≠ 0 := fun h => hne (List.eq_nil_of_length_eq_zero h)
    omega⟩
  have hnlt : n < ds.length := by omega
  let d := ds[n]
  have hd : ds[n]? = some d := List.getElem?_eq_getElem hnlt
  have hdm : d ∈ ds := List.getElem_mem hnlt
  have hfs : (ds.map fileOfDesc).length = n + 1 := by simp [hn]
  unfold rSeekStart
  rw [hfs]
  simp only
  constructor
  · right
    refine ⟨n, d, d.lines.length, rfl, hd, ?_, ?_⟩
    · show FilePos P d.lines d.lines.length ((r.files.set n _).getD n {})
      rw [getD_set_eq _ _ _ _ (by omega)]
      have := getD_fs ds n d hd (hrd d hdm)
      simp only [noFile] at this
      rw [this]
      exact filePos_seekStart P d.lines _
    · have h1 := allRev_take_succ ds n d hd
      rw [← hn, List.take_length] at h1
      rw [h1]; simp
  · simp [hlen]

/-- The timestamp is stored nowhere: either `not found` is reported and nothing
moved, or some non-empty file lies wholly before it and the reader starts over
at the newest entry. -/
theorem rSeekLoop_absent (hP1 : entryLimit ≤ P.maxEntry) (g : GlobalCtx tsOf ds) (hne : ds ≠ [])
    (habs : ∀ d ∈ ds, ∀ l ∈ d.lines, tsOf l ≠ target) :
    ∀ (i : Nat) (r : RState), i ≤ ds.length → r.files.length = ds.length →
      (∃ r', rSeekLoop P (ds.map fileOfDesc) tsOf target i r = (r', .error .notFound) ∧
        SameUpToBuf r r') ∨
      (∃ r', rSeekLoop P (ds.map fileOfDesc) tsOf target i r = (r', .ok ()) ∧
        RPos P ds r' (allRev ds) ∧ r'.files.length = ds.length ∧
        ∃ d ∈ ds, d.lines ≠ [] ∧ ∀ l ∈ d.lines, tsOf l < target) := by
  intro i
  induction i with
  | zero =>
    intro r _ _
    left
    refine ⟨r, ?_, SameUpToBuf.refl r⟩
    simp [rSeekLoop, hne]
  | succ i ih =>
    intro r hile hlen
    have hilt : i < ds.length := by omega
    let d' := ds[i]
    have hd' : ds[i]? = some d' := List.getElem?_eq_getElem hilt
    have hdm' : d' ∈ ds := List.getElem_mem hilt
    have hseek := seekTS_absent P tsOf target d'.lines hP1 (g.file tsOf ds d' hdm') (g.small d' hdm')
      (habs d' hdm') (r.files.getD i {})
    have hsame := sameUpToBuf_set r i { (r.files.getD i {}) with hasBuf := false } rfl
    rw [rSeekLoop, getD_fs ds i d' hd' (g.rd d' hdm'), hseek]
    unfold absentErr
    by_cases h1 : ∀ l ∈ d'.lines, target < tsOf l
    · simp only [if_pos h1]
      rcases ih { r with files := r.files.set i _ } (by omega) (by simp [hlen]) with ⟨r', h2, h3⟩ | ⟨r', h2, h3⟩
      · exact Or.inl ⟨r', h2, hsame.trans h3⟩
      · exact Or.inr ⟨r', h2, h3⟩
    · simp only [if_neg h1]
      by_cases h2 : ∀ l ∈ d'.lines, tsOf l < target
      · simp only [if_pos h2]
        right
        obtain ⟨hp, hl⟩ := rSeekStart_rpos P ds hne { r with files := r.files.set i _ } (by simp [hlen]) g.rd
        refine ⟨_, rfl, hp, hl, d', hdm', ?_, h2⟩
        intro he; apply h1; rw [he]; intro l hl; cases hl
      · simp only [if_neg h2]
        exact Or.inl ⟨_, rfl, hsame⟩

end
end AGH.C20
