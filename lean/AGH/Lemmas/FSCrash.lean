/-
C14: lemmas about the crash models of AGH/Spec/Crash.lean.
-/
import AGH.Spec.Crash
import AGH.Lemmas.FSRollback
namespace AGH.C14
open AGH

/-- Whatever is lost, every entry of the surviving directory has the value it had
in the durable directory or in one of the snapshots. -/
theorem lossy_entry {cur : Dir} {snaps : List Dir} {out : Dir} (h : Lossy cur snaps out)
    (p : Path) : out p = cur p ∨ ∃ d ∈ snaps, out p = d p := by
  induction h with
  | last cur b => exact Or.inl rfl
  | @keep cur b a rest out _ ih =>
    rcases ih with h | ⟨d, hd, h⟩
    · by_cases hb : b p = a p
      · left; simp [h, applyOp, hb]
      · right; exact ⟨a, by simp, by simp [h, applyOp, hb]⟩
    · right; exact ⟨d, by simp only [List.mem_cons] at hd ⊢; exact Or.inr hd, h⟩
  | @lose cur b a rest out _ ih =>
    rcases ih with h | ⟨d, hd, h⟩
    · exact Or.inl h
    · right; exact ⟨d, by simp only [List.mem_cons] at hd ⊢; exact Or.inr hd, h⟩

theorem dirSnaps_ne_nil (s : FS) (es : List Sys) : dirSnaps s es ≠ [] := by
  induction es generalizing s with
  | nil => simp [dirSnaps]
  | cons e es ih =>
    simp only [dirSnaps]
    split
    · exact ih _
    · simp

/-- Every snapshot is the directory at some instant of the replay. -/
theorem dirSnaps_instant {s : FS} {es : List Sys} {d : Dir} (h : d ∈ dirSnaps s es) :
    ∃ j, d = (run s (es.take j)).names := by
  induction es generalizing s with
  | nil => simp [dirSnaps] at h; exact ⟨0, by simp [h, run]⟩
  | cons e es ih =>
    simp only [dirSnaps] at h
    split at h
    · obtain ⟨j, hj⟩ := ih h
      exact ⟨j + 1, by simpa [List.take_succ_cons, run_cons] using hj⟩
    · simp only [List.mem_cons] at h
      rcases h with h | h
      · exact ⟨0, by simp [h, run]⟩
      · obtain ⟨j, hj⟩ := ih h
        exact ⟨j + 1, by simpa [List.take_succ_cons, run_cons] using hj⟩

theorem dirSnaps_last (s : FS) (es : List Sys) : (run s es).names ∈ dirSnaps s es := by
  induction es generalizing s with
  | nil => simp [dirSnaps, run]
  | cons e es ih =>
    simp only [dirSnaps, run_cons]
    split
    · exact ih _
    · exact List.mem_cons_of_mem _ (ih _)

/-- Without an `fsync(dir)` in the trace, losing everything is admissible in the
ordered model: the first snapshot is the directory the trace started from. -/
theorem dirSnaps_start {s : FS} {es : List Sys} (h : ∀ e ∈ es, e ≠ Sys.fsyncDir) :
    s.names ∈ dirSnaps s es := by
  cases es with
  | nil => simp [dirSnaps]
  | cons e es =>
    simp only [dirSnaps]
    split
    · rename_i he; exact absurd he (h e (by simp))
    · simp

theorem applyOp_self (b a : Dir) : applyOp b b a = a := by
  funext p
  simp only [applyOp]
  split
  · assumption
  · rfl

/-- A prefix of the pending operations is an admissible loss set. -/
theorem lossy_prefix (cur : Dir) (rest : List Dir) {x : Dir} (hx : x ∈ cur :: rest) :
    Lossy cur (cur :: rest) x := by
  induction rest generalizing cur with
  | nil => simp at hx; subst hx; exact Lossy.last _ _
  | cons a rest ih =>
    simp only [List.mem_cons] at hx
    rcases hx with rfl | hx
    · -- lose everything that is pending
      have : ∀ (l : List Dir) (b : Dir), Lossy x (b :: l) x := by
        intro l
        induction l with
        | nil => intro b; exact Lossy.last _ _
        | cons c l ihl => intro b; exact Lossy.lose (ihl c)
      exact this _ _
    · apply Lossy.keep
      rw [applyOp_self]
      exact ih a (by simpa [List.mem_cons] using hx)

/-! ## All instants of successive saves, as one replayed trace -/

/-- The syscalls actually performed by successive saves, concatenated. -/
def performedSaves (s : FS) (dest : Path) : List Save → List Sys
  | [] => []
  | sv :: rest =>
    performed s (sv.prog dest) ++ performedSaves (runAbort s (sv.prog dest)).1 dest rest

theorem performedSaves_no_openWr (dest : Path) (svs : List Save) :
    ∀ (s : FS), ∀ e ∈ performedSaves s dest svs, e.isOpenWr = false := by
  induction svs with
  | nil => intro s e he; simp [performedSaves] at he
  | cons sv rest ih =>
    intro s e he
    simp only [performedSaves, List.mem_append] at he
    rcases he with he | he
    · exact performed_no_openWr (prog_no_openWr sv dest) s e he
    · exact ih _ e he

theorem run_performedSaves (dest : Path) (svs : List Save) :
    ∀ (s : FS), run s (performedSaves s dest svs) = runSaves s dest svs := by
  induction svs with
  | nil => intro s; rfl
  | cons sv rest ih =>
    intro s
    simp only [performedSaves, run_append, run_performed, runSaves, List.foldl_cons]
    exact ih _

/-- At EVERY instant of the concatenated trace the destination is settled at one
of the complete versions (initial, or saved so far). -/
theorem saves_instants (dest : Path) (svs : List Save) :
    ∀ (s₀ : FS) (old : Option Content), WF s₀ → Settled s₀ dest old →
      (∀ sv ∈ svs, TempNames sv.pr sv.tmp dest) → ∀ j,
      WF (run s₀ ((performedSaves s₀ dest svs).take j)) ∧
        ∃ v, v ∈ old :: svs.map (fun sv => some sv.new) ∧
          Settled (run s₀ ((performedSaves s₀ dest svs).take j)) dest v := by
  induction svs with
  | nil =>
    intro s₀ old hwf h0 _ j
    simp only [performedSaves, List.take_nil, run, List.foldl_nil]
    exact ⟨hwf, old, by simp, h0⟩
  | cons sv rest ih =>
    intro s₀ old hwf h0 hn j
    have hsv := hn sv (by simp)
    have hrest : ∀ x ∈ rest, TempNames x.pr x.tmp dest := fun x hx => hn x (by simp [hx])
    simp only [performedSaves]
    by_cases hj : j ≤ (performed s₀ (sv.prog dest)).length
    · rw [List.take_append_of_le_length hj, run_performed_take]
      have h1 := save_prefix sv hwf h0 hsv j
      refine ⟨h1.1, ?_⟩
      rcases h1.2 with h | h
      · exact ⟨old, by simp, h⟩
      · exact ⟨some sv.new, by simp, h⟩
    · have hle : (performed s₀ (sv.prog dest)).length ≤ j := by omega
      rw [List.take_append, List.take_of_length_le hle, run_append, run_performed]
      have h1 := save_prefix sv hwf h0 hsv (sv.prog dest).length
      simp only [List.take_length] at h1
      rcases h1.2 with h | h
      · obtain ⟨hw, v, hv, hs⟩ := ih _ old h1.1 h hrest (j - (performed s₀ (sv.prog dest)).length)
        refine ⟨hw, v, ?_, hs⟩
        simp only [List.map_cons, List.mem_cons] at hv ⊢
        rcases hv with hv | hv
        · exact Or.inl hv
        · exact Or.inr (Or.inr hv)
      · obtain ⟨hw, v, hv, hs⟩ :=
          ih _ (some sv.new) h1.1 h hrest (j - (performed s₀ (sv.prog dest)).length)
        refine ⟨hw, v, ?_, hs⟩
        simp only [List.map_cons, List.mem_cons] at hv ⊢
        rcases hv with hv | hv
        · exact Or.inr (Or.inl hv)
        · exact Or.inr (Or.inr hv)

/-- An inode installed at `dest` at instant `j` is still frozen at instant `k ≥ j`. -/
theorem settled_stays_frozen {dest : Path} {s₀ : FS} (hwf : WF s₀) {es : List Sys}
    (hes : ∀ e ∈ es, e.isOpenWr = false) {j k : Nat} (hjk : j ≤ k) {i : Nat} {c : Content}
    (hi : (run s₀ (es.take j)).names dest = some i)
    (hs : Settled (run s₀ (es.take j)) dest (some c)) : Frozen (run s₀ (es.take k)) i c := by
  have hsplit : es.take k = es.take j ++ (es.take k).drop j := by
    have h1 : (es.take k).take j = es.take j := by
      rw [List.take_take, Nat.min_eq_left hjk]
    rw [← h1]; exact (List.take_append_drop j (es.take k)).symm
  have hfr := settled_frozen hs hi
  have hlt := (run_wf hwf (es.take j)).names_lt dest i hi
  have hrest : ∀ e ∈ (es.take k).drop j, e.isOpenWr = false :=
    fun e he => hes e (List.mem_of_mem_take (List.mem_of_mem_drop he))
  have hf := frozen_run ((es.take k).drop j) (run s₀ (es.take j)) hlt hfr hrest
  rw [← run_append, ← hsplit] at hf
  exact hf

end AGH.C14
