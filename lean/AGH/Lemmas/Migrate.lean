/-
Helper lemmas for C13 (core Lean only): association lists, the `yaml.go`
primitives, and the per-step facts the property theorems are assembled from.
-/
import AGH.Spec.Migrate
namespace AGH.C13
open AGH

/-! ### association lists -/

theorem lookup_insert_same (k : Key) (v : YVal) (es : List (Key × YVal)) :
    lookup k (insert k v es) = some v := by
  induction es with
  | nil => simp [insert, lookup]
  | cons e es ih =>
    obtain ⟨k', v'⟩ := e
    unfold insert
    by_cases h : k' = k
    · simp [h, lookup]
    · simp [h, lookup, ih]

theorem lookup_insert_ne (k k' : Key) (v : YVal) (es : List (Key × YVal)) (h : k ≠ k') :
    lookup k' (insert k v es) = lookup k' es := by
  induction es with
  | nil => simp [insert, lookup, h]
  | cons e es ih =>
    obtain ⟨k'', v''⟩ := e
    unfold insert
    by_cases h1 : k'' = k
    · subst h1; simp [lookup, h]
    · simp only [h1, if_false, lookup, ih]

theorem lookup_erase_ne (k k' : Key) (es : List (Key × YVal)) (h : k ≠ k') :
    lookup k' (erase k es) = lookup k' es := by
  induction es with
  | nil => simp [erase, lookup]
  | cons e es ih =>
    obtain ⟨k'', v''⟩ := e
    unfold erase
    by_cases h1 : k'' = k
    · subst h1; simp [lookup, h, ih]
    · simp only [h1, if_false, lookup, ih]

/-! ### objects -/

/-- The value is a non-nil map. -/
def IsObj : YVal → Prop
  | .obj _ => True
  | _ => False

theorem IsObj.elim {v : YVal} (h : IsObj v) : ∃ es, v = .obj es := by
  cases v <;> simp [IsObj] at h
  exact ⟨_, rfl⟩

theorem isObj_obj (es) : IsObj (.obj es) := trivial

theorem setK_obj {m : YVal} (h : IsObj m) (k : Key) (v : YVal) :
    ∃ es, setK m k v = .ok (.obj es) ∧ lookup k es = some v ∧
      ∀ k', k ≠ k' → lookup k' es = getK m k' := by
  obtain ⟨es, rfl⟩ := h.elim
  exact ⟨_, rfl, lookup_insert_same _ _ _, fun k' hk => lookup_insert_ne _ _ _ _ hk⟩

theorem putK_isObj {m : YVal} (h : IsObj m) (k : Key) (v : YVal) : IsObj (putK m k v) := by
  obtain ⟨es, rfl⟩ := h.elim; trivial

theorem delK_isObj {m : YVal} (h : IsObj m) (k : Key) : IsObj (delK m k) := by
  obtain ⟨es, rfl⟩ := h.elim; trivial

theorem getK_putK_same {m : YVal} (h : IsObj m) (k : Key) (v : YVal) : getK (putK m k v) k = some v := by
  obtain ⟨es, rfl⟩ := h.elim; exact lookup_insert_same _ _ _

theorem getK_putK_ne (m : YVal) (k k' : Key) (v : YVal) (h : k ≠ k') : getK (putK m k v) k' = getK m k' := by
  cases m <;> simp [putK, getK]
  exact lookup_insert_ne _ _ _ _ h

theorem getK_delK_ne (m : YVal) (k k' : Key) (h : k ≠ k') : getK (delK m k) k' = getK m k' := by
  cases m <;> simp [delK, getK]
  exact lookup_erase_ne _ _ _ h

/-! ### fieldVal -/

theorem fieldVal_obj_ok {m : YVal} {k : Key} (h : (fieldVal .obj m k).ok = true) :
    IsObj (fieldVal .obj m k).v := by
  unfold fieldVal at *
  cases hg : getK m k with
  | none => simp [hg] at h
  | some v =>
    cases v <;> simp [hg, hasTy] at h ⊢ <;> trivial

theorem fieldVal_arr_ok {m : YVal} {k : Key} (h : (fieldVal .arr m k).ok = true) :
    ∃ xs, (fieldVal .arr m k).v = .arr xs := by
  unfold fieldVal at *
  cases hg : getK m k with
  | none => simp [hg] at h
  | some v =>
    cases v <;> simp [hg, hasTy, zeroOf] at h ⊢

theorem fieldVal_str_ok {m : YVal} {k : Key} (h : (fieldVal .str m k).ok = true) :
    ∃ s, (fieldVal .str m k).v = .str s := by
  unfold fieldVal at *
  cases hg : getK m k with
  | none => simp [hg] at h
  | some v =>
    cases v <;> simp [hg, hasTy, zeroOf] at h ⊢

/-! ### per-step facts -/

def topKeys : List Path → List Key
  | [] => []
  | (.key k :: _) :: r => k :: topKeys r
  | _ :: r => topKeys r

/-- What a step guarantees on a non-nil map document: no panic; on success the
result is a non-nil map, carries the stamp `n`, and every top-level key the
step does not concern is as before. -/
def StepOK (n : Nat) (d : YVal) (r : M YVal) : Prop :=
  match r with
  | .ok d' => IsObj d' ∧ getK d' kSchemaVersion = some (.int n) ∧
      ∀ k, k ∉ topKeys (touched n) → getK d' k = getK d k
  | .error (.panic _) => False
  | .error _ => True

def NoPanic {α} (r : M α) : Prop := ∀ p, r ≠ .error (.panic p)

/-- `val.(T)` succeeded: the shape of the value. -/
def TyVal : Ty → YVal → Prop
  | .int, v => ∃ i, v = .int i
  | .str, v => ∃ s, v = .str s
  | .bool, v => ∃ b, v = .bool b
  | .obj, v => ∃ es, v = .obj es
  | .arr, v => ∃ xs, v = .arr xs
  | .any, _ => True

theorem fieldVal_cases {T : Ty} {m : YVal} {k : Key} {r : FV} (h : fieldVal T m k = r) :
    (∃ v, r = ⟨v, true, false⟩ ∧ TyVal T v) ∨
    r = ⟨zeroOf T, false, false⟩ ∨ r = ⟨zeroOf T, false, true⟩ := by
  subst h
  unfold fieldVal
  cases hg : getK m k with
  | none => simp
  | some v =>
    cases T <;> cases v <;> simp [hasTy, zeroOf, TyVal]

theorem lookup_insert_ne' (k k' : Key) (v : YVal) (es : List (Key × YVal)) (h : ¬ k' = k) :
    lookup k' (insert k v es) = lookup k' es := lookup_insert_ne k k' v es (fun e => h e.symm)

theorem lookup_erase_ne' (k k' : Key) (es : List (Key × YVal)) (h : ¬ k' = k) :
    lookup k' (erase k es) = lookup k' es := lookup_erase_ne k k' es (fun e => h e.symm)

/-- Split on the next `fieldVal` in the goal. -/
macro "fv_split" : tactic => `(tactic| (
  generalize hfv : fieldVal _ _ _ = r at *
  fail_if_success (clear hfv r)
  rcases fieldVal_cases hfv with ⟨v, hr, hty⟩ | hr | hr <;> subst hr <;> clear hfv <;>
  simp only [if_true, if_false, Bool.false_eq_true, Bool.not_true, Bool.not_false, Bool.and_true,
    Bool.and_false, Bool.true_and, Bool.false_and, Bool.or_false, Bool.or_true] <;>
  (try (simp only [TyVal] at hty; obtain ⟨w, hw⟩ := hty; subst hw)) <;> (try dsimp only)))

/-- Unfold one step and the constants it uses. -/
macro "open_step" : tactic => `(tactic| (
  simp only [migrateTo1, migrateTo2, migrateTo3, migrateTo5, migrateTo8, migrateTo9, migrateTo11, migrateTo12,
    migrateTo13, migrateTo14, migrateTo16, migrateTo17, migrateTo18, migrateTo20, migrateTo21, migrateTo23,
    migrateTo25, migrateTo28, stamp, setK, moveVal, moveSelf,
    v14Runtime, v14Clients, v15Qlog, v16Stats, safeSearchDefault, scheduleDefault, v25Pprof]))

macro "pre_simp" : tactic => `(tactic| (
  simp (config := {decide := true}) only [bail, typeErr, putK, delK, setK,
    zeroOf, intOf, bytesOf, boolOf, isEmptyObj, v14Runtime, v14Clients, v15Qlog, v16Stats, safeSearchDefault,
    scheduleDefault, v25Pprof, if_true, if_false, Bool.false_eq_true] at *))

macro "fin_simp" : tactic => `(tactic| (
  simp (config := {decide := true}) [StepOK, NoPanic, bail, typeErr, putK, getK, delK, setK, IsObj, topKeys, touched, sv, pk,
    dnsP, stampKey, zeroOf, TyVal, intOf, bytesOf, boolOf, isEmptyObj, v14Runtime, v14Clients, v15Qlog, v16Stats,
    safeSearchDefault, scheduleDefault, v25Pprof,
    lookup_insert_ne, lookup_insert_same, lookup_erase_ne, lookup_insert_ne', lookup_erase_ne'] at *))

macro "fin" : tactic => `(tactic| (
  (try pre_simp) <;> (repeat' split) <;> (try fin_simp) <;>
  (try (intros; simp_all (config := {decide := true}) [lookup_insert_ne', lookup_erase_ne']))))

macro "auto_step" : tactic => `(tactic| ((repeat' fv_split) <;> fin))

/-! mapM' -/

theorem mapM'_noPanic {f : YVal → M YVal} (hf : ∀ x, NoPanic (f x)) (xs : List YVal) :
    NoPanic (mapM' f xs) := by
  induction xs with
  | nil => intro p h; simp [mapM'] at h
  | cons x xs ih =>
    intro p h
    unfold mapM' at h
    cases hx : f x with
    | error e =>
      rw [hx] at h; simp at h; subst h; exact hf x p hx
    | ok y =>
      rw [hx] at h
      cases hxs : mapM' f xs with
      | error e => rw [hxs] at h; simp at h; subst h; exact ih p hxs
      | ok ys => rw [hxs] at h; simp at h

theorem stepOK_of_noPanic_error {n d} {e : Fault} {r : M (List YVal)} (h : NoPanic r) (hr : r = .error e) :
    StepOK n d (.error e) := by
  cases e with
  | panic p => exact absurd hr (h p)
  | err k => trivial
  | oracle => trivial

/-! moves -/

theorem moveVal_spec (T : Ty) (src : YVal) (ds : List (Key × YVal)) (sk dk : Key) :
    ∃ src' ds' e, moveVal T src (.obj ds) sk dk = .ok (src', .obj ds', e) ∧
      (∀ k, ¬ k = sk → getK src' k = getK src k) ∧ (IsObj src → IsObj src') := by
  unfold moveVal
  generalize hfv : fieldVal T src sk = r
  rcases fieldVal_cases hfv with ⟨v, hr, _⟩ | hr | hr <;> subst hr
  · refine ⟨delK src sk, insert dk v ds, false, by simp [setK], ?_, fun h => delK_isObj h _⟩
    intro k hk; exact getK_delK_ne _ _ _ (fun e => hk e.symm)
  · exact ⟨src, ds, false, by simp, fun _ _ => rfl, id⟩
  · exact ⟨src, ds, true, by simp, fun _ _ => rfl, id⟩

def srcKeys : List (Ty × Key × Key) → List Key
  | [] => []
  | (_, sk, _) :: r => sk :: srcKeys r

theorem moves_spec (ms : List (Ty × Key × Key)) (src : YVal) (ds : List (Key × YVal)) :
    ∃ src' ds' e, moves ms src (.obj ds) = .ok (src', .obj ds', e) ∧
      (∀ k, k ∉ srcKeys ms → getK src' k = getK src k) ∧ (IsObj src → IsObj src') := by
  induction ms generalizing src ds with
  | nil => exact ⟨src, ds, false, rfl, fun _ _ => rfl, id⟩
  | cons m ms ih =>
    obtain ⟨T, sk, dk⟩ := m
    obtain ⟨s1, d1, e1, h1, hf1, ho1⟩ := moveVal_spec T src ds sk dk
    obtain ⟨s2, d2, e2, h2, hf2, ho2⟩ := ih s1 d1
    refine ⟨s2, d2, e1 || e2, ?_, ?_, fun h => ho2 (ho1 h)⟩
    · simp [moves, h1, h2]
    · intro k hk
      simp [srcKeys] at hk
      rw [hf2 k hk.2, hf1 k hk.1]

end AGH.C13
