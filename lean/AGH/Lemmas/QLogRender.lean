/-
C20 helper lemmas, part 2: the byte layout of a line file (`render`) and the
line-level view of successive `ReadNext` calls.  Core only.
-/
import AGH.Lemmas.QLogScan
import AGH.Spec.QLogFile
namespace AGH.C20
open AGH

def fileOfLines (ls : List Bytes) : File := File.ofBytes (render ls)

theorem render_append (A B : List Bytes) : render (A ++ B) = render A ++ render B := by
  induction A with
  | nil => rfl
  | cons a A ih => simp [render, ih]

theorem render_cons_length (l : Bytes) (ls : List Bytes) :
    (render (l :: ls)).length = l.length + 1 + (render ls).length := by
  simp [render]; omega

theorem render_last (A : List Bytes) (h : A ≠ []) :
    0 < (render A).length ∧ (render A)[(render A).length - 1]? = some 10 := by
  induction A with
  | nil => exact absurd rfl h
  | cons a A ih =>
    refine ⟨by simp [render]; omega, ?_⟩
    by_cases hA : A = []
    · subst hA
      simp [render]
    · obtain ⟨h1, h2⟩ := ih hA
      have : (render (a :: A)) = (a ++ [10]) ++ render A := by simp [render]
      rw [this, List.getElem?_append_right (by simp; omega)]
      simp only [List.length_append, List.length_cons, List.length_nil]
      have : a.length + (0 + 1) + (render A).length - 1 - (a.length + (0 + 1)) = (render A).length - 1 := by omega
      rw [this]; exact h2

theorem fileOfLines_size (ls : List Bytes) : (fileOfLines ls).size = (render ls).length := rfl

theorem fileOfLines_byte (ls : List Bytes) (i : Nat) :
    (fileOfLines ls).byte i = ((render ls)[i]?).getD 0 := by
  simp [fileOfLines, File.ofBytes, List.getD_eq_getElem?_getD]

/-- Bytes of the line `l` in `A ++ l :: B`. -/
theorem byte_line (A B : List Bytes) (l : Bytes) (i : Nat) (hi : i < l.length) :
    (fileOfLines (A ++ l :: B)).byte ((render A).length + i) = l[i] := by
  rw [fileOfLines_byte, render_append, List.getElem?_append_right (by omega)]
  simp only [Nat.add_sub_cancel_left, render]
  rw [List.getElem?_append_left hi]
  simp [hi]

theorem byte_newline (A B : List Bytes) (l : Bytes) :
    (fileOfLines (A ++ l :: B)).byte ((render A).length + l.length) = 10 := by
  rw [fileOfLines_byte, render_append, List.getElem?_append_right (by omega)]
  simp only [Nat.add_sub_cancel_left, render]
  rw [List.getElem?_append_right (by omega)]
  simp

theorem byte_before (A B : List Bytes) (l : Bytes) (hA : A ≠ []) :
    (fileOfLines (A ++ l :: B)).byte ((render A).length - 1) = 10 := by
  obtain ⟨h1, h2⟩ := render_last A hA
  rw [fileOfLines_byte, render_append, List.getElem?_append_left (by omega), h2]
  rfl

theorem render_nil_iff (A : List Bytes) : (render A).length = 0 ↔ A = [] := by
  cases A with
  | nil => simp [render]
  | cons a A => simp [render]

/-- Every line of a line file is a `LineAt`. -/
theorem lineAt_split (A B : List Bytes) (l : Bytes) (hl : ¬ (10 ∈ l)) :
    LineAt (fileOfLines (A ++ l :: B)) (render A).length ((render A).length + l.length) where
  le := by omega
  lt := by
    rw [fileOfLines_size, render_append, List.length_append, render_cons_length]; omega
  nl := byte_newline A B l
  body := by
    intro i h1 h2 hc
    have hi : i - (render A).length < l.length := by omega
    have := byte_line A B l (i - (render A).length) hi
    rw [show (render A).length + (i - (render A).length) = i by omega, hc] at this
    exact hl (this ▸ List.getElem_mem hi)
  before := by
    by_cases hA : A = []
    · left; subst hA; rfl
    · right; exact byte_before A B l hA

theorem slice_line (A B : List Bytes) (l : Bytes) :
    (fileOfLines (A ++ l :: B)).slice (render A).length ((render A).length + l.length) = l := by
  unfold File.slice
  apply List.ext_getElem
  · simp
  · intro i h1 h2
    simp only [List.getElem_map, List.getElem_range]
    exact byte_line A B l i h2

/-! ### Positions of a file reader in terms of lines -/

/-- The reader of `lines` has `c` lines left to return: it stands on the newline
of line `c-1` (or at 0) and its buffer is sound. -/
def FilePos (P : Params) (lines : List Bytes) (c : Nat) (q : QState) : Prop :=
  c ≤ lines.length ∧ q.position = (render (lines.take c)).length - 1 ∧ Inv P (fileOfLines lines) q

theorem lineOK_iff (l : Bytes) : lineOK l = true ↔ l ≠ [] ∧ ¬ (10 ∈ l) ∧ l.length < entryLimit := by
  unfold lineOK
  cases l <;> simp [List.isEmpty]

/-- One `ReadNext` with `c+1` lines left returns line `c`. -/
theorem readNext_filePos (P : Params) (lines : List Bytes) (c : Nat) (q : QState)
    (hP1 : entryLimit ≤ P.maxEntry) (hP2 : P.maxEntry ≤ P.bufSize)
    (hok : ∀ l ∈ lines, lineOK l = true) (hc : c < lines.length)
    (hq : FilePos P lines (c + 1) q) :
    ∃ q' a b, readNext P (fileOfLines lines) q = (q', .ok (a, b)) ∧
      (fileOfLines lines).slice a b = lines[c] ∧ FilePos P lines c q' := by
  obtain ⟨_, hpos, hinv⟩ := hq
  have hsplit : lines = lines.take c ++ lines[c] :: lines.drop (c + 1) := by
    conv => lhs; rw [← List.take_append_drop c lines, List.drop_eq_getElem_cons hc]
  obtain ⟨hne, hnl, hlen⟩ := (lineOK_iff _).1 (hok _ (List.getElem_mem hc))
  have hlpos : 0 < lines[c].length := by
    cases h : lines[c] with
    | nil => exact absurd h hne
    | cons => simp
  have htake : (render (lines.take (c + 1))).length = (render (lines.take c)).length + lines[c].length + 1 := by
    rw [List.take_succ_eq_append_getElem hc, render_append]
    simp [render]; omega
  have hLA := lineAt_split (lines.take c) (lines.drop (c + 1)) lines[c] hnl
  rw [← hsplit] at hLA
  obtain ⟨q', h1, h2, h3⟩ := readNext_line P (fileOfLines lines) q _ _ hP2 hLA (by omega) (by omega) (by omega) hinv
  refine ⟨q', _, _, h1, ?_, by omega, h2, h3⟩
  have := slice_line (lines.take c) (lines.drop (c + 1)) lines[c]
  rw [← hsplit] at this
  exact this

theorem readNext_filePos_zero (P : Params) (lines : List Bytes) (q : QState)
    (hq : FilePos P lines 0 q) : readNext P (fileOfLines lines) q = (q, .error .eof) := by
  apply readNext_eof
  have := hq.2.1
  simpa [render] using this

/-- `n` reads with `c` lines left: the lines `c-1, c-2, …`, then `io.EOF`. -/
theorem fReadMany_filePos (P : Params) (lines : List Bytes)
    (hP1 : entryLimit ≤ P.maxEntry) (hP2 : P.maxEntry ≤ P.bufSize)
    (hok : ∀ l ∈ lines, lineOK l = true) :
    ∀ n c q acc, FilePos P lines c q →
      ∃ q' rs, fReadMany P (fileOfLines lines) n q acc =
          (q', acc.reverse ++ rs, if n > c then some Err.eof else none) ∧
        rs.map (fun r => (fileOfLines lines).slice r.1 r.2) = ((lines.take c).reverse).take n ∧
        FilePos P lines (c - n) q' := by
  intro n
  induction n with
  | zero =>
    intro c q acc hq
    exact ⟨q, [], by simp [fReadMany], by simp, by simpa using hq⟩
  | succ n ih =>
    intro c q acc hq
    cases c with
    | zero =>
      refine ⟨q, [], ?_, by simp, by simpa using hq⟩
      unfold fReadMany
      rw [readNext_filePos_zero P lines q hq]
      simp
    | succ c =>
      have hc : c < lines.length := hq.1
      obtain ⟨q1, a, b, h1, h2, h3⟩ := readNext_filePos P lines c q hP1 hP2 hok hc hq
      obtain ⟨q', rs, h4, h5, h6⟩ := ih c q1 ((a, b) :: acc) h3
      refine ⟨q', (a, b) :: rs, ?_, ?_, ?_⟩
      · unfold fReadMany
        rw [h1]
        simp only [h4, List.reverse_cons, List.append_assoc, List.singleton_append]
        congr 2
        simp
      · rw [List.take_succ_eq_append_getElem hc, List.reverse_append]
        simp [h2, h5]
      · simpa using h6

theorem filePos_seekStart (P : Params) (lines : List Bytes) (q : QState) :
    FilePos P lines lines.length (seekStart (fileOfLines lines) q) := by
  refine ⟨Nat.le_refl _, ?_, ?_⟩
  · simp [seekStart, fileOfLines_size]
  · intro h; simp [seekStart] at h

end AGH.C20
