/-
C10 — helper lemmas, part 12: what `HostByIP` / `MACByIP` / `IPByHost` answer,
in terms of the table; the answers before and after a restart.
-/
import AGH.Lemmas.DHCPNames
namespace AGH.C10
open AGH

theorem ips_none_of_absent {c : Conf} {s : State} (h : Inv c s) {ip : Nat} (ha : ∀ l ∈ s.leases, l.ip ≠ ip) :
    s.ips ip = none := by
  cases hi : s.ips ip with
  | none => rfl
  | some id =>
    obtain ⟨l, hl, he, _⟩ := (h.ipsIff ip id).1 hi
    exact absurd he (ha l hl)

theorem answers_at_lease {c : Conf} {s : State} (h : Inv c s) {l : Lease} (hl : l ∈ s.leases) :
    s.hostByIP l.ip = l.host ∧ s.macByIP l.ip = (if l.static || decide (s.now < l.exp) then l.mac else []) := by
  have h1 : s.ips l.ip = some l.id := (h.ipsIff l.ip l.id).2 ⟨l, hl, rfl, rfl⟩
  unfold State.hostByIP State.macByIP
  rw [h1]
  simp only [Option.bind_some, deref_mem h hl]
  exact ⟨trivial, trivial⟩

theorem answers_absent {c : Conf} {s : State} (h : Inv c s) {ip : Nat} (ha : ∀ l ∈ s.leases, l.ip ≠ ip) :
    s.hostByIP ip = [] ∧ s.macByIP ip = [] := by
  unfold State.hostByIP State.macByIP
  rw [ips_none_of_absent h ha]
  exact ⟨rfl, rfl⟩

theorem ipByHost_sound {c : Conf} {s : State} (h : Inv c s) {n : Bytes} {ip : Nat} (hne : s.ipByHost n ≠ 0)
    (he : s.ipByHost n = ip) : ∃ l ∈ s.leases, l.host = n ∧ l.ip = ip := by
  unfold State.ipByHost at he hne
  cases hh : s.hosts n with
  | none => rw [hh] at hne; exact absurd rfl hne
  | some id =>
    obtain ⟨l, hl, hid, hhost⟩ := h.hostsSound n id hh
    rw [hh] at he
    simp only [Option.bind_some] at he
    rw [← hid, deref_mem h hl] at he
    exact ⟨l, hl, hhost, he⟩

theorem ipByHost_complete {c : Conf} {s : State} (h : Inv2 c s) {l : Lease} (hl : l ∈ s.leases) (hne : l.host ≠ []) :
    s.ipByHost l.host = l.ip := by
  unfold State.ipByHost
  rw [h.2 l hl hne]
  simp only [Option.bind_some, deref_mem h.1 hl]

theorem ipByHost_absent {c : Conf} {s : State} (h : Inv c s) {n : Bytes} (ha : ∀ l ∈ s.leases, l.host ≠ n) :
    s.ipByHost n = 0 := by
  unfold State.ipByHost
  cases hh : s.hosts n with
  | none => rfl
  | some id =>
    obtain ⟨l, hl, _, hhost⟩ := h.hostsSound n id hh
    exact absurd hhost (ha l hl)

/-- Two tables with the same records give the same hostname/address answers
(both with sound, complete indexes). -/
theorem answers_eq_of_perm {c : Conf} {s s' : State} (h : Inv2 c s) (h' : Inv2 c s')
    (hp : (s'.leases.map Lease.toDisk).Perm (s.leases.map Lease.toDisk)) :
    (∀ ip, s'.hostByIP ip = s.hostByIP ip) ∧ (∀ n, n ≠ [] → s'.ipByHost n = s.ipByHost n) := by
  have hto : ∀ {a b : State}, (a.leases.map Lease.toDisk).Perm (b.leases.map Lease.toDisk) →
      ∀ l ∈ a.leases, ∃ l' ∈ b.leases, l'.ip = l.ip ∧ l'.host = l.host := by
    intro a b hab l hl
    have : l.toDisk ∈ b.leases.map Lease.toDisk := hab.mem_iff.1 (List.mem_map.2 ⟨l, hl, rfl⟩)
    obtain ⟨l', hl', he⟩ := List.mem_map.1 this
    have e1 : l'.toDisk.ip = l.toDisk.ip := by rw [he]
    have e2 : l'.toDisk.host = l.toDisk.host := by rw [he]
    exact ⟨l', hl', e1, e2⟩
  constructor
  · intro ip
    by_cases hex : ∃ l ∈ s.leases, l.ip = ip
    · obtain ⟨l, hl, rfl⟩ := hex
      obtain ⟨l', hl', e1, e2⟩ := hto hp.symm l hl
      rw [(answers_at_lease h.1 hl).1, ← e1, (answers_at_lease h'.1 hl').1, e2]
    · have ha : ∀ l ∈ s.leases, l.ip ≠ ip := fun l hl e => hex ⟨l, hl, e⟩
      have ha' : ∀ l ∈ s'.leases, l.ip ≠ ip := by
        intro l hl e
        obtain ⟨l0, hl0, e1, _⟩ := hto hp l hl
        exact ha l0 hl0 (by rw [e1, e])
      rw [(answers_absent h.1 ha).1, (answers_absent h'.1 ha').1]
  · intro n hne
    by_cases hex : ∃ l ∈ s.leases, l.host = n
    · obtain ⟨l, hl, rfl⟩ := hex
      obtain ⟨l', hl', e1, e2⟩ := hto hp.symm l hl
      rw [ipByHost_complete h hl hne, ← e2, ipByHost_complete h' hl' (by rw [e2]; exact hne), e1]
    · have ha : ∀ l ∈ s.leases, l.host ≠ n := fun l hl e => hex ⟨l, hl, e⟩
      have ha' : ∀ l ∈ s'.leases, l.host ≠ n := by
        intro l hl e
        obtain ⟨l0, hl0, _, e2⟩ := hto hp l hl
        exact ha l0 hl0 (by rw [e2, e])
      rw [ipByHost_absent h.1 ha, ipByHost_absent h'.1 ha']

end AGH.C10
