/-
C10 — helper lemmas, part 7: the invariant of the model state implies the
clauses of the specification on its observation.
-/
import AGH.Lemmas.DHCPReply
namespace AGH.C10
open AGH

theorem pairwiseB_of_nodup {α β : Type} [BEq β] [LawfulBEq β] (g : α → β) :
    ∀ L : List α, (L.map g).Nodup → pairwiseB (fun a b => g a != g b) L = true := by
  intro L
  induction L with
  | nil => intro _; rfl
  | cons x xs ih =>
    intro h
    rw [List.map_cons, List.nodup_cons] at h
    unfold pairwiseB
    rw [Bool.and_eq_true]
    refine ⟨?_, ih h.2⟩
    rw [List.all_eq_true]
    intro y hy
    simp only [bne_iff_ne, ne_eq]
    intro e
    exact h.1 (List.mem_map.2 ⟨y, hy, e.symm⟩)

theorem nodup_filter_map {α β : Type} (g : α → β) (p : α → Bool) (L : List α) (h : (L.map g).Nodup) :
    ((L.filter p).map g).Nodup :=
  List.Nodup.sublist ((List.filter_sublist (l := L) (p := p)).map g) h

theorem view_ip (L : List Lease) : (L.map Lease.view).map (·.ip) = L.map (·.ip) := by
  simp [List.map_map, Function.comp_def, Lease.view]

theorem view_mac (L : List Lease) : (L.map Lease.view).map (·.mac) = L.map (·.mac) := by
  simp [List.map_map, Function.comp_def, Lease.view]

theorem obs_noSharedIP {c : Conf} {s : State} (h : Inv c s) : noSharedIP (obsOf c s) = true := by
  unfold noSharedIP
  apply pairwiseB_of_nodup (fun (a : LeaseV) => a.ip)
  apply nodup_filter_map
  show ((s.leases.map Lease.view).map (·.ip)).Nodup
  rw [view_ip]; exact h.ipNodup

theorem obs_oneLease {c : Conf} {s : State} (h : Inv c s) : oneLeasePerClient (obsOf c s) = true := by
  unfold oneLeasePerClient
  apply pairwiseB_of_nodup (fun (a : LeaseV) => a.mac)
  apply nodup_filter_map
  show ((s.leases.map Lease.view).map (·.mac)).Nodup
  rw [view_mac]; exact h.macNodup

theorem obs_dynInPool {c : Conf} {s : State} (hc : validate c = true) (h : Inv c s) : dynInPool c (obsOf c s) = true := by
  unfold dynInPool
  rw [List.all_eq_true]
  intro v hv
  obtain ⟨l, hl, rfl⟩ := List.mem_map.1 (show v ∈ s.leases.map Lease.view from hv)
  cases hs : l.static
  · obtain ⟨h1, h2⟩ := h.dynPool l hl hs
    have hg : l.ip ≠ c.gw := by
      intro e; exact (validate_spec hc).2.1 ⟨e ▸ h1, e ▸ h2⟩
    simp [Lease.view, hs, inPool, h1, h2, hg]
  · simp [Lease.view, hs]

theorem obs_dynNotReserved {c : Conf} {s : State} (h : Inv c s) : dynNotReserved (obsOf c s) = true := by
  unfold dynNotReserved
  rw [List.all_eq_true]
  intro v hv
  obtain ⟨l, hl, rfl⟩ := List.mem_map.1 (show v ∈ s.leases.map Lease.view from hv)
  cases hs : l.static
  · simp only [Lease.view, hs, Bool.false_or]
    rw [List.all_eq_true]
    intro w hw
    obtain ⟨r, hr, rfl⟩ := List.mem_map.1 (show w ∈ s.leases.map Lease.view from hw)
    cases hrs : r.static
    · simp [Lease.view, hrs]
    · simp only [Lease.view, hrs, Bool.not_true, Bool.false_or, bne_iff_ne, ne_eq]
      intro e
      have : r = l := nodup_map_inj h.ipNodup hr hl e
      rw [this, hs] at hrs; cases hrs
  · simp [Lease.view, hs]

theorem obs_bitsAgree {c : Conf} {s : State} (h : Inv c s) : bitsAgree c (obsOf c s) = true := by
  unfold bitsAgree
  simp only [obsOf, List.length_map, List.length_range, beq_self_eq_true, Bool.true_and, Bool.and_true]
  rw [List.all_eq_true]
  intro k hk
  rw [List.mem_range] at hk
  have hget : ((List.range (c.stop + 1 - c.start)).map s.bits).getD k false = s.bits k := by
    simp [List.getD, hk]
  rw [hget]
  rw [beq_iff_eq]
  cases hb : s.bits k
  · symm
    rw [Bool.eq_false_iff]
    intro hany
    rw [List.any_eq_true] at hany
    obtain ⟨v, hv, hve⟩ := hany
    obtain ⟨l, hl, rfl⟩ := List.mem_map.1 hv
    have : s.bits k = true := (h.bitsIff k).2 ⟨l, hl, by simpa [Lease.view] using hve, by
      have : l.ip = c.start + k := by simpa [Lease.view] using hve
      omega⟩
    rw [hb] at this; cases this
  · symm
    obtain ⟨l, hl, h1, _⟩ := (h.bitsIff k).1 hb
    rw [List.any_eq_true]
    exact ⟨l.view, List.mem_map.2 ⟨l, hl, rfl⟩, by simp [Lease.view, h1]⟩

theorem mem_dedup {α : Type} [DecidableEq α] {x : α} : ∀ {L : List α}, x ∈ L → x ∈ dedup L := by
  intro L
  induction L with
  | nil => intro h; cases h
  | cons y ys ih =>
    intro h
    unfold dedup
    split
    · next hy =>
      rcases List.mem_cons.1 h with rfl | h'
      · exact ih hy
      · exact ih h'
    · rcases List.mem_cons.1 h with rfl | h'
      · exact List.mem_cons_self
      · exact List.mem_cons_of_mem _ (ih h')

/-- The address index, as observed, agrees with the table. -/
theorem obs_ipIndexAgree {c : Conf} {s : State} (h : Inv c s) : ipIndexAgree (obsOf c s) = true := by
  unfold ipIndexAgree
  rw [Bool.and_eq_true]
  constructor
  · rw [List.all_eq_true]
    intro e he
    simp only [obsOf, entriesOf] at he
    obtain ⟨k, _, hk⟩ := List.mem_filterMap.1 he
    cases hf : s.ips k with
    | none => rw [hf] at hk; cases hk
    | some id =>
      rw [hf] at hk
      simp only [] at hk
      obtain ⟨l0, hl0, hip, hid⟩ := (h.ipsIff k id).1 hf
      have hd : s.deref id = some l0 := by rw [← hid]; exact deref_mem h hl0
      rw [hd] at hk
      simp only [Option.some.injEq] at hk
      subst hk
      have hlt : List.findIdx (fun l => l.id == id) s.leases < s.leases.length :=
        List.findIdx_lt_length_of_exists ⟨l0, hl0, by simp [hid]⟩
      have hpos : posOfId s.leases id = some (List.findIdx (fun l => l.id == id) s.leases) := by
        unfold posOfId; simp only []; rw [if_pos hlt]
      simp only [hpos]
      have hp := List.findIdx_getElem (p := fun l : Lease => l.id == id) (xs := s.leases) (w := hlt)
      have heq : s.leases[List.findIdx (fun l => l.id == id) s.leases] = l0 :=
        nodup_map_inj h.idNodup (List.getElem_mem hlt) hl0 (by rw [hid]; simpa using hp)
      have hget : (List.map Lease.view s.leases)[List.findIdx (fun l => l.id == id) s.leases]? = some l0.view := by
        rw [List.getElem?_map, List.getElem?_eq_getElem hlt, heq]; rfl
      rw [show (obsOf c s).leases = List.map Lease.view s.leases from rfl, hget]
      simp [Lease.view, hip]
  · rw [List.all_eq_true]
    intro v hv
    obtain ⟨l, hl, rfl⟩ := List.mem_map.1 (show v ∈ s.leases.map Lease.view from hv)
    rw [List.any_eq_true]
    refine ⟨{ key := l.ip, pos := posOfId s.leases l.id, tgt := l.view }, ?_, by simp [Lease.view]⟩
    simp only [obsOf, entriesOf]
    refine List.mem_filterMap.2 ⟨l.ip, mem_dedup (List.mem_append.2 (.inr (List.mem_map.2 ⟨l, hl, rfl⟩))), ?_⟩
    have : s.ips l.ip = some l.id := (h.ipsIff l.ip l.id).2 ⟨l, hl, rfl, rfl⟩
    rw [this]
    simp only []
    rw [deref_mem h hl]

theorem mem_poolAddrs {c : Conf} {a : Nat} : a ∈ poolAddrs c ↔ c.start ≤ a ∧ a < c.start + (c.stop + 1 - c.start) := by
  unfold poolAddrs
  rw [List.mem_map]
  constructor
  · rintro ⟨k, hk, rfl⟩
    rw [List.mem_range] at hk
    omega
  · rintro ⟨h1, h2⟩
    exact ⟨a - c.start, by rw [List.mem_range]; omega, by omega⟩

theorem obs_replyRecorded {O : Oracle} {c : Conf} {s : State} {op : Op} (h : Inv c s) :
    replyRecorded (obsOf c (step O c s op).1) op (step O c s op).2 = true := by
  unfold replyRecorded
  cases hm : op.mac? with
  | none => rfl
  | some m =>
    simp only []
    by_cases hrc : (step O c s op).2.rc = 1
    · by_cases hyi : (step O c s op).2.yi = 0
      · simp [hyi]
      · obtain ⟨l, hl, h1, h2⟩ := step_recorded h hm hrc hyi
        have : (obsOf c (step O c s op).1).leases.any (fun l => l.mac == m && l.ip == (step O c s op).2.yi) = true := by
          rw [List.any_eq_true]
          exact ⟨l.view, List.mem_map.2 ⟨l, hl, rfl⟩, by simp [Lease.view, h1, h2]⟩
        rw [this]; simp
    · have : ((step O c s op).2.rc != 1) = true := by simpa using hrc
      rw [this]; rfl

theorem obs_reservedOK {O : Oracle} {c : Conf} {s : State} {op : Op} (h : Inv c s) :
    reservedOK (obsOf c (step O c s op).1) op (step O c s op).2 = true := by
  have hi' := Inv_step (O := O) (op := op) h
  unfold reservedOK
  cases hm : op.mac? with
  | none => rfl
  | some m =>
    simp only []
    by_cases hrc : (step O c s op).2.rc = 1
    · by_cases hyi : (step O c s op).2.yi = 0
      · simp [hyi]
      · obtain ⟨l, hl, h1, h2⟩ := step_recorded h hm hrc hyi
        have : (obsOf c (step O c s op).1).leases.all
            (fun l => !(l.static && l.mac == m) || l.ip == (step O c s op).2.yi) = true := by
          rw [List.all_eq_true]
          intro v hv
          obtain ⟨l', hl', rfl⟩ := List.mem_map.1 (show v ∈ (step O c s op).1.leases.map Lease.view from hv)
          by_cases hmm : l'.mac = m
          · have : l' = l := nodup_map_inj hi'.macNodup hl' hl (by rw [hmm, h1])
            simp [Lease.view, this, h2]
          · simp [Lease.view, hmm]
        rw [this]; simp
    · have : ((step O c s op).2.rc != 1) = true := by simpa using hrc
      rw [this]; rfl

theorem obs_offerLive {O : Oracle} {c : Conf} {s : State} {op : Op} (hpos : 0 < c.start) (h : Inv c s) :
    offerLive c (obsOf c s) op (step O c s op).2 = true := by
  have h0 : Inv c { s with stale := [] } := Inv_congr h rfl rfl rfl rfl rfl rfl
  unfold offerLive
  cases op with
  | discover m =>
    simp only []
    by_cases hcond : (validMAC m && (obsOf c s).leases.all (fun l => l.mac != m) && someFree c (obsOf c s)) = true
    · rw [hcond]
      simp only [Bool.and_eq_true] at hcond
      obtain ⟨⟨hv, hall⟩, hfree⟩ := hcond
      have hnew : ∀ l ∈ ({ s with stale := [] } : State).leases, l.mac ≠ m := by
        intro l hl
        rw [List.all_eq_true] at hall
        have := hall l.view (List.mem_map.2 ⟨l, hl, rfl⟩)
        simpa [Lease.view] using this
      have hfree' : ∃ a, c.start ≤ a ∧ a ≤ c.stop ∧
          ∀ l ∈ ({ s with stale := [] } : State).leases, l.ip = a → l.static = false ∧ l.exp < s.now := by
        unfold someFree at hfree
        rw [List.any_eq_true] at hfree
        obtain ⟨a, ha, hal⟩ := hfree
        obtain ⟨h1, h2⟩ := mem_poolAddrs.1 ha
        refine ⟨a, h1, by omega, ?_⟩
        intro l hl hla
        rw [List.all_eq_true] at hal
        have := hal l.view (List.mem_map.2 ⟨l, hl, rfl⟩)
        simp only [Lease.view, hla, bne_self_eq_false, Bool.false_or, Bool.not_eq_true', held, obsOf,
          Bool.or_eq_false_iff, decide_eq_false_iff_not, Nat.not_le] at this
        exact this
      obtain ⟨r1, r2, r3, _⟩ := handleDiscover_offer (c := c) h0 hnew hfree'
      have hstep : (step O c s (.discover m)).2 = (handleDiscover c m { s with stale := [] }).2 := by
        unfold step
        simp only [hv, Bool.not_true, Bool.false_eq_true, if_false]
      rw [hstep, r1, r2]
      have : (handleDiscover c m { s with stale := [] }).2.yi ≠ 0 := by omega
      simp [this]
    · have : (validMAC m && (obsOf c s).leases.all (fun l => l.mac != m) && someFree c (obsOf c s)) = false := by
        simpa using hcond
      rw [this]; rfl
  | request => rfl
  | decline => rfl
  | release => rfl
  | addStatic => rfl
  | updStatic => rfl
  | rmStatic => rfl
  | sleep => rfl
  | restart => rfl
  | reorder => rfl
  | resetLeases => rfl

/-- The model meets every clause about addresses and clients, on its own observations. -/
theorem specCore_step {O : Oracle} {c : Conf} {s : State} {op : Op} (hc : validate c = true) (hpos : 0 < c.start)
    (h : Inv c s) :
    specCore c (obsOf c s) op (step O c s op).2 (obsOf c (step O c s op).1) = true := by
  have hi' := Inv_step (O := O) (op := op) h
  unfold specCore specCoreWhy
  rw [obs_noSharedIP hi', obs_oneLease hi', obs_dynInPool hc hi', obs_dynNotReserved hi', obs_reservedOK h,
    obs_replyRecorded h, obs_offerLive hpos h, obs_bitsAgree hi', obs_ipIndexAgree hi']
  rfl

/-! ### the file and the hostname index, as observed -/

theorem sameBag_of_perm {a b : List LeaseV} (h : a.Perm b) : sameBag a b = true := by
  unfold sameBag
  rw [Bool.and_eq_true]
  refine ⟨by simpa using h.length_eq, ?_⟩
  rw [List.all_eq_true]
  intro x _
  unfold countOf
  simpa using (h.filter (· == x)).length_eq

theorem norm_toDisk (l : Lease) : LeaseV.norm l.toDisk = LeaseV.norm l.view := by
  unfold LeaseV.norm Lease.toDisk Lease.view
  cases l.static <;> simp

theorem obs_diskMirror_of_stores {c : Conf} {p : State × Reply} (h : Stores p) : diskMirror (obsOf c p.1) = true := by
  obtain ⟨x, hx⟩ := h
  rw [hx]
  unfold diskMirror
  show sameBag ((sortByHost (x.leases.map Lease.toDisk)).map LeaseV.norm) ((x.leases.map Lease.view).map LeaseV.norm) = true
  apply sameBag_of_perm
  have h1 := (sortByHost_perm (x.leases.map Lease.toDisk)).map LeaseV.norm
  have h2 : (x.leases.map Lease.toDisk).map LeaseV.norm = (x.leases.map Lease.view).map LeaseV.norm := by
    rw [List.map_map, List.map_map]
    apply List.map_congr_left
    intro l _
    exact norm_toDisk l
  rw [h2] at h1
  exact h1

/-- No step other than a restart makes the file differ from the table. -/
theorem obs_disk_step {O : Oracle} {c : Conf} {s : State} {op : Op} (h : Inv c s) (hne : op ≠ .restart)
    (hnr : ∀ d, op ≠ .reorder d) :
    (diskMirror (obsOf c s) && !diskMirror (obsOf c (step O c s op).1)) = false := by
  rcases step_store_or_same (O := O) h hne hnr with hs | ⟨h1, h2⟩
  · rw [obs_diskMirror_of_stores hs]; simp
  · have : diskMirror (obsOf c (step O c s op).1) = diskMirror (obsOf c s) := by
      unfold diskMirror obsOf
      simp only [h1, h2]
    rw [this]; cases diskMirror (obsOf c s) <;> rfl

/-- Every hostname entry, as observed, points to a table lease with that name. -/
theorem obs_hostIndexSound {c : Conf} {s : State} (h : Inv c s) : hostIndexSound (obsOf c s) = true := by
  unfold hostIndexSound
  rw [List.all_eq_true]
  intro e he
  simp only [obsOf, entriesOf] at he
  obtain ⟨k, _, hk⟩ := List.mem_filterMap.1 he
  cases hf : s.hosts k with
  | none => rw [hf] at hk; cases hk
  | some id =>
    rw [hf] at hk
    simp only [] at hk
    obtain ⟨l0, hl0, hid, hhost⟩ := h.hostsSound k id hf
    have hd : s.deref id = some l0 := by rw [← hid]; exact deref_mem h hl0
    rw [hd] at hk
    simp only [Option.some.injEq] at hk
    subst hk
    have hlt : List.findIdx (fun l => l.id == id) s.leases < s.leases.length :=
      List.findIdx_lt_length_of_exists ⟨l0, hl0, by simp [hid]⟩
    have hpos : posOfId s.leases id = some (List.findIdx (fun l => l.id == id) s.leases) := by
      unfold posOfId; simp only []; rw [if_pos hlt]
    simp only [hpos]
    have hp := List.findIdx_getElem (p := fun l : Lease => l.id == id) (xs := s.leases) (w := hlt)
    have heq : s.leases[List.findIdx (fun l => l.id == id) s.leases] = l0 :=
      nodup_map_inj h.idNodup (List.getElem_mem hlt) hl0 (by rw [hid]; simpa using hp)
    have hget : (List.map Lease.view s.leases)[List.findIdx (fun l => l.id == id) s.leases]? = some l0.view := by
      rw [List.getElem?_map, List.getElem?_eq_getElem hlt, heq]; rfl
    rw [show (obsOf c s).leases = List.map Lease.view s.leases from rfl, hget]
    simp [Lease.view, hhost]

end AGH.C10
