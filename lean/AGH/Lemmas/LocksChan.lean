/-
C05 helper: the discipline behind the `drained_under` justification of a
channel send made while locks are held (guards.json `channel_ops`).

One buffered channel.  All senders run their "drain; send" pair inside one
lock, so the pairs of different senders do not interleave with each other;
receivers are not constrained at all and may take an element at any moment.
The trace below is the sequence of channel operations in the order they take
effect.  `sendOK` is what the extractor checks structurally (every send is
preceded, since the last send, by a drain); the theorem says that then no send
ever finds the buffer full, whatever the receivers do: the sender cannot block
on the channel while it holds its locks.  Core Lean only.
-/
namespace AGH.C05

inductive ChanStep where
  | drain   -- `for { select { case <-ch: default: break } }`: empties the buffer
  | send    -- `ch <- v`
  | recv    -- a receiver takes an element, if there is one
  deriving DecidableEq, Repr

/-- The buffer length after the trace; `none` if some send found the buffer full
(it would block). -/
def chanRun (cap : Nat) : Nat → List ChanStep → Option Nat
  | len, [] => some len
  | _, .drain :: r => chanRun cap 0 r
  | len, .recv :: r => chanRun cap (len - 1) r
  | len, .send :: r => if len < cap then chanRun cap (len + 1) r else none

/-- Every send is preceded by a drain with no other send in between
(`drained`: a drain has happened since the last send). -/
def sendOK : Bool → List ChanStep → Bool
  | _, [] => true
  | _, .drain :: r => sendOK true r
  | d, .recv :: r => sendOK d r
  | d, .send :: r => d && sendOK false r

theorem chanRun_isSome (cap : Nat) (hcap : 1 ≤ cap) :
    ∀ (tr : List ChanStep) (len : Nat) (d : Bool), sendOK d tr = true → len ≤ cap →
      (d = true → len = 0) → (chanRun cap len tr).isSome = true := by
  intro tr
  induction tr with
  | nil => intro len d _ _ _; simp [chanRun]
  | cons s r ih =>
    intro len d hok hle hd
    cases s with
    | drain =>
      simp only [sendOK] at hok
      simp only [chanRun]
      exact ih 0 true hok (Nat.zero_le _) (fun _ => rfl)
    | recv =>
      simp only [sendOK] at hok
      simp only [chanRun]
      exact ih (len - 1) d hok (by omega) (fun h => by have := hd h; omega)
    | send =>
      simp only [sendOK, Bool.and_eq_true] at hok
      have h0 : len = 0 := hd hok.1
      subst h0
      have hlt : 0 < cap := hcap
      simp only [chanRun, hlt, if_true]
      exact ih 1 false hok.2 (by omega) (fun h => by cases h)

/-- A send that obeys the drain discipline on a channel of capacity ≥ 1 never
blocks, from any starting buffer content and under any behaviour of the
receivers. -/
theorem drained_send_never_blocks (cap : Nat) (hcap : 1 ≤ cap) (tr : List ChanStep)
    (len : Nat) (hlen : len ≤ cap) (hok : sendOK false tr = true) :
    (chanRun cap len tr).isSome = true :=
  chanRun_isSome cap hcap tr len false hok hlen (fun h => by cases h)

/-- Without the drain a second send can find the buffer full. -/
example : chanRun 1 0 [.send, .send] = none := by decide

example : sendOK false [.drain, .send, .recv, .drain, .send, .drain, .recv, .send] = true := by decide

end AGH.C05
