/-
C20 helper lemmas, part 4: the binary search of `seekTS` over a line file with
strictly increasing timestamps.  Core only.
-/
import AGH.Lemmas.QLogProbe
import AGH.Lemmas.QLogRender
namespace AGH.C20
open AGH

/-- What the seek theorems assume about the lines of a file. -/
structure SeekCtx (tsOf : Bytes → Int) (lines : List Bytes) : Prop where
  ok : ∀ l ∈ lines, lineOK l = true
  nz : ∀ l ∈ lines, tsOf l ≠ 0
  sorted : lines.Pairwise (fun a b => tsOf a < tsOf b)

/-- The same with equal timestamps in neighbouring lines allowed (weakly increasing). -/
structure SeekCtxLe (tsOf : Bytes → Int) (lines : List Bytes) : Prop where
  ok : ∀ l ∈ lines, lineOK l = true
  nz : ∀ l ∈ lines, tsOf l ≠ 0
  sorted : lines.Pairwise (fun a b => tsOf a ≤ tsOf b)

theorem SeekCtx.le {tsOf : Bytes → Int} {lines : List Bytes} (c : SeekCtx tsOf lines) :
    SeekCtxLe tsOf lines :=
  ⟨c.ok, c.nz, c.sorted.imp (fun h => Int.le_of_lt h)⟩

theorem locate (M : List Bytes) : ∀ p, p < (render M).length →
    ∃ N1 x N2, M = N1 ++ x :: N2 ∧ (render N1).length ≤ p ∧ p ≤ (render N1).length + x.length := by
  induction M with
  | nil => intro p hp; simp [render] at hp
  | cons x M ih =>
    intro p hp
    by_cases h : p ≤ x.length
    · exact ⟨[], x, M, rfl, by simp [render], by simpa [render] using h⟩
    · rw [render_cons_length] at hp
      obtain ⟨N1, y, N2, h1, h2, h3⟩ := ih (p - (x.length + 1)) (by omega)
      refine ⟨x :: N1, y, N2, by simp [h1], ?_, ?_⟩
      · rw [render_cons_length]; omega
      · rw [render_cons_length]; omega

theorem sorted_mid {R : Bytes → Bytes → Prop} (A N1 N2 B : List Bytes) (x : Bytes)
    (h : (A ++ (N1 ++ x :: N2) ++ B).Pairwise R) :
    (∀ y ∈ N1, R y x) ∧ (∀ y ∈ N2, R x y) := by
  rw [List.pairwise_append, List.pairwise_append, List.pairwise_append] at h
  obtain ⟨⟨_, ⟨_, h2, h3⟩, _⟩, _, _⟩ := h
  rw [List.pairwise_cons] at h2
  exact ⟨fun y hy => h3 y hy x (by simp), fun y hy => h2.1 y hy⟩

theorem render_snoc_length (A : List Bytes) (x : Bytes) :
    (render (A ++ [x])).length = (render A).length + x.length + 1 := by
  rw [render_append]; simp [render]; omega

theorem render_mid_length (N1 N2 : List Bytes) (x : Bytes) :
    (render (N1 ++ x :: N2)).length = (render N1).length + x.length + 1 + (render N2).length := by
  rw [render_append, List.length_append, render_cons_length]; omega

theorem midpoint_le (a b : Nat) (h : a ≤ b) : midpoint a b = a + (b - a) / 2 := by
  unfold midpoint; rw [if_pos h]

theorem halve_bound (a L d S : Nat) (h1 : a ≤ L / 2) (h2 : L * 2 ^ d ≤ S) : a * 2 ^ (d + 1) ≤ S := by
  have : a * 2 ^ (d + 1) = (a * 2) * 2 ^ d := by rw [Nat.pow_succ]; simp [Nat.mul_assoc, Nat.mul_comm]
  rw [this]
  exact Nat.le_trans (Nat.mul_le_mul_right _ (by omega)) h2

theorem depth_small (L d S : Nat) (hL : 0 < L) (h : L * 2 ^ d ≤ S) (hS : S < 2 ^ 63) : d < 63 := by
  by_cases hd : d < 63
  · exact hd
  · exfalso
    have h1 : 2 ^ 63 ≤ 2 ^ d := Nat.pow_le_pow_right (by omega) (by omega)
    have h2 : 2 ^ d ≤ L * 2 ^ d := Nat.le_mul_of_pos_left _ hL
    omega

section
variable (P : Params) (tsOf : Bytes → Int) (target : Int) (lines : List Bytes)

/-- One iteration of the loop when the interval is a non-empty run `M` of whole
lines: the probe hits a line `x` of `M`. -/
theorem seekLoop_step (hP : entryLimit ≤ P.maxEntry) (ctx : SeekCtxLe tsOf lines)
    (A M B : List Bytes) (hsplit : lines = A ++ M ++ B) (hM : M ≠ [])
    (fuel d start «end» probe : Nat) (last : Option Nat)
    (hstart : start = (render A).length) (hend : «end» = (render (A ++ M)).length)
    (hprobe : probe = start + («end» - start) / 2)
    (hlast : ∀ y, last = some y → y < start ∨ «end» ≤ y) :
    ∃ N1 x N2, M = N1 ++ x :: N2 ∧
      (render (A ++ N1)).length ≤ probe ∧ probe ≤ (render (A ++ N1)).length + x.length ∧
      seekLoop P (fileOfLines lines) tsOf target (fuel + 1) start «end» probe last d =
        (if tsOf x = target then
           .ok ((render (A ++ N1)).length, (render (A ++ N1)).length + x.length, d)
         else if d + 1 ≥ maxDepth then .error .depth
         else
           seekLoop P (fileOfLines lines) tsOf target fuel
             (if tsOf x > target then start else (render (A ++ N1)).length + x.length + 1)
             (if tsOf x > target then (render (A ++ N1)).length else «end»)
             (midpoint (if tsOf x > target then start else (render (A ++ N1)).length + x.length + 1)
               (if tsOf x > target then (render (A ++ N1)).length else «end»))
             (some (render (A ++ N1)).length) (d + 1)) := by
  have hMlen : 0 < (render M).length := by
    rcases Nat.eq_zero_or_pos (render M).length with h | h
    · exact absurd ((render_nil_iff M).1 h) hM
    · exact h
  have hend' : «end» = start + (render M).length := by
    rw [hend, render_append, List.length_append, hstart]
  obtain ⟨N1, x, N2, hMs, hp1, hp2⟩ := locate M (probe - start) (by omega)
  refine ⟨N1, x, N2, hMs, ?_, ?_, ?_⟩
  · rw [render_append, List.length_append]; omega
  · rw [render_append, List.length_append]; omega
  have hs : (render (A ++ N1)).length = start + (render N1).length := by
    rw [render_append, List.length_append, hstart]
  have hlines : lines = (A ++ N1) ++ x :: (N2 ++ B) := by
    rw [hsplit, hMs]; simp
  have hx : x ∈ lines := by rw [hlines]; simp
  obtain ⟨_, hnl, hxlen⟩ := (lineOK_iff x).1 (ctx.ok x hx)
  have hLA := lineAt_split (A ++ N1) (N2 ++ B) x hnl
  rw [← hlines] at hLA
  have hslice := slice_line (A ++ N1) (N2 ++ B) x
  rw [← hlines] at hslice
  have hMl := render_mid_length N1 N2 x
  rw [← hMs] at hMl
  have hprobeL := readProbeLine_line P (fileOfLines lines) _ _ probe hLA (by omega) (by omega) (by omega)
  have hsize : «end» ≤ (fileOfLines lines).size := by
    rw [fileOfLines_size, hsplit, render_append, List.length_append, ← hend]; omega
  have hval : validateIdx (render (A ++ N1)).length last (fileOfLines lines).size = none := by
    unfold validateIdx
    have h1 : ¬ (last = some (render (A ++ N1)).length) := by
      intro h
      rcases hlast _ h with h | h <;> omega
    have h2 : ¬ ((render (A ++ N1)).length = (fileOfLines lines).size) := by omega
    simp [h1, h2]
  have hnz := ctx.nz x hx
  rw [seekLoop, hprobeL]
  simp only [hval, hslice, hnz, if_false]

/-- Target present in the interval: the loop ends on a line carrying it (the
depth guard and the same-line/end-of-file guards never fire). -/
theorem seekLoop_found (hP : entryLimit ≤ P.maxEntry) (ctx : SeekCtxLe tsOf lines)
    (hsize : (render lines).length < 2 ^ 63) :
    ∀ (n : Nat) (A M B : List Bytes) (fuel d start «end» probe : Nat) (last : Option Nat),
      M.length ≤ n → lines = A ++ M ++ B → (∃ y ∈ M, tsOf y = target) →
      fuel + d = maxDepth →
      start = (render A).length → «end» = (render (A ++ M)).length →
      probe = start + («end» - start) / 2 →
      (∀ y, last = some y → y < start ∨ «end» ≤ y) →
      (render M).length * 2 ^ d ≤ (render lines).length →
      ∃ N1 x N2 d', M = N1 ++ x :: N2 ∧ tsOf x = target ∧ 2 ^ d' ≤ (render lines).length ∧
        seekLoop P (fileOfLines lines) tsOf target fuel start «end» probe last d =
          .ok ((render (A ++ N1)).length, (render (A ++ N1)).length + x.length, d') := by
  intro n
  induction n with
  | zero =>
    intro A M B fuel d start «end» probe last hn _ hy
    obtain ⟨y, hyM, _⟩ := hy
    have : M = [] := List.eq_nil_of_length_eq_zero (by omega)
    subst this; simp at hyM
  | succ n ih =>
    intro A M B fuel d start «end» probe last hn hsplit hy hfuel hstart hend hprobe hlast hpow
    obtain ⟨y, hyM, hyt⟩ := hy
    have hM : M ≠ [] := by intro h; subst h; simp at hyM
    have hMlen : 0 < (render M).length := by
      rcases Nat.eq_zero_or_pos (render M).length with h | h
      · exact absurd ((render_nil_iff M).1 h) hM
      · exact h
    have hd : d < 63 := depth_small _ _ _ hMlen hpow hsize
    obtain ⟨fuel', rfl⟩ : ∃ f', fuel = f' + 1 := ⟨fuel - 1, by unfold maxDepth at hfuel; omega⟩
    obtain ⟨N1, x, N2, hMs, hp1, hp2, hstep⟩ :=
      seekLoop_step P tsOf target lines hP ctx A M B hsplit hM fuel' d start «end» probe last hstart hend hprobe hlast
    rw [hstep]
    have hsorted := ctx.sorted
    rw [hsplit, hMs] at hsorted
    obtain ⟨hN1, hN2⟩ := sorted_mid A N1 N2 B x hsorted
    have hMl := render_mid_length N1 N2 x
    rw [← hMs] at hMl
    have hs : (render (A ++ N1)).length = start + (render N1).length := by
      rw [render_append, List.length_append, hstart]
    have hend' : «end» = start + (render M).length := by
      rw [hend, render_append, List.length_append, hstart]
    by_cases hx : tsOf x = target
    · exact ⟨N1, x, N2, d, hMs, hx, Nat.le_trans (Nat.le_mul_of_pos_left _ hMlen) hpow, by simp [hx]⟩
    · have hnd : ¬ (d + 1 ≥ maxDepth) := by unfold maxDepth; omega
      simp only [hx, hnd, if_false]
      rw [hMs] at hyM
      by_cases hgt : tsOf x > target
      · simp only [hgt, if_true]
        -- the target is left of x
        have hyN1 : y ∈ N1 := by
          simp only [List.mem_append, List.mem_cons] at hyM
          rcases hyM with h | h | h
          · exact h
          · subst h; omega
          · have := hN2 y h; omega
        obtain ⟨N1', x', N2', d', h1, h2, hb, h3⟩ :=
          ih A N1 (x :: N2 ++ B) fuel' (d + 1) start (render (A ++ N1)).length _ (some (render (A ++ N1)).length)
            (by rw [hMs] at hn; simp at hn; omega) (by rw [hsplit, hMs]; simp) ⟨y, hyN1, hyt⟩
            (by omega) hstart rfl (midpoint_le _ _ (by omega)) (by intro z hz; cases hz; right; exact Nat.le_refl _)
            (halve_bound _ _ _ _ (by omega) hpow)
        refine ⟨N1', x', N2' ++ x :: N2, d', by rw [hMs, h1]; simp, h2, hb, h3⟩
      · simp only [hgt, if_false]
        have hlt : tsOf x < target := by omega
        have hyN2 : y ∈ N2 := by
          simp only [List.mem_append, List.mem_cons] at hyM
          rcases hyM with h | h | h
          · have := hN1 y h; omega
          · subst h; omega
          · exact h
        have hA' : (render (A ++ N1 ++ [x])).length = (render (A ++ N1)).length + x.length + 1 :=
          render_snoc_length _ _
        have hAM : A ++ N1 ++ [x] ++ N2 = A ++ M := by rw [hMs]; simp
        obtain ⟨N1', x', N2', d', h1, h2, hb, h3⟩ :=
          ih (A ++ N1 ++ [x]) N2 B fuel' (d + 1) ((render (A ++ N1)).length + x.length + 1) «end» _
            (some (render (A ++ N1)).length)
            (by rw [hMs] at hn; simp at hn; omega) (by rw [hsplit, hMs]; simp) ⟨y, hyN2, hyt⟩
            (by omega) hA'.symm (by rw [hAM]; exact hend) (midpoint_le _ _ (by omega))
            (by intro z hz; cases hz; left; omega)
            (halve_bound _ _ _ _ (by omega) hpow)
        refine ⟨N1 ++ x :: N1', x', N2', d', by rw [hMs, h1]; simp, h2, hb, ?_⟩
        rw [h3]
        have : A ++ N1 ++ [x] ++ N1' = A ++ (N1 ++ x :: N1') := by simp
        rw [this]

/-- The report for an absent timestamp, by its position among the entries. -/
def absentErr : Err :=
  if ∀ l ∈ lines, target < tsOf l then .tooEarly
  else if ∀ l ∈ lines, tsOf l < target then .tooLate
  else .notFound

theorem seekLoop_same (fuel start «end» probe d x0 e e' : Nat)
    (h : readProbeLine P (fileOfLines lines) probe = .ok (x0, e, e')) :
    seekLoop P (fileOfLines lines) tsOf target (fuel + 1) start «end» probe (some x0) d =
      .error (if x0 = 0 then .tooEarly else .notFound) := by
  rw [seekLoop, h]
  by_cases h0 : x0 = 0 <;> simp [validateIdx, h0]

/-- The interval has shrunk to nothing between the entries `A` (all earlier than
the target) and `B` (all later). -/
theorem seekLoop_gap (hP : entryLimit ≤ P.maxEntry) (ctx : SeekCtxLe tsOf lines) (hne : lines ≠ [])
    (A B : List Bytes) (hsplit : lines = A ++ B)
    (hA : ∀ l ∈ A, tsOf l < target) (hB : ∀ l ∈ B, target < tsOf l)
    (fuel d x0 : Nat) (last : Option Nat) (hfuel : fuel + d = maxDepth) (hd : d ≤ 63)
    (hx0 : x0 = (render A).length)
    (hlast : ∀ y, last = some y → y < (render lines).length) :
    seekLoop P (fileOfLines lines) tsOf target fuel x0 x0 (x0 + (x0 - x0) / 2) last d =
      .error (absentErr tsOf target lines) := by
  have hM0 : 0 < P.maxEntry := by unfold entryLimit at hP; omega
  obtain ⟨fuel1, rfl⟩ : ∃ f', fuel = f' + 1 := ⟨fuel - 1, by unfold maxDepth at hfuel; omega⟩
  have hprobe : x0 + (x0 - x0) / 2 = x0 := by omega
  rw [hprobe]
  cases B with
  | nil =>
    -- later than every entry
    simp only [List.append_nil] at hsplit
    subst hsplit
    have hcls : absentErr tsOf target lines = .tooLate := by
      unfold absentErr
      have h1 : ¬ (∀ l ∈ lines, target < tsOf l) := by
        intro h
        cases lines with
        | nil => exact hne rfl
        | cons a t => have := h a (by simp); have := hA a (by simp); omega
      simp [h1]; exact hA
    obtain ⟨hpos, hlastb⟩ := render_last lines hne
    have hsz : (fileOfLines lines).size = x0 := by rw [fileOfLines_size, hx0]
    have hend := readProbeLine_end P (fileOfLines lines) hM0 (by rw [hsz, hx0]; exact hpos)
      (by rw [fileOfLines_byte, fileOfLines_size, hlastb]; rfl)
    rw [hsz] at hend
    rw [seekLoop, hend, hcls]
    have h1 : ¬ (last = some x0) := by
      intro h; have := hlast _ h; omega
    simp [validateIdx, h1, hsz]
  | cons b B =>
    have hb : b ∈ lines := by rw [hsplit]; simp
    obtain ⟨_, hnl, hblen⟩ := (lineOK_iff b).1 (ctx.ok b hb)
    have hLA := lineAt_split A B b hnl
    rw [← hsplit, ← hx0] at hLA
    have hslice := slice_line A B b
    rw [← hsplit, ← hx0] at hslice
    have hprobeL := readProbeLine_line P (fileOfLines lines) _ _ x0 hLA (by omega) (Nat.le_refl _) (by omega)
    have hcls : absentErr tsOf target lines = if x0 = 0 then .tooEarly else .notFound := by
      unfold absentErr
      by_cases hA0 : A = []
      · subst hA0
        have : x0 = 0 := by rw [hx0]; rfl
        simp only [this, if_true]
        simp only [List.nil_append] at hsplit
        rw [hsplit]; simp only [if_pos hB]
      · have hx0' : x0 ≠ 0 := by
          rw [hx0]; intro h; exact hA0 ((render_nil_iff A).1 h)
        simp only [hx0', if_false]
        obtain ⟨a, ha⟩ := List.exists_mem_of_ne_nil A hA0
        have h1 : ¬ (∀ l ∈ lines, target < tsOf l) := by
          intro h; have := h a (by rw [hsplit]; simp [ha]); have := hA a ha; omega
        have h2 : ¬ (∀ l ∈ lines, tsOf l < target) := by
          intro h; have := h b hb; have := hB b (by simp); omega
        simp [h1, h2]
    rw [hcls]
    by_cases hl : last = some x0
    · rw [hl]
      exact seekLoop_same P tsOf target lines fuel1 x0 x0 x0 d x0 _ _ hprobeL
    · -- one more probe of the same line, then the same-line guard fires
      have hsize : x0 + b.length < (fileOfLines lines).size := hLA.lt
      have hval : validateIdx x0 last (fileOfLines lines).size = none := by
        unfold validateIdx
        have : ¬ (x0 = (fileOfLines lines).size) := by omega
        simp [hl, this]
      have hnz := ctx.nz b hb
      have hgt : tsOf b > target := hB b (by simp)
      have hne' : ¬ (tsOf b = target) := by omega
      have hnd : ¬ (d + 1 ≥ maxDepth) := by unfold maxDepth; omega
      obtain ⟨fuel2, rfl⟩ : ∃ f', fuel1 = f' + 1 := ⟨fuel1 - 1, by unfold maxDepth at hfuel; omega⟩
      rw [seekLoop, hprobeL]
      simp only [hval, hslice, hnz, hne', hnd, hgt, if_false, if_true]
      rw [midpoint_le _ _ (Nat.le_refl _), hprobe]
      exact seekLoop_same P tsOf target lines fuel2 x0 x0 x0 (d + 1) x0 _ _ hprobeL

/-- Target absent from the file: the loop ends with the report that belongs to
its position (`tooEarly` / `tooLate` / `notFound`), never by the depth guard. -/
theorem seekLoop_absent (hP : entryLimit ≤ P.maxEntry) (ctx : SeekCtxLe tsOf lines) (hne : lines ≠ [])
    (hsize : (render lines).length < 2 ^ 63) :
    ∀ (n : Nat) (A M B : List Bytes) (fuel d start «end» probe : Nat) (last : Option Nat),
      M.length ≤ n → lines = A ++ M ++ B → (∀ y ∈ M, tsOf y ≠ target) →
      (∀ l ∈ A, tsOf l < target) → (∀ l ∈ B, target < tsOf l) →
      fuel + d = maxDepth →
      start = (render A).length → «end» = (render (A ++ M)).length →
      probe = start + («end» - start) / 2 →
      (∀ y, last = some y → (y < start ∨ «end» ≤ y) ∧ y < (render lines).length) →
      (M ≠ [] → (render M).length * 2 ^ d ≤ (render lines).length) → (M = [] → d ≤ 63) →
      seekLoop P (fileOfLines lines) tsOf target fuel start «end» probe last d =
        .error (absentErr tsOf target lines) := by
  intro n
  induction n with
  | zero =>
    intro A M B fuel d start «end» probe last hn hsplit _ hA hB hfuel hstart hend hprobe hlast _ hd0
    have hM : M = [] := List.eq_nil_of_length_eq_zero (by omega)
    subst hM
    simp only [List.append_nil] at hsplit hend
    have : «end» = start := by rw [hend, hstart]
    subst this
    rw [hprobe]
    exact seekLoop_gap P tsOf target lines hP ctx hne A B hsplit hA hB fuel d _ last hfuel (hd0 rfl) hstart
      (fun y hy => (hlast y hy).2)
  | succ n ih =>
    intro A M B fuel d start «end» probe last hn hsplit hy hA hB hfuel hstart hend hprobe hlast hpow hd0
    by_cases hM : M = []
    · subst hM
      simp only [List.append_nil] at hsplit hend
      have : «end» = start := by rw [hend, hstart]
      subst this
      rw [hprobe]
      exact seekLoop_gap P tsOf target lines hP ctx hne A B hsplit hA hB fuel d _ last hfuel (hd0 rfl) hstart
        (fun y hy => (hlast y hy).2)
    have hMlen : 0 < (render M).length := by
      rcases Nat.eq_zero_or_pos (render M).length with h | h
      · exact absurd ((render_nil_iff M).1 h) hM
      · exact h
    have hd : d < 63 := depth_small _ _ _ hMlen (hpow hM) hsize
    obtain ⟨fuel', rfl⟩ : ∃ f', fuel = f' + 1 := ⟨fuel - 1, by unfold maxDepth at hfuel; omega⟩
    obtain ⟨N1, x, N2, hMs, hp1, hp2, hstep⟩ :=
      seekLoop_step P tsOf target lines hP ctx A M B hsplit hM fuel' d start «end» probe last hstart hend hprobe
        (fun y hy => (hlast y hy).1)
    rw [hstep]
    have hsorted := ctx.sorted
    rw [hsplit, hMs] at hsorted
    obtain ⟨hN1, hN2⟩ := sorted_mid A N1 N2 B x hsorted
    have hMl := render_mid_length N1 N2 x
    rw [← hMs] at hMl
    have hs : (render (A ++ N1)).length = start + (render N1).length := by
      rw [render_append, List.length_append, hstart]
    have hend' : «end» = start + (render M).length := by
      rw [hend, render_append, List.length_append, hstart]
    have hendle : «end» ≤ (render lines).length := by
      rw [hsplit, render_append, List.length_append, ← hend]; omega
    have hx : ¬ (tsOf x = target) := hy x (by rw [hMs]; simp)
    have hnd : ¬ (d + 1 ≥ maxDepth) := by unfold maxDepth; omega
    simp only [hx, hnd, if_false]
    by_cases hgt : tsOf x > target
    · simp only [hgt, if_true]
      exact ih A N1 (x :: N2 ++ B) fuel' (d + 1) start (render (A ++ N1)).length _ (some (render (A ++ N1)).length)
        (by rw [hMs] at hn; simp at hn; omega) (by rw [hsplit, hMs]; simp)
        (fun y hy' => hy y (by rw [hMs]; simp [hy'])) hA
        (by
          intro l hl
          simp only [List.cons_append, List.mem_cons, List.mem_append] at hl
          rcases hl with h | h | h
          · subst h; exact hgt
          · have := hN2 l h; omega
          · exact hB l h)
        (by omega) hstart rfl (midpoint_le _ _ (by omega))
        (by intro z hz; cases hz; exact ⟨Or.inr (Nat.le_refl _), by omega⟩)
        (fun _ => halve_bound _ _ _ _ (by omega) (hpow hM)) (fun _ => by omega)
    · simp only [hgt, if_false]
      have hlt : tsOf x < target := by omega
      have hA' : (render (A ++ N1 ++ [x])).length = (render (A ++ N1)).length + x.length + 1 :=
        render_snoc_length _ _
      have hAM : A ++ N1 ++ [x] ++ N2 = A ++ M := by rw [hMs]; simp
      exact ih (A ++ N1 ++ [x]) N2 B fuel' (d + 1) ((render (A ++ N1)).length + x.length + 1) «end» _
        (some (render (A ++ N1)).length)
        (by rw [hMs] at hn; simp at hn; omega) (by rw [hsplit, hMs]; simp)
        (fun y hy' => hy y (by rw [hMs]; simp [hy']))
        (by
          intro l hl
          simp only [List.mem_append, List.mem_singleton] at hl
          rcases hl with (h | h) | h
          · exact hA l h
          · have := hN1 l h; omega
          · subst h; exact hlt)
        hB (by omega) hA'.symm (by rw [hAM]; exact hend) (midpoint_le _ _ (by omega))
        (by intro z hz; cases hz; exact ⟨Or.inl (by omega), by omega⟩)
        (fun _ => halve_bound _ _ _ _ (by omega) (hpow hM)) (fun _ => by omega)

/-! ### any byte content: the loop stops by its own returns -/

theorem probeScan_ne_fuel (g : Nat → Nat) (sp rel bl : Nat) :
    probeScan g sp rel bl ≠ .error .fuel := by
  unfold probeScan
  cases scanFwd g rel (bl - rel) <;> simp only <;> split <;> (intro h; cases h)

theorem readProbeLine_ne_fuel (f : File) (p : Nat) : readProbeLine P f p ≠ .error .fuel := by
  unfold readProbeLine
  by_cases hp : p > P.maxEntry
  · simp only [hp, if_true]
    split
    · intro h; cases h
    · exact probeScan_ne_fuel _ _ _ _
  · simp only [hp, if_false]
    split
    · intro h; cases h
    · exact probeScan_ne_fuel _ _ _ _

/-- On ANY file content, any `tsOf`, any target: the search loop ends by one of its
own `return`s within `maxDepth` (= 100) probes — the model's recursion budget is
never what stops it. -/
theorem seekLoop_ne_fuel (f : File) :
    ∀ (fuel start «end» probe : Nat) (last : Option Nat) (d : Nat), fuel + d = maxDepth → d < maxDepth →
      seekLoop P f tsOf target fuel start «end» probe last d ≠ .error .fuel := by
  intro fuel
  induction fuel with
  | zero => intro _ _ _ _ d h1 h2; omega
  | succ fuel ih =>
    intro start «end» probe last d h1 h2
    rw [seekLoop]
    have hp := readProbeLine_ne_fuel P f probe
    split
    · next e he => intro h; cases h; exact hp he
    · next lineIdx stop lineEndIdx he =>
      split
      · next e hv =>
        intro h; cases h
        unfold validateIdx at hv
        split at hv
        · split at hv <;> cases hv
        · split at hv <;> cases hv
      · simp only
        split
        · intro h; cases h
        · split
          · intro h; cases h
          · split
            · intro h; cases h
            · next hnd => exact ih _ _ _ _ _ (by omega) (by omega)

/-- A successful search loop stands on a line whose timestamp is the target, and
its depth is below the guard — on ANY file content. -/
theorem seekLoop_ok_sound (f : File) :
    ∀ (fuel start «end» probe : Nat) (last : Option Nat) (d a b d' : Nat),
      seekLoop P f tsOf target fuel start «end» probe last d = .ok (a, b, d') →
      tsOf (f.slice a b) = target ∧ d ≤ d' ∧ (d < maxDepth → d' < maxDepth) := by
  intro fuel
  induction fuel with
  | zero => intro _ _ _ _ d a b d' h; simp [seekLoop] at h
  | succ fuel ih =>
    intro start «end» probe last d a b d' h
    rw [seekLoop] at h
    split at h
    · cases h
    · split at h
      · cases h
      · simp only at h
        split at h
        · cases h
        · split at h
          · next ht =>
            simp only [Except.ok.injEq, Prod.mk.injEq] at h
            obtain ⟨rfl, rfl, rfl⟩ := h
            exact ⟨ht, Nat.le_refl _, fun h => h⟩
          · split at h
            · cases h
            · next hnd =>
              have := ih _ _ _ _ _ _ _ _ h
              exact ⟨this.1, by omega, fun _ => this.2.2 (by omega)⟩

end
end AGH.C20
