/-
C10 — helper lemmas, part 9: DHCP messages (and the clock) never touch a
reservation: the static leases of the table, in order, with all their fields,
are the same before and after.
-/
import AGH.Lemmas.DHCPRestart
namespace AGH.C10
open AGH

/-- The reservations of the table. -/
def statics (s : State) : List Lease := s.leases.filter (·.static)

theorem filter_static_middle {A B : List Lease} {l : Lease} (h : l.static = false) :
    (A ++ l :: B).filter (·.static) = (A ++ B).filter (·.static) := by
  simp [List.filter_append, h]

theorem filter_static_snoc {A : List Lease} {l : Lease} (h : l.static = false) :
    (A ++ [l]).filter (·.static) = A.filter (·.static) := by
  simp [List.filter_append, h]

theorem rmDynLoop_statics (c : Conf) (mac : Bytes) (ip : Nat) (host : Bytes) :
    ∀ (todo pre : List Lease) (s : State),
      (rmDynLoop c mac ip host pre todo s).1.leases.filter (·.static) = (pre ++ todo).filter (·.static) := by
  intro todo
  induction todo with
  | nil => intro pre s; simp [rmDynLoop]
  | cons l rest ih =>
    intro pre s
    unfold rmDynLoop
    split
    · split
      · rfl
      · next hs =>
        rw [ih]
        exact (filter_static_middle (by simpa using hs)).symm
    · split
      · next hc =>
        have hs : l.static = false := by
          simp only [Bool.and_eq_true, Bool.not_eq_true'] at hc
          exact hc.1
        rw [ih, List.append_assoc]
        simp only [List.singleton_append]
        rw [filter_static_middle (l := { l with host := [] }) hs, filter_static_middle hs]
      · rw [ih, List.append_assoc]; rfl

theorem rmDynamicLease_statics (c : Conf) (mac : Bytes) (ip : Nat) (host : Bytes) (s : State) :
    statics (rmDynamicLease c mac ip host s).1 = statics s := by
  unfold statics rmDynamicLease
  rw [rmDynLoop_statics]; rfl

theorem mapId_statics {id : Nat} {f : Lease → Lease} : ∀ {L : List Lease},
    (∀ x ∈ L, x.id = id → x.static = false ∧ (f x).static = false) →
    (mapId id f L).filter (·.static) = L.filter (·.static) := by
  intro L
  induction L with
  | nil => intro _; rfl
  | cons x xs ih =>
    intro h
    have ih' := ih (fun y hy => h y (List.mem_cons_of_mem _ hy))
    unfold mapId at ih' ⊢
    rw [List.map_cons]
    by_cases hx : x.id = id
    · obtain ⟨h1, h2⟩ := h x List.mem_cons_self hx
      rw [if_pos hx, List.filter_cons, List.filter_cons]
      simp only [h1, h2, Bool.false_eq_true, if_false]
      exact ih'
    · rw [if_neg hx, List.filter_cons, List.filter_cons, ih']

theorem update_statics {c : Conf} {s : State} {l : Lease} {f : Lease → Lease} (h : Inv c s) (hl : l ∈ s.leases)
    (hd : l.static = false) (hf : (f l).static = false) : statics (s.update l.id f) = statics s := by
  unfold statics State.update
  apply mapId_statics
  intro x hx hid
  have : x = l := nodup_map_inj h.idNodup hx hl hid
  subst this
  exact ⟨hd, hf⟩

theorem allocate_statics {c : Conf} {s : State} {mac : Bytes} (h : Inv c s) :
    statics (allocateLease c mac s).1 = statics s := by
  unfold allocateLease
  cases nextIP c s with
  | none =>
    simp only []
    cases hf : findExpired s.now s.leases with
    | none => rfl
    | some l =>
      obtain ⟨hl, hst, _⟩ := findExpired_some hf
      exact update_statics h hl hst hst
  | some ip =>
    simp only []
    cases hadd : addLease c { id := s.nextId, mac := mac, ip := ip, host := [], static := false, exp := 0 } s.fresh.2 with
    | error e => rfl
    | ok s' =>
      simp only []
      unfold statics
      rw [(addLease_leases hadd).1]
      exact filter_static_snoc rfl

theorem renameLease_statics {c : Conf} {s : State} {l : Lease} (hn : Bytes) (e : Nat) (h : Inv c s)
    (hl : l ∈ s.leases) (hd : l.static = false) : statics (renameLease l hn e s) = statics s := by
  unfold statics
  rw [(renameLease_frame l hn e).1]
  exact mapId_statics (fun x hx hid => by
    have : x = l := nodup_map_inj h.idNodup hx hl hid
    subst this
    exact ⟨hd, hd⟩)

theorem handleDiscover_statics {c : Conf} {s : State} {mac : Bytes} (h : Inv c s) :
    statics (handleDiscover c mac s).1 = statics s := by
  unfold handleDiscover
  cases findLease mac s with
  | some l => rfl
  | none =>
    simp only []
    have := allocate_statics (mac := mac) h
    rcases hal : allocateLease c mac s with ⟨s1, r⟩
    rw [hal] at this
    rcases r with _ | _ | l <;> exact this

theorem handleRequest_statics {O : Oracle} {c : Conf} {s : State} {mac : Bytes} {sid : Nat} {rp : Bool}
    {rip ci : Nat} {hn : Bytes} (h : Inv c s) : statics (handleRequest O c mac sid rp rip ci hn s).1 = statics s := by
  unfold handleRequest
  rcases hb : handleByRequestType c mac sid rp rip ci s with ⟨lo, b⟩
  rcases lo with _ | l
  · cases b <;> rfl
  · simp only []
    obtain ⟨hl, _⟩ := hbrt_some hb
    split
    · rfl
    · next hs =>
      have hd : l.static = false := by simpa using hs
      show statics (commitLease O c l hn s) = statics s
      unfold commitLease
      exact renameLease_statics _ _ h hl hd

theorem handleDecline_statics {c : Conf} {s : State} {mac : Bytes} {rp : Bool} {rip ci : Nat} (h : Inv c s) : statics (handleDecline c mac rp rip ci s).1 = statics s := by
  unfold handleDecline
  simp only []
  cases hf : s.leases.find? (fun l => l.mac == mac && l.ip == msgIP rp rip ci) with
  | none => rfl
  | some old =>
    simp only []
    have hold : old.mac = mac := by
      have := List.find?_some hf
      simp only [Bool.and_eq_true, beq_iff_eq] at this
      exact this.1
    have hst1 := rmDynamicLease_statics c old.mac old.ip old.host s
    have hi1 := rmDynamicLease_inv old.mac old.ip old.host h
    have hclean := rmDynLoop_clean c old.mac old.ip old.host s.leases [] s (by intro x hx; cases hx)
    rcases hr : rmDynamicLease c old.mac old.ip old.host s with ⟨s1, e⟩
    rw [hr] at hi1 hst1
    cases e with
    | true => exact hst1
    | false =>
      simp only []
      have hm1 : ∀ y ∈ s1.leases, y.mac ≠ mac := by
        intro y hy
        have := hclean (by unfold rmDynamicLease at hr; rw [hr]) y (by unfold rmDynamicLease at hr; rw [hr]; exact hy)
        rw [← hold]; exact this.1
      have hsp := allocate_spec hi1 hm1
      have hst2 := allocate_statics (mac := mac) hi1
      rcases hal : allocateLease c mac s1 with ⟨s2, r⟩
      rw [hal] at hsp hst2
      obtain ⟨hi2, _, _, hor⟩ := hsp
      rcases r with _ | _ | nl
      · exact hst2.trans hst1
      · exact hst2.trans hst1
      · simp only []
        rcases hor with ⟨hx, _⟩ | ⟨l, A, B, hl1, hl2, _, hl4, _⟩
        · cases hx
        · simp only [Option.some.injEq] at hl1
          subst hl1
          have hmem : nl ∈ s2.leases := by rw [hl2]; exact mem_middle.2 (.inl rfl)
          exact (renameLease_statics _ _ hi2 hmem hl4).trans (hst2.trans hst1)

theorem releaseLoop_statics (c : Conf) (mac : Bytes) (ip : Nat) : ∀ (n k : Nat) (s : State),
    statics (releaseLoop c mac ip n k s).1 = statics s := by
  intro n
  induction n with
  | zero => intro k s; rfl
  | succ n ih =>
    intro k s
    unfold releaseLoop
    split
    · exact ih _ _
    · split
      · exact ih _ _
      · next l _ =>
        split
        · exact ih _ _
        · have hst := rmDynamicLease_statics c l.mac l.ip l.host s
          rcases hr : rmDynamicLease c l.mac l.ip l.host s with ⟨s1, e⟩
          rw [hr] at hst
          cases e
          · exact (ih _ _).trans hst
          · exact hst

theorem handleRelease_statics {c : Conf} {s : State} {mac : Bytes} {rp : Bool} {rip ci : Nat} :
    statics (handleRelease c mac rp rip ci s).1 = statics s := by
  unfold handleRelease
  simp only []
  have := releaseLoop_statics c mac (msgIP rp rip ci) s.leases.length 0 { s with stale := [] }
  rcases hr : releaseLoop c mac (msgIP rp rip ci) s.leases.length 0 { s with stale := [] } with ⟨s1, e⟩
  rw [hr] at this
  cases e <;> exact this

/-- Is the operation a DHCP message or a lapse of time? -/
def Op.isDHCP : Op → Bool
  | .discover .. | .request .. | .decline .. | .release .. | .sleep .. => true
  | _ => false

theorem step_statics {O : Oracle} {c : Conf} {s : State} {op : Op} (h : Inv c s)
    (hd : op.isDHCP = true) : statics (step O c s op).1 = statics s := by
  have h0 : Inv c { s with stale := [] } := Inv_congr h rfl rfl rfl rfl rfl rfl
  unfold step
  simp only []
  cases op with
  | discover mac =>
    simp only []
    split
    · rfl
    · exact handleDiscover_statics h0
  | request mac sid rp rip ci hn =>
    simp only []
    split
    · rfl
    · exact handleRequest_statics h0
  | decline mac rp rip ci =>
    simp only []
    split
    · rfl
    · exact handleDecline_statics h0
  | release mac rp rip ci =>
    simp only []
    split
    · rfl
    · exact handleRelease_statics
  | sleep d => rfl
  | addStatic => simp [Op.isDHCP] at hd
  | updStatic => simp [Op.isDHCP] at hd
  | rmStatic => simp [Op.isDHCP] at hd
  | restart => simp [Op.isDHCP] at hd
  | reorder => simp [Op.isDHCP] at hd
  | resetLeases => simp [Op.isDHCP] at hd

theorem obs_reservationsOf (c : Conf) (s : State) :
    reservationsOf (obsOf c s) = ((statics s).map Lease.view).map LeaseV.norm := by
  unfold reservationsOf statics
  show ((s.leases.map Lease.view).filter (·.static)).map LeaseV.norm = _
  rw [List.filter_map]
  rfl

theorem obs_reservationsKept {O : Oracle} {c : Conf} {s : State} {op : Op} (h : Inv c s) :
    reservationsKept (obsOf c s) op (obsOf c (step O c s op).1) = true := by
  unfold reservationsKept
  cases op with
  | discover mac =>
    simp only [obs_reservationsOf, step_statics (O := O) h (op := .discover mac) rfl, beq_self_eq_true]
  | request mac sid rp rip ci hn =>
    simp only [obs_reservationsOf, step_statics (O := O) h (op := .request mac sid rp rip ci hn) rfl, beq_self_eq_true]
  | decline mac rp rip ci =>
    simp only [obs_reservationsOf, step_statics (O := O) h (op := .decline mac rp rip ci) rfl, beq_self_eq_true]
  | release mac rp rip ci =>
    simp only [obs_reservationsOf, step_statics (O := O) h (op := .release mac rp rip ci) rfl, beq_self_eq_true]
  | sleep d =>
    simp only [obs_reservationsOf, step_statics (O := O) h (op := .sleep d) rfl, beq_self_eq_true]
  | addStatic => rfl
  | updStatic => rfl
  | rmStatic => rfl
  | restart => rfl
  | reorder => rfl
  | resetLeases => rfl

end AGH.C10
