/-
C12: simultaneous logins under controlLock are a sequential history.
-/
import AGH.Lemmas.AuthHorizon
namespace AGH.C12

theorem handleLogin_two_steps (st : St) (now : Nat) (r : Req) (good : Bool) (user : Nat) :
    handleLogin st now r good user =
      match login1 st now r with
      | (some res, st') => (res, st')
      | (none, st') => login2 st' now r good user := by
  unfold handleLogin loginAt login1 login2
  cases hrl : st.rl with
  | none => simp only [hrl]
  | some l =>
    simp only
    split
    · rfl
    · simp only [evalLogin]

theorem seqLogins_snoc (now : Nat) (job : Nat → Job) (st : St) (order : List Nat) (i : Nat) :
    seqLogins now job st (order ++ [i]) =
      ((handleLogin (seqLogins now job st order).1 now (job i).req (job i).good (job i).user).2,
       fun k => if k = i then
           some (handleLogin (seqLogins now job st order).1 now (job i).req (job i).good (job i).user).1
         else (seqLogins now job st order).2 k) := by
  simp [seqLogins, List.foldl_append]

/-- invariant of the locked system -/
structure LockInv (now : Nat) (job : Nat → Job) (st0 : St) (c : Conc) : Prop where
  started : ∀ i, c.pc i = 0 ↔ i ∉ c.order
  nodup : c.order.Nodup
  free : c.holder = none →
    (∀ i, c.pc i ≠ 1) ∧ c.st = (seqLogins now job st0 c.order).1 ∧
    ∀ i ∈ c.order, c.res i = (seqLogins now job st0 c.order).2 i
  held : ∀ h, c.holder = some h →
    c.pc h = 1 ∧ (∀ i, i ≠ h → c.pc i ≠ 1) ∧
    ∃ pre, c.order = pre ++ [h] ∧
      login1 (seqLogins now job st0 pre).1 now (job h).req = (none, c.st) ∧
      ∀ i ∈ pre, c.res i = (seqLogins now job st0 pre).2 i

theorem lockInv_init (now : Nat) (job : Nat → Job) (st0 : St) : LockInv now job st0 (Conc.init st0) :=
  ⟨fun i => by simp [Conc.init], List.nodup_nil,
   fun _ => ⟨fun i => by simp [Conc.init], rfl, fun i hi => by simp [Conc.init] at hi⟩,
   fun h hh => by simp [Conc.init] at hh⟩

theorem lockInv_step {now : Nat} {job : Nat → Job} {st0 : St} {c : Conc} (h : LockInv now job st0 c) (i : Nat) :
    LockInv now job st0 (stepT true now job c i) := by
  unfold stepT
  by_cases h0 : c.pc i = 0
  · simp only [h0, if_true, Bool.true_and]
    cases hh : c.holder with
    | some x => simp only [Option.isSome_some, if_true]; exact h
    | none =>
      simp only [Option.isSome_none, Bool.false_eq_true, if_false]
      obtain ⟨f1, f2, f3⟩ := h.free hh
      have hni : i ∉ c.order := (h.started i).mp h0
      have hnd : (c.order ++ [i]).Nodup := by
        rw [List.nodup_append]
        exact ⟨h.nodup, by simp, fun a ha b hb => by simp at hb; subst hb; rintro rfl; exact hni ha⟩
      have hstart : ∀ k, (if k = i then (2 : Nat) else c.pc k) = 0 ↔ k ∉ c.order ++ [i] := by
        intro k
        by_cases hk : k = i
        · subst hk; simp
        · simp [hk, h.started k]
      have hstart1 : ∀ k, (if k = i then (1 : Nat) else c.pc k) = 0 ↔ k ∉ c.order ++ [i] := by
        intro k
        by_cases hk : k = i
        · subst hk; simp
        · simp [hk, h.started k]
      have h2 := handleLogin_two_steps c.st now (job i).req (job i).good (job i).user
      cases hl : login1 c.st now (job i).req with
      | mk o st' =>
        cases o with
        | some r =>
          simp only
          rw [hl] at h2
          simp only at h2
          refine ⟨hstart, hnd, fun _ => ⟨?_, ?_, ?_⟩, fun x hx => by simp [hh] at hx⟩
          · intro k
            by_cases hk : k = i
            · subst hk; simp
            · simp [hk, f1 k]
          · rw [seqLogins_snoc, ← f2, h2]
          · intro k hk
            rw [seqLogins_snoc, ← f2, h2]
            by_cases hki : k = i
            · subst hki; simp
            · simp only [hki, if_false]
              have : k ∈ c.order := by simpa [hki] using hk
              exact f3 k this
        | none =>
          simp only [if_true]
          refine ⟨hstart1, hnd, fun hf => by simp at hf, fun x hx => ?_⟩
          have hx' : x = i := by simpa using hx.symm
          subst hx'
          refine ⟨by simp, fun k hk => by simp [hk, f1 k], c.order, rfl, ?_, ?_⟩
          · rw [← f2]; exact hl
          · intro k hk
            have : k ≠ x := fun e => hni (e ▸ hk)
            simp only [this, if_false]
            exact f3 k hk
  · simp only [h0, if_false]
    by_cases h1 : c.pc i = 1
    · simp only [h1, if_true]
      -- then i holds the lock
      have hhold : c.holder = some i := by
        cases hh : c.holder with
        | none => exact absurd h1 ((h.free hh).1 i)
        | some x =>
          by_cases hx : i = x
          · rw [hx]
          · exact absurd h1 ((h.held x hh).2.1 i hx)
      obtain ⟨_, g2, pre, g3, g4, g5⟩ := h.held i hhold
      have h2 := handleLogin_two_steps (seqLogins now job st0 pre).1 now (job i).req (job i).good (job i).user
      rw [g4] at h2
      simp only at h2
      have hnd := h.nodup
      rw [g3] at hnd
      have hni : i ∉ pre := by
        intro hm
        rw [List.nodup_append] at hnd
        exact hnd.2.2 i hm i (by simp) rfl
      refine ⟨?_, h.nodup, fun _ => ⟨?_, ?_, ?_⟩, fun x hx => by simp at hx⟩
      · intro k
        by_cases hk : k = i
        · subst hk; simp [g3]
        · simp [hk, h.started k]
      · intro k
        by_cases hk : k = i
        · subst hk; simp
        · simp [hk, g2 k hk]
      · show (login2 c.st now (job i).req (job i).good (job i).user).2 = _
        rw [g3, seqLogins_snoc, h2]
      · intro k hk
        show (if k = i then some (login2 c.st now (job i).req (job i).good (job i).user).1 else c.res k) = _
        rw [g3, seqLogins_snoc, h2]
        by_cases hki : k = i
        · subst hki; simp
        · simp only [hki, if_false]
          have : k ∈ pre := by
            rw [g3] at hk; simpa [hki] using hk
          exact g5 k this
    · simp only [h1, if_false]; exact h

end AGH.C12
