/-
C08 lemmas: the anonymizer (`AnonymizeIP`), the canonical form of an address
and the mask predicate.
-/
import AGH.Spec.Record
set_option linter.unusedSimpArgs false
set_option linter.unusedSectionVars false
namespace AGH.C08
open AGH AGH.Bytes

theorem len4_cases {a : Bytes} (h : a.length = 4) : ∃ a0 a1 a2 a3, a = [a0, a1, a2, a3] := by
  match a, h with
  | [a0, a1, a2, a3], _ => exact ⟨a0, a1, a2, a3, rfl⟩

theorem len16_cases {a : Bytes} (h : a.length = 16) :
    ∃ a0 a1 a2 a3 a4 a5 a6 a7 a8 a9 a10 a11 a12 a13 a14 a15,
      a = [a0, a1, a2, a3, a4, a5, a6, a7, a8, a9, a10, a11, a12, a13, a14, a15] := by
  match a, h with
  | [a0, a1, a2, a3, a4, a5, a6, a7, a8, a9, a10, a11, a12, a13, a14, a15], _ =>
    exact ⟨a0, a1, a2, a3, a4, a5, a6, a7, a8, a9, a10, a11, a12, a13, a14, a15, rfl⟩

theorem anonymize_length (a : Bytes) : (anonymize a).length = a.length := by
  unfold anonymize
  by_cases h4 : a.length = 4
  · simp [h4, zeros]
  · by_cases h6 : is4in6 a = true
    · have : a.length = 16 := by
        simp [is4in6] at h6; exact h6.1.1
      simp [h4, h6, this, zeros]
    · by_cases h16 : a.length = 16
      · simp [h4, h6, h16, zeros]
      · simp [h4, h6, h16]

theorem is4in6_length {a : Bytes} (h : is4in6 a = true) : a.length = 16 := by
  simp [is4in6] at h; exact h.1.1

/-- With anonymisation on, the stored form of any client address has its last
16 bits (IPv4, also IPv4-mapped) or 80 bits (IPv6) zeroed. -/
theorem masked_canon_anonymize (a : Bytes) (h : a.length = 4 ∨ a.length = 16) :
    masked (canon (anonymize a)) = true := by
  rcases h with h | h
  · obtain ⟨a0, a1, a2, a3, rfl⟩ := len4_cases h
    simp [anonymize, canon, is4in6, masked, zeros]
  · obtain ⟨a0, a1, a2, a3, a4, a5, a6, a7, a8, a9, a10, a11, a12, a13, a14, a15, rfl⟩ := len16_cases h
    by_cases hc : ((a0 = 0 ∧ a1 = 0 ∧ a2 = 0 ∧ a3 = 0 ∧ a4 = 0 ∧ a5 = 0 ∧ a6 = 0 ∧ a7 = 0 ∧ a8 = 0 ∧ a9 = 0) ∧ a10 = 255 ∧ a11 = 255)
    · obtain ⟨⟨rfl, rfl, rfl, rfl, rfl, rfl, rfl, rfl, rfl, rfl⟩, rfl, rfl⟩ := hc
      simp [anonymize, canon, is4in6, masked, zeros]
    · simp [anonymize, canon, is4in6, masked, zeros, hc]

theorem anonymize_idem (a : Bytes) : anonymize (anonymize a) = anonymize a := by
  by_cases h4 : a.length = 4
  · obtain ⟨a0, a1, a2, a3, rfl⟩ := len4_cases h4
    simp [anonymize, zeros]
  · by_cases h16 : a.length = 16
    · obtain ⟨a0, a1, a2, a3, a4, a5, a6, a7, a8, a9, a10, a11, a12, a13, a14, a15, rfl⟩ := len16_cases h16
      by_cases hc : ((a0 = 0 ∧ a1 = 0 ∧ a2 = 0 ∧ a3 = 0 ∧ a4 = 0 ∧ a5 = 0 ∧ a6 = 0 ∧ a7 = 0 ∧ a8 = 0 ∧ a9 = 0) ∧ a10 = 255 ∧ a11 = 255)
      · obtain ⟨⟨rfl, rfl, rfl, rfl, rfl, rfl, rfl, rfl, rfl, rfl⟩, rfl, rfl⟩ := hc
        simp [anonymize, is4in6, zeros]
      · simp [anonymize, is4in6, zeros, hc]
    · have : is4in6 a = false := by
        cases h : is4in6 a
        · rfl
        · exact absurd (is4in6_length h) h16
      simp [anonymize, h4, h16, this]

/-- The canonical form of a valid address is a valid address. -/
theorem canon_length (a : Bytes) (h : a.length = 4 ∨ a.length = 16) :
    (canon a).length = 4 ∨ (canon a).length = 16 := by
  unfold canon
  by_cases h6 : is4in6 a = true
  · simp [h6, is4in6_length h6]
  · simp [h6, h]

/-- A canonical address is never IPv4-mapped, so `canon` is idempotent. -/
theorem canon_canon (a : Bytes) : canon (canon a) = canon a := by
  unfold canon
  by_cases h6 : is4in6 a = true
  · have hl := is4in6_length h6
    have : is4in6 (a.drop 12) = false := by
      simp [is4in6, hl]
    simp [h6, this]
  · simp [h6]

/-- Masking a canonical address keeps it canonical. -/
theorem canon_anonymize_canon (a : Bytes) (h : a.length = 4 ∨ a.length = 16) :
    masked (canon (anonymize (canon a))) = true :=
  masked_canon_anonymize (canon a) (canon_length a h)

end AGH.C08

namespace AGH.C08
open AGH AGH.Bytes

/-- How many leading bytes `AnonymizeIP` keeps: 2 of an IPv4 address (16 bits),
14 of an IPv4-mapped one (the prefix and the same 16 bits), 6 of an IPv6
address (48 bits). -/
def keepBytes (a : Bytes) : Nat := if a.length = 4 then 2 else if is4in6 a then 14 else 6

theorem anonymize_eq_take (a : Bytes) (h : a.length = 4 ∨ a.length = 16) :
    anonymize a = a.take (keepBytes a) ++ zeros (a.length - keepBytes a) := by
  unfold anonymize keepBytes
  rcases h with h | h
  · simp [h, zeros]
  · by_cases h6 : is4in6 a = true
    · simp [h, h6, zeros]
    · simp [h, h6, zeros]

/-- Bit-exact description of the mask: every byte before `keepBytes` is kept,
every byte from there on is zero. -/
theorem anonymize_bytes (a : Bytes) (h : a.length = 4 ∨ a.length = 16) (i : Nat) :
    (i < keepBytes a → (anonymize a)[i]? = a[i]?) ∧
    (keepBytes a ≤ i → i < a.length → (anonymize a)[i]? = some 0) := by
  have hk : keepBytes a ≤ a.length := by
    unfold keepBytes
    rcases h with h | h
    · simp [h]
    · by_cases h6 : is4in6 a = true <;> simp [h, h6]
  rw [anonymize_eq_take a h]
  have hl : (a.take (keepBytes a)).length = keepBytes a := by
    simp [List.length_take]; omega
  constructor
  · intro hi
    rw [List.getElem?_append_left (by omega)]
    simp [List.getElem?_take, hi]
  · intro hi hlt
    rw [List.getElem?_append_right (by omega), hl]
    simp [zeros, List.getElem?_replicate]
    omega

end AGH.C08
