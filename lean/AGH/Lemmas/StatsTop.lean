/-
C09: the per-name maps add up to the unit's counters; truncation to the top N
on serialisation keeps the N largest counts and drops the rest.
-/
import AGH.Model.StatsTop
namespace AGH.C09

theorem total_inc (m : CountMap) (k : Nat) : (m.inc k).total = m.total + 1 := by
  induction m with
  | nil => simp [CountMap.inc, CountMap.total]
  | cons x r ih =>
    obtain ⟨k', c⟩ := x
    simp only [CountMap.inc]
    by_cases h : k' = k
    · simp [h, CountMap.total]; omega
    · simp only [h, if_false]
      simp only [CountMap.total, List.map_cons, List.sum_cons] at ih ⊢
      omega

/-- The maps of a unit account for every counted query. -/
structure TopBal (u : TopUnit) : Prop where
  clients : u.clients.total = u.nTotal
  domains : u.domains.total = u.nResult 1
  blocked : u.blocked.total = u.nResult 2 + u.nResult 3 + u.nResult 4 + u.nResult 5
  total : u.nTotal = u.nResult 1 + u.nResult 2 + u.nResult 3 + u.nResult 4 + u.nResult 5

theorem topBal_new : TopBal TopUnit.new := by
  constructor <;> simp [TopUnit.new, CountMap.total]

theorem topBal_add {u : TopUnit} (h : TopBal u) (e : TopEntry) (h1 : 1 ≤ e.result) (h5 : e.result ≤ 5) :
    TopBal (u.add e) := by
  have hc := h.clients
  have hd := h.domains
  have hb := h.blocked
  have ht := h.total
  have hcases : e.result = 1 ∨ e.result = 2 ∨ e.result = 3 ∨ e.result = 4 ∨ e.result = 5 := by omega
  constructor
  · simp only [TopUnit.add, total_inc]; omega
  · rcases hcases with hr | hr | hr | hr | hr <;> simp [TopUnit.add, hr, total_inc] <;> omega
  · rcases hcases with hr | hr | hr | hr | hr <;> simp [TopUnit.add, hr, total_inc] <;> omega
  · rcases hcases with hr | hr | hr | hr | hr <;> simp [TopUnit.add, hr] <;> omega

theorem topBal_adds (es : List TopEntry) (hes : ∀ e ∈ es, 1 ≤ e.result ∧ e.result ≤ 5) {u : TopUnit} (h : TopBal u) :
    TopBal (es.foldl TopUnit.add u) := by
  induction es generalizing u with
  | nil => exact h
  | cons e es ih =>
    have he := hes e (List.mem_cons_self ..)
    exact ih (fun x hx => hes x (List.mem_cons_of_mem _ hx)) (topBal_add h e he.1 he.2)

theorem total_addN (m : CountMap) (k c : Nat) : (m.addN k c).total = m.total + c := by
  induction m with
  | nil => simp [CountMap.addN, CountMap.total]
  | cons x r ih =>
    obtain ⟨k', c'⟩ := x
    simp only [CountMap.addN]
    by_cases h : k' = k
    · simp [h, CountMap.total]; omega
    · simp only [h, if_false]
      simp only [CountMap.total, List.map_cons, List.sum_cons] at ih ⊢
      omega

theorem total_addAll (ps : List (Nat × Nat)) (m : CountMap) :
    (ps.foldl (fun m p => m.addN p.1 p.2) m).total = m.total + (ps.map (·.2)).sum := by
  induction ps generalizing m with
  | nil => simp
  | cons p ps ih => simp only [List.foldl_cons, ih, total_addN, List.map_cons, List.sum_cons]; omega

theorem total_collect_aux (lists : List (List (Nat × Nat))) (m : CountMap) :
    (lists.foldl (fun m ps => ps.foldl (fun m p => m.addN p.1 p.2) m) m).total =
      m.total + (lists.map fun ps => (ps.map (·.2)).sum).sum := by
  induction lists generalizing m with
  | nil => simp
  | cons ps lists ih => simp only [List.foldl_cons, ih, total_addAll, List.map_cons, List.sum_cons]; omega

/-! ### sorting and truncation -/

def pairsTotal (l : List (Nat × Nat)) : Nat := (l.map (·.2)).sum

theorem perm_total {a b : List (Nat × Nat)} (h : a.Perm b) : pairsTotal a = pairsTotal b := by
  induction h with
  | nil => rfl
  | cons x _ ih => simp only [pairsTotal, List.map_cons, List.sum_cons] at ih ⊢; omega
  | swap x y l => simp only [pairsTotal, List.map_cons, List.sum_cons]; omega
  | trans _ _ ih1 ih2 => exact ih1.trans ih2

theorem insDesc_perm (x : Nat × Nat) (l : List (Nat × Nat)) : (insDesc x l).Perm (x :: l) := by
  induction l with
  | nil => exact List.Perm.refl _
  | cons y r ih =>
    simp only [insDesc]
    by_cases h : y.2 ≥ x.2
    · simp only [h, if_true]
      exact (List.Perm.cons y ih).trans (List.Perm.swap x y r)
    · simp only [h, if_false]
      exact List.Perm.refl _

theorem sortDesc_perm (m : CountMap) : (sortDesc m).Perm m := by
  induction m with
  | nil => exact List.Perm.refl _
  | cons x r ih => exact (insDesc_perm x _).trans (List.Perm.cons x ih)

def Desc (l : List (Nat × Nat)) : Prop := l.Pairwise (fun a b => a.2 ≥ b.2)

theorem insDesc_desc (x : Nat × Nat) (l : List (Nat × Nat)) (h : Desc l) : Desc (insDesc x l) := by
  induction l with
  | nil => simp [insDesc, Desc]
  | cons y r ih =>
    simp only [Desc, List.pairwise_cons] at h
    simp only [insDesc]
    by_cases hy : y.2 ≥ x.2
    · simp only [hy, if_true, Desc, List.pairwise_cons]
      refine ⟨?_, ih h.2⟩
      intro z hz
      have := (insDesc_perm x r).subset hz
      rcases List.mem_cons.mp this with rfl | hz'
      · exact hy
      · exact h.1 z hz'
    · simp only [hy, if_false, Desc, List.pairwise_cons]
      refine ⟨?_, h.1, h.2⟩
      intro z hz
      rcases List.mem_cons.mp hz with rfl | hz'
      · omega
      · have := h.1 z hz'; omega

theorem sortDesc_desc (m : CountMap) : Desc (sortDesc m) := by
  induction m with
  | nil => simp [sortDesc, Desc]
  | cons x r ih => exact insDesc_desc x _ ih

theorem total_take_drop (l : List (Nat × Nat)) (n : Nat) :
    pairsTotal (l.take n) + pairsTotal (l.drop n) = pairsTotal l := by
  induction l generalizing n with
  | nil => simp [pairsTotal]
  | cons x r ih =>
    cases n with
    | zero => simp [pairsTotal]
    | succ n =>
      have := ih n
      simp only [pairsTotal, List.take_succ_cons, List.drop_succ_cons, List.map_cons, List.sum_cons] at this ⊢
      omega

theorem desc_take_drop {l : List (Nat × Nat)} (h : Desc l) (n : Nat) :
    ∀ x ∈ l.take n, ∀ y ∈ l.drop n, y.2 ≤ x.2 := by
  have hsplit : l.take n ++ l.drop n = l := List.take_append_drop n l
  rw [Desc, ← hsplit, List.pairwise_append] at h
  intro x hx y hy
  exact h.2.2 x hx y hy

end AGH.C09
