/-
C20 helper lemmas, part 10: `qLogReader.seekTS` as a function on lines
(`lineSeek`): which sequence of lines the reads after a seek return, for ANY
number of files and without assuming an order across files.  This is the
interface the C07 model assumes ("list of lines, newest first, seek by
timestamp").  Core only.
-/
import AGH.Lemmas.QLogSim
namespace AGH.C20
open AGH

/-- `qLogFile.seekTS` at line level: the index of the entry, or the report. -/
def lineSeekFile (tsOf : Bytes → Int) (lines : List Bytes) (t : Int) : Except Err Nat :=
  match findStampIdx (lines.map tsOf) t with
  | some k => .ok k
  | none => .error (absentErr tsOf t lines)

/-- `qLogReader.seekTS` at line level over files `i-1 … 0`: the lines the following
reads return (`none`: an error is reported and nothing moves).  Found: that
entry and everything older; too early: try the older file (none left: error,
or — with no files at all — success with nothing to read); too late: start over
at the newest entry of the newest file; not found: error. -/
def lineSeek (tsOf : Bytes → Int) (ds : List FileDesc) (t : Int) : Nat → Option (List Bytes)
  | 0 => if ds = [] then some [] else none
  | i + 1 =>
    match lineSeekFile tsOf (ds.getD i {lines := []}).lines t with
    | .ok k => some (fromEntry ds i k)
    | .error .tooEarly => lineSeek tsOf ds t i
    | .error .tooLate => some (allRev ds)
    | .error _ => none

/-- What the refinement assumes of every file: a line file with strictly
increasing non-zero timestamps, below 2⁶³ bytes.  Nothing across files. -/
structure FilesCtx (tsOf : Bytes → Int) (ds : List FileDesc) : Prop where
  rd : ∀ d ∈ ds, readable d = true
  ctx : ∀ d ∈ ds, SeekCtx tsOf d.lines
  small : ∀ d ∈ ds, (render d.lines).length < 2 ^ 63

theorem absentErr_cases (tsOf : Bytes → Int) (t : Int) (lines : List Bytes) :
    absentErr tsOf t lines = .tooEarly ∨ absentErr tsOf t lines = .tooLate ∨
      absentErr tsOf t lines = .notFound := by
  unfold absentErr
  split
  · exact Or.inl rfl
  · split
    · exact Or.inr (Or.inl rfl)
    · exact Or.inr (Or.inr rfl)

section
variable (P : Params) (tsOf : Bytes → Int) (t : Int) (ds : List FileDesc)

theorem rSeekStart_rpos' (r : RState) (hlen : r.files.length = ds.length)
    (hrd : ∀ d ∈ ds, readable d = true) (h0 : ds = [] → r.curN = 0) :
    RPos P ds (rSeekStart (ds.map fileOfDesc) r) (allRev ds) ∧
      (rSeekStart (ds.map fileOfDesc) r).files.length = ds.length := by
  by_cases hne : ds = []
  · subst hne
    refine ⟨Or.inl ⟨?_, rfl⟩, by simpa [rSeekStart] using hlen⟩
    simpa [rSeekStart] using h0 rfl
  · exact rSeekStart_rpos P ds hne r hlen hrd

/-- The byte-level reader implements `lineSeek`. -/
theorem rSeekLoop_lineSeek (hP1 : entryLimit ≤ P.maxEntry) (g : FilesCtx tsOf ds) :
    ∀ (i : Nat) (r : RState), i ≤ ds.length → r.files.length = ds.length → (ds = [] → r.curN = 0) →
      (∀ rem, lineSeek tsOf ds t i = some rem →
        ∃ r', rSeekLoop P (ds.map fileOfDesc) tsOf t i r = (r', .ok ()) ∧ RPos P ds r' rem ∧
          r'.files.length = ds.length) ∧
      (lineSeek tsOf ds t i = none →
        ∃ r', rSeekLoop P (ds.map fileOfDesc) tsOf t i r = (r', .error .notFound) ∧
          SameUpToBuf r r') := by
  intro i
  induction i with
  | zero =>
    intro r _ hlen h0
    by_cases hne : ds = []
    · subst hne
      constructor
      · intro rem hrem
        simp only [lineSeek, if_true, Option.some.injEq] at hrem
        subst hrem
        exact ⟨r, by simp [rSeekLoop], Or.inl ⟨h0 rfl, rfl⟩, hlen⟩
      · intro h; simp [lineSeek] at h
    · constructor
      · intro rem hrem; simp [lineSeek, hne] at hrem
      · intro _
        exact ⟨r, by simp [rSeekLoop, hne], SameUpToBuf.refl r⟩
  | succ i ih =>
    intro r hile hlen h0
    have hilt : i < ds.length := by omega
    let d := ds[i]
    have hd : ds[i]? = some d := List.getElem?_eq_getElem hilt
    have hdm : d ∈ ds := List.getElem_mem hilt
    have hgd : ds.getD i {lines := []} = d := getD_ds ds i d hd
    have hfs := getD_fs ds i d hd (g.rd d hdm)
    have hsame := sameUpToBuf_set r i { (r.files.getD i {}) with hasBuf := false } rfl
    rw [rSeekLoop, hfs]
    simp only [lineSeek, hgd, lineSeekFile]
    cases hf : findStampIdx (d.lines.map tsOf) t with
    | some k =>
      obtain ⟨hk, hts⟩ := findStampIdx_some tsOf d.lines t k hf
      obtain ⟨dd, _, hseek⟩ := seekTS_found P tsOf t d.lines hP1 (g.ctx d hdm) (g.small d hdm) k hk hts
        (r.files.getD i {})
      rw [hseek]
      constructor
      · intro rem hrem
        simp only [Option.some.injEq] at hrem
        subst hrem
        refine ⟨_, rfl, ?_, by simp [hlen]⟩
        right
        refine ⟨i, d, k + 1, rfl, hd, ?_, ?_⟩
        · show FilePos P d.lines (k + 1) ((r.files.set i _).getD i {})
          rw [getD_set_eq _ _ _ _ (by omega)]
          exact ⟨by omega, rfl, by intro h; simp at h⟩
        · unfold fromEntry; rw [hgd]
      · intro h; cases h
    | none =>
      have habs := findStampIdx_none tsOf d.lines t hf
      rw [seekTS_absent P tsOf t d.lines hP1 (g.ctx d hdm) (g.small d hdm) habs (r.files.getD i {})]
      rcases absentErr_cases tsOf t d.lines with he | he | he
      · rw [he]
        simp only
        obtain ⟨ih1, ih2⟩ := ih { r with files := r.files.set i _ } (by omega) (by simp [hlen]) h0
        constructor
        · exact ih1
        · intro hn
          obtain ⟨r', h1, h2⟩ := ih2 hn
          exact ⟨r', h1, hsame.trans h2⟩
      · rw [he]
        simp only
        constructor
        · intro rem hrem
          simp only [Option.some.injEq] at hrem
          subst hrem
          obtain ⟨hp, hl⟩ := rSeekStart_rpos' P ds { r with files := r.files.set i _ } (by simp [hlen]) g.rd h0
          exact ⟨_, rfl, hp, hl⟩
        · intro h; cases h
      · rw [he]
        simp only
        constructor
        · intro rem hrem; cases hrem
        · intro _; exact ⟨_, rfl, hsame⟩

/-- Seek, then read: the reads return exactly `lineSeek`'s lines, then `io.EOF`. -/
theorem rSeekTS_lineSeek (hP1 : entryLimit ≤ P.maxEntry) (hP2 : P.maxEntry ≤ P.bufSize)
    (g : FilesCtx tsOf ds) (r : RState) (hlen : r.files.length = ds.length)
    (h0 : ds = [] → r.curN = 0) :
    (∀ rem, lineSeek tsOf ds t ds.length = some rem →
      ∃ r1, rSeekTS P (ds.map fileOfDesc) tsOf r t = (r1, .ok ()) ∧
        ∀ n, ∃ r' xs, rReadMany P (ds.map fileOfDesc) n r1 [] =
            (r', xs, if n > rem.length then some Err.eof else none) ∧
          xs.map (fun x => ((ds.map fileOfDesc).getD x.1 noFile).slice x.2.1 x.2.2) = rem.take n) ∧
    (lineSeek tsOf ds t ds.length = none →
      ∃ r', rSeekTS P (ds.map fileOfDesc) tsOf r t = (r', .error .notFound) ∧ SameUpToBuf r r') := by
  obtain ⟨h1, h2⟩ := rSeekLoop_lineSeek P tsOf t ds hP1 g ds.length r (Nat.le_refl _) hlen h0
  unfold rSeekTS
  rw [List.length_map]
  constructor
  · intro rem hrem
    obtain ⟨r1, h3, h4, h5⟩ := h1 rem hrem
    refine ⟨r1, h3, fun n => ?_⟩
    obtain ⟨r', xs, h6, h7, _, _⟩ := rReadMany_spec P ds hP1 hP2 g.rd n r1 rem [] h5 h4
    exact ⟨r', xs, by simpa using h6, h7⟩
  · exact h2

end
end AGH.C20
