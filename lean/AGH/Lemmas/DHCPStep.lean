/-
C10 — helper lemmas, part 4: every operation of the model keeps the invariant.
-/
import AGH.Lemmas.DHCPOps
namespace AGH.C10
open AGH

theorem checkLease_some {mac : Bytes} {ip : Nat} {s : State} {l : Lease} {b : Bool}
    (h : checkLease mac ip s = (some l, b)) : l ∈ s.leases ∧ l.mac = mac ∧ l.ip = ip := by
  unfold checkLease at h
  cases hf : findLease mac s with
  | none => rw [hf] at h; cases h
  | some l0 =>
    rw [hf] at h
    simp only [] at h
    split at h
    · next hip =>
      cases h
      obtain ⟨h1, h2⟩ := findLease_some hf
      exact ⟨h1, h2, by simpa using hip⟩
    · cases h

theorem hbrt_some {c : Conf} {mac : Bytes} {sid : Nat} {rp : Bool} {rip ci : Nat} {s : State} {l : Lease} {b : Bool}
    (h : handleByRequestType c mac sid rp rip ci s = (some l, b)) : l ∈ s.leases ∧ l.mac = mac := by
  unfold handleByRequestType at h
  split at h
  · split at h
    · cases h
    · split at h
      · cases h
      · split at h
        · cases h
        · split at h
          · cases h
          · next lo hc =>
            cases h
            obtain ⟨h1, h2, _⟩ := checkLease_some hc
            exact ⟨h1, h2⟩
  · split at h
    · split at h
      · cases h
      · split at h
        · cases h
        · split at h
          · cases h
          · cases h
          · next l0 hc =>
            cases h
            obtain ⟨h1, h2, _⟩ := checkLease_some hc
            exact ⟨h1, h2⟩
    · split at h
      · cases h
      · split at h
        · cases h
        · cases h
        · next l0 hc =>
          cases h
          obtain ⟨h1, h2, _⟩ := checkLease_some hc
          exact ⟨h1, h2⟩

theorem handleDiscover_inv {c : Conf} {s : State} {mac : Bytes} (h : Inv c s) :
    Inv c (handleDiscover c mac s).1 := by
  unfold handleDiscover
  cases hf : findLease mac s with
  | some l => exact Inv_store h
  | none =>
    simp only []
    have hsp := (allocate_spec h (findLease_none hf)).1
    rcases hal : allocateLease c mac s with ⟨s1, r⟩
    rw [hal] at hsp
    rcases r with _ | _ | l <;> exact Inv_store hsp

theorem handleRequest_inv {O : Oracle} {c : Conf} {s : State} {mac : Bytes} {sid : Nat} {rp : Bool} {rip ci : Nat}
    {hn : Bytes} (h : Inv c s) : Inv c (handleRequest O c mac sid rp rip ci hn s).1 := by
  unfold handleRequest
  rcases hb : handleByRequestType c mac sid rp rip ci s with ⟨lo, b⟩
  rcases lo with _ | l
  · cases b <;> exact h
  · simp only []
    obtain ⟨hl, _⟩ := hbrt_some hb
    split
    · exact Inv_store h
    · exact Inv_store (commitLease_inv hn h hl)

theorem handleDecline_inv {c : Conf} {s : State} {mac : Bytes} {rp : Bool} {rip ci : Nat} (h : Inv c s) : Inv c (handleDecline c mac rp rip ci s).1 := by
  unfold handleDecline
  simp only []
  cases hf : s.leases.find? (fun l => l.mac == mac && l.ip == msgIP rp rip ci) with
  | none => exact Inv_store h
  | some old =>
    simp only []
    have hold : old.mac = mac := by
      have := List.find?_some hf
      simp only [Bool.and_eq_true, beq_iff_eq] at this
      exact this.1
    have hi1 := rmDynamicLease_inv old.mac old.ip old.host h
    have hclean := rmDynLoop_clean c old.mac old.ip old.host s.leases [] s (by intro x hx; cases hx)
    rcases hr : rmDynamicLease c old.mac old.ip old.host s with ⟨s1, e⟩
    rw [hr] at hi1
    cases e with
    | true => exact Inv_store hi1
    | false =>
      simp only []
      have hm1 : ∀ y ∈ s1.leases, y.mac ≠ mac := by
        intro y hy
        have := hclean (by unfold rmDynamicLease at hr; rw [hr]) y (by unfold rmDynamicLease at hr; rw [hr]; exact hy)
        rw [← hold]; exact this.1
      have hsp := allocate_spec hi1 hm1
      rcases hal : allocateLease c mac s1 with ⟨s2, r⟩
      rw [hal] at hsp
      obtain ⟨hi2, _, _, hor⟩ := hsp
      rcases r with _ | _ | nl
      · exact Inv_store hi2
      · exact Inv_store hi2
      · simp only []
        rcases hor with ⟨hx, _⟩ | ⟨l, A, B, hl1, hl2, _⟩
        · cases hx
        · simp only [Option.some.injEq] at hl1
          subst hl1
          exact Inv_store (renameLease_inv _ _ hi2 (by rw [hl2]; exact mem_middle.2 (.inl rfl)))

theorem releaseLoop_inv (c : Conf) (mac : Bytes) (ip : Nat) : ∀ (n k : Nat) (s : State), Inv c s →
    Inv c (releaseLoop c mac ip n k s).1 := by
  intro n
  induction n with
  | zero => intro k s h; exact h
  | succ n ih =>
    intro k s h
    unfold releaseLoop
    split
    · exact ih _ _ h
    · split
      · exact ih _ _ h
      · next l _ =>
        split
        · exact ih _ _ h
        · have hi := rmDynamicLease_inv l.mac l.ip l.host h
          rcases hr : rmDynamicLease c l.mac l.ip l.host s with ⟨s1, e⟩
          rw [hr] at hi
          cases e
          · exact ih _ _ hi
          · exact hi

theorem handleRelease_inv {c : Conf} {s : State} {mac : Bytes} {rp : Bool} {rip ci : Nat} (h : Inv c s) :
    Inv c (handleRelease c mac rp rip ci s).1 := by
  unfold handleRelease
  simp only []
  have h0 : Inv c { s with stale := [] } := Inv_congr h rfl rfl rfl rfl rfl rfl
  have hi := releaseLoop_inv c mac (msgIP rp rip ci) s.leases.length 0 _ h0
  rcases hr : releaseLoop c mac (msgIP rp rip ci) s.leases.length 0 { s with stale := [] } with ⟨s1, e⟩
  rw [hr] at hi
  cases e <;> exact Inv_store hi

/-! ### static-lease API -/

theorem addStaticCore_inv {c : Conf} {s : State} {mac : Bytes} {ip : Nat} {host : Bytes} (h : Inv c s) : Inv c (addStaticCore c mac ip host s).1 := by
  unfold addStaticCore
  have hi1 := rmDynamicLease_inv mac ip host h
  have hclean := rmDynLoop_clean c mac ip host s.leases [] s (by intro x hx; cases hx)
  rcases hr : rmDynamicLease c mac ip host s with ⟨s1, e⟩
  rw [hr] at hi1
  cases e with
  | true => exact Inv_store hi1
  | false =>
    simp only []
    have hcl : ∀ y ∈ s1.leases, y.mac ≠ mac ∧ y.ip ≠ ip := by
      intro y hy
      exact hclean (by unfold rmDynamicLease at hr; rw [hr]) y (by unfold rmDynamicLease at hr; rw [hr]; exact hy)
    cases hadd : addLease c { id := s1.nextId, mac := mac, ip := ip, host := host, static := true, exp := 0 } s1.fresh.2 with
    | error e => exact Inv_store (Inv_fresh hi1)
    | ok s2 =>
      refine Inv_store (Inv_add (Inv_fresh hi1) hadd ?_ ?_ ?_ ?_)
      · intro y hy; exact (hcl y hy).2
      · intro y hy; exact (hcl y hy).1
      · simp [State.fresh]
      · intro y hy
        have : y.id < s1.nextId := hi1.idLt y hy
        show y.id ≠ s1.nextId
        omega

theorem addStatic_inv {O : Oracle} {c : Conf} {s : State} {mac : Bytes} {ip : Nat} {raw : Bytes} (h : Inv c s) : Inv c (addStatic O c mac ip raw s).1 := by
  unfold addStatic
  split
  · exact h
  split
  · exact h
  split
  · exact h
  · exact addStaticCore_inv h

theorem rmLease_spec {c : Conf} {s s' : State} {mac : Bytes} {ip : Nat} {host : Bytes}
    (hr : rmLease c mac ip host s = .ok s') (hne : s.leases ≠ []) :
    ∃ A B l, s.leases = A ++ l :: B ∧ l.ip = ip ∧ l.mac = mac ∧ l.host = host ∧
      s' = { rmSide c l s.leases s with leases := A ++ B } := by
  unfold rmLease at hr
  split at hr
  · next he => exact absurd (by simpa using he) hne
  · split at hr
    · cases hr
    · next i l hf =>
      split at hr
      · cases hr
      · next hcmp =>
        cases hr
        obtain ⟨A, B, hs, hi, hip⟩ := findIdxIP_spec ip s.leases 0 i l hf
        have : i = A.length := by omega
        subst this
        simp only [Bool.or_eq_true, bne_iff_ne, ne_eq, not_or, Decidable.not_not] at hcmp
        exact ⟨A, B, l, hs, hip, hcmp.1, hcmp.2, rmAt_split hs⟩

/-- In `UpdateStaticLease`, once the checks have passed, the second `addLease`
cannot fail: the table is not left without the lease and unsaved. -/
theorem updStatic_add_ok {c : Conf} {s : State} {mac : Bytes} {ip : Nat} {host : Bytes} {found : Lease}
    (h : Inv c s) (hfound : findLease mac s = some found)
    (hdh : heldByOther s (s.hosts host) mac = false)
    (hdi : heldByOther s (s.ips ip) mac = false)
    (hsub : inSubnet c ip = true) {s1 : State} (hr : rmLease c found.mac found.ip found.host s = .ok s1) :
    (∀ y ∈ s1.leases, y.mac ≠ mac ∧ y.ip ≠ ip) ∧ Inv c s1 ∧ s1.nextId = s.nextId ∧
    ∀ id, ∃ s2, addLease c { id := id, mac := mac, ip := ip, host := host, static := true, exp := 0 } s1.fresh.2 = .ok s2 := by
  obtain ⟨hfm, hfmac⟩ := findLease_some hfound
  have hne : s.leases ≠ [] := by intro e; rw [e] at hfm; cases hfm
  obtain ⟨A, B, l, hs, hlip, hlmac, hlhost, hs1⟩ := rmLease_spec hr hne
  have hlmem : l ∈ s.leases := by rw [hs]; exact mem_middle.2 (.inl rfl)
  have hl : l = found := nodup_map_inj h.ipNodup hlmem hfm hlip
  subst hl
  have hi1 : Inv c s1 := rmLease_inv _ _ _ h hr
  have hmacs : ∀ y ∈ A ++ B, y.mac ≠ mac := by
    intro y hy he
    have hyin : y ∈ s.leases := by rw [hs]; exact mem_middle.2 (.inr hy)
    have : y = l := nodup_map_inj h.macNodup hyin hlmem (by rw [he, hfmac])
    have hmm := (nodup_map_middle (f := (·.mac)) (by rw [← hs]; exact h.macNodup)).2 y hy
    exact hmm (by rw [this])
  have hips : ∀ y ∈ A ++ B, y.ip ≠ ip := by
    intro y hy he
    have hyin : y ∈ s.leases := by rw [hs]; exact mem_middle.2 (.inr hy)
    have h1 : s.ips ip = some y.id := (h.ipsIff ip y.id).2 ⟨y, hyin, he, rfl⟩
    have h2 : macOfId s (s.ips ip) = some y.mac := by
      unfold macOfId; rw [h1]; simp [deref_mem h hyin]
    unfold heldByOther at hdi
    rw [h2] at hdi
    simp only [bne_eq_false_iff_eq] at hdi
    exact hmacs y hy hdi
  have hleases : s1.leases = A ++ B := by rw [hs1]
  refine ⟨?_, hi1, by rw [hs1]; rfl, ?_⟩
  · intro y hy
    rw [hleases] at hy
    exact ⟨hmacs y hy, hips y hy⟩
  · intro id
    unfold addLease
    have h1 : ((true && !inSubnet c ip) = true) = False := by simp [hsub]
    simp only [h1, if_false, Bool.not_true, Bool.false_and]
    have hdup : ¬ (host ≠ [] ∧ (s1.fresh.2.hosts host).isSome = true) := by
      rintro ⟨hne', hsome⟩
      have hh : s1.fresh.2.hosts = setFn s.hosts l.host none := by rw [hs1]; rfl
      rw [hh] at hsome
      by_cases hk : host = l.host
      · rw [hk, setFn_same] at hsome; cases hsome
      · rw [setFn_other _ _ _ hk] at hsome
        cases hsh : s.hosts host with
        | none => rw [hsh] at hsome; cases hsome
        | some id0 =>
          obtain ⟨y, hy, hyid, hyh⟩ := h.hostsSound host id0 hsh
          have h2 : macOfId s (s.hosts host) = some y.mac := by
            unfold macOfId; rw [hsh, ← hyid]; simp [deref_mem h hy]
          unfold heldByOther at hdh
          rw [h2] at hdh
          simp only [bne_eq_false_iff_eq] at hdh
          have : y = l := nodup_map_inj h.macNodup hy hlmem (by rw [hdh, hfmac])
          exact hk (by rw [← hyh, this])
    rw [if_neg hdup]
    exact ⟨_, rfl⟩

theorem updStaticCheck_none {O : Oracle} {c : Conf} {s : State} {mac : Bytes} {ip : Nat} {host : Bytes}
    (h : updStaticCheck O c mac ip host s = none) :
    heldByOther s (s.hosts host) mac = false ∧
    heldByOther s (s.ips ip) mac = false ∧
    ip ≠ c.gw ∧ inSubnet c ip = true := by
  unfold updStaticCheck at h
  split at h
  · cases h
  split at h
  · cases h
  split at h
  · cases h
  split at h
  · cases h
  split at h
  · cases h
  rename_i h1 h2 h3 h4 h5
  refine ⟨by simpa using h2, by simpa using h3, h4, by simpa using h5⟩

theorem updStaticCore_inv {c : Conf} {s : State} {mac : Bytes} {ip : Nat} {host : Bytes} {found : Lease}
    (h : Inv c s) (hfound : findLease mac s = some found)
    (hdh : heldByOther s (s.hosts host) mac = false)
    (hdi : heldByOther s (s.ips ip) mac = false)
    (hsub : inSubnet c ip = true) : Inv c (updStaticCore c found mac ip host s).1 := by
  unfold updStaticCore
  split
  · exact h
  · exact h
  · next s1 hr =>
    obtain ⟨hcl, hi1, hnx, _⟩ := updStatic_add_ok (host := host) h hfound hdh hdi hsub hr
    cases hadd : addLease c { id := s1.nextId, mac := mac, ip := ip, host := host, static := true, exp := 0 } s1.fresh.2 with
    | error e => exact Inv_fresh hi1
    | ok s2 =>
      refine Inv_store (Inv_add (Inv_fresh hi1) hadd ?_ ?_ ?_ ?_)
      · intro y hy; exact (hcl y hy).2
      · intro y hy; exact (hcl y hy).1
      · simp [State.fresh]
      · intro y hy
        have : y.id < s1.nextId := hi1.idLt y hy
        show y.id ≠ s1.nextId
        omega

theorem updStatic_inv {O : Oracle} {c : Conf} {s : State} {mac : Bytes} {ip : Nat} {raw : Bytes} (h : Inv c s) : Inv c (updStatic O c mac ip raw s).1 := by
  unfold updStatic
  cases hf : findLease mac s with
  | none => exact h
  | some found =>
    simp only []
    split
    · exact h
    · next host _ =>
      split
      · exact h
      · next hchk =>
        obtain ⟨h1, h2, _, h4⟩ := updStaticCheck_none hchk
        exact updStaticCore_inv h hf h1 h2 h4

theorem rmStatic_inv {c : Conf} {s : State} {mac : Bytes} {ip : Nat} {raw : Bytes} (h : Inv c s) :
    Inv c (rmStatic c mac ip raw s).1 := by
  unfold rmStatic
  split
  · exact h
  · split
    · exact h
    · exact h
    · next s1 hr => exact Inv_store (rmLease_inv _ _ _ h hr)

/-! ### restart -/

theorem resetLoop_inv (O : Oracle) (c : Conf) : ∀ (d : List DLease) (s : State), Inv c s →
    (d.map (·.ip)).Nodup → (d.map (·.mac)).Nodup →
    (∀ x ∈ d, x.static = false → c.start ≤ x.ip ∧ x.ip ≤ c.stop) →
    (∀ x ∈ d, ∀ y ∈ s.leases, y.ip ≠ x.ip ∧ y.mac ≠ x.mac) →
    Inv c (resetLoop O c d s) := by
  intro d
  induction d with
  | nil => intro s h _ _ _ _; exact h
  | cons x rest ih =>
    intro s h hip hmac hpool hfresh
    rw [List.map_cons, List.nodup_cons] at hip hmac
    unfold resetLoop
    have hrest : ∀ z ∈ rest, ∀ y ∈ s.fresh.2.leases, y.ip ≠ z.ip ∧ y.mac ≠ z.mac :=
      fun z hz y hy => hfresh z (List.mem_cons_of_mem _ hz) y hy
    cases hadd : addLease c (loadLease O c x s.nextId) s.fresh.2 with
    | error e =>
      exact ih _ (Inv_fresh h) hip.2 hmac.2 (fun z hz => hpool z (List.mem_cons_of_mem _ hz)) hrest
    | ok s' =>
      have hi : Inv c s' := by
        refine Inv_add (Inv_fresh h) hadd ?_ ?_ ?_ ?_
        · intro y hy; exact (hfresh x List.mem_cons_self y hy).1
        · intro y hy; exact (hfresh x List.mem_cons_self y hy).2
        · simp [State.fresh, loadLease]
        · intro y hy
          have : y.id < s.nextId := h.idLt y hy
          show y.id ≠ s.nextId
          omega
      refine ih _ hi hip.2 hmac.2 (fun z hz => hpool z (List.mem_cons_of_mem _ hz)) ?_
      intro z hz y hy
      rw [(addLease_leases hadd).1] at hy
      rcases List.mem_append.1 hy with hy | hy
      · exact hrest z hz y hy
      · simp only [List.mem_singleton] at hy
        subst hy
        constructor
        · intro e; exact hip.1 (List.mem_map.2 ⟨z, hz, e.symm⟩)
        · intro e; exact hmac.1 (List.mem_map.2 ⟨z, hz, e.symm⟩)

theorem restart_inv {O : Oracle} {c : Conf} {s : State} (h : Inv c s) : Inv c (restart O c s) := by
  unfold restart
  have h0 : Inv c { State.init with nextId := s.nextId, now := s.now, disk := s.disk } := by
    constructor <;> simp [State.init]
    exact h.disk
  simp only []
  cases hd : s.disk with
  | none => simpa [hd] using h0
  | some d =>
    simp only []
    obtain ⟨d1, d2, d3⟩ := h.disk d hd
    have := resetLoop_inv O c d _ h0 d1 d2 d3 (by intro x _ y hy; simp [State.init] at hy)
    simpa [hd] using this

/-! ### one step -/

theorem Inv_step {O : Oracle} {c : Conf} {s : State} {op : Op} (h : Inv c s) :
    Inv c (step O c s op).1 := by
  have h0 : Inv c { s with stale := [] } := Inv_congr h rfl rfl rfl rfl rfl rfl
  unfold step
  simp only []
  cases op with
  | discover mac =>
    simp only []
    split
    · exact h0
    · exact handleDiscover_inv h0
  | request mac sid rp rip ci hn =>
    simp only []
    split
    · exact h0
    · exact handleRequest_inv h0
  | decline mac rp rip ci =>
    simp only []
    split
    · exact h0
    · exact handleDecline_inv h0
  | release mac rp rip ci =>
    simp only []
    split
    · exact h0
    · exact handleRelease_inv h0
  | addStatic mac ip hn => exact addStatic_inv h0
  | updStatic mac ip hn => exact updStatic_inv h0
  | rmStatic mac ip hn => exact rmStatic_inv h0
  | sleep d => exact Inv_congr h0 rfl rfl rfl rfl rfl rfl
  | restart => exact restart_inv h0
  | reorder d => exact Inv_reorder d h0
  | resetLeases => exact resetAll_inv h0

/-! ### histories -/

theorem run_inv {O : Oracle} {c : Conf} : ∀ (ops : List Op) (s : State), Inv c s → Inv c (run O c s ops) := by
  intro ops
  induction ops with
  | nil => intro s h; exact h
  | cons op rest ih =>
    intro s h
    unfold run
    exact ih _ (Inv_step h)

/-- The states the model reaches from the empty table by any history of operations. -/
def Reachable (O : Oracle) (c : Conf) (s : State) : Prop :=
  ∃ ops : List Op, run O c State.init ops = s

theorem Reachable.inv {O : Oracle} {c : Conf} {s : State} (h : Reachable O c s) : Inv c s := by
  obtain ⟨ops, rfl⟩ := h
  exact run_inv ops _ (Inv_init c)

theorem run_append {O : Oracle} {c : Conf} : ∀ (ops : List Op) (s : State) (op : Op),
    run O c s (ops ++ [op]) = (step O c (run O c s ops) op).1 := by
  intro ops
  induction ops with
  | nil => intro s op; rfl
  | cons o rest ih => intro s op; simp only [List.cons_append, run]; exact ih _ _

theorem Reachable.step {O : Oracle} {c : Conf} {s : State} {op : Op} (h : Reachable O c s) :
    Reachable O c (step O c s op).1 := by
  obtain ⟨ops, rfl⟩ := h
  exact ⟨ops ++ [op], run_append ops _ op⟩

end AGH.C10
