/-
C12 lemmas, throttling part: the rate limiter's table, cleaned at `now`, is
the table computed from the spec's lists of failure times.
-/
import AGH.Spec.Auth
namespace AGH.C12

/-- what the limiter holds for an address whose counted failures are `fs` -/
def specRec (sp : Spec) (now : Nat) (fs : List Nat) : Option Rec :=
  if stillCounts sp fs now then some ⟨untilOf sp fs, fs.length⟩ else none

def failsOf (sp : Spec) (a : Nat) : List Nat := (sp.fails a).getD []

/-- a record that `cleanupLocked` at `now` would keep -/
def liveRec (now : Nat) (r : Option Rec) : Option Rec := r.filter (fun r => decide (now ≤ r.untl))

def SimThr (st : St) (sp : Spec) (now : Nat) : Prop :=
  match st.rl with
  | none => sp.enabled = false
  | some l => sp.enabled = true ∧ l.max = sp.max ∧ l.blockDur = sp.blockDur ∧
      ∀ a, liveRec now (l.recs a) = specRec sp now (failsOf sp a)

theorem cleanup_eq (now : Nat) (recs : FMap Rec) (a : Nat) : cleanup now recs a = liveRec now (recs a) := by
  unfold cleanup liveRec
  cases recs a with
  | none => rfl
  | some r =>
    simp only [Option.filter]
    by_cases h : now ≤ r.untl
    · have : ¬ now > r.untl := by omega
      simp [h, this]
    · have : now > r.untl := by omega
      simp [h, this]

theorem liveRec_specRec (sp : Spec) (now : Nat) (fs : List Nat) :
    liveRec now (specRec sp now fs) = specRec sp now fs := by
  unfold specRec
  split
  · next h =>
    simp only [stillCounts, Bool.and_eq_true, decide_eq_true_eq] at h
    simp [liveRec, Option.filter, h.2]
  · rfl

theorem liveRec_mono {now d : Nat} (r : Option Rec) :
    liveRec (now + d) r = liveRec (now + d) (liveRec now r) := by
  cases r with
  | none => rfl
  | some r =>
    simp only [liveRec, Option.filter]
    by_cases h : now ≤ r.untl
    · simp [h, Option.filter]
    · have : ¬ now + d ≤ r.untl := by omega
      simp [h, this]

theorem specRec_mono (sp : Spec) {now d : Nat} (fs : List Nat) :
    specRec sp (now + d) fs = liveRec (now + d) (specRec sp now fs) := by
  unfold specRec stillCounts
  by_cases he : fs.isEmpty = true
  · simp [he, liveRec]
  · by_cases h1 : now ≤ untilOf sp fs
    · by_cases h2 : now + d ≤ untilOf sp fs
      · simp [he, h1, h2, liveRec, Option.filter]
      · simp [he, h1, h2, liveRec, Option.filter]
    · have h2 : ¬ now + d ≤ untilOf sp fs := by omega
      simp [he, h1, h2, liveRec]

theorem simThr_advance {st : St} {sp : Spec} {now : Nat} (d : Nat) (h : SimThr st sp now) :
    SimThr st sp (now + d) := by
  unfold SimThr at *
  cases hrl : st.rl with
  | none => rw [hrl] at h; exact h
  | some l =>
    rw [hrl] at h
    obtain ⟨h1, h2, h3, h4⟩ := h
    refine ⟨h1, h2, h3, fun a => ?_⟩
    rw [liveRec_mono, h4 a, ← specRec_mono]

/-- After the cleanup of `check`, the table IS the spec's table, and the
attempter is blocked exactly when the spec says so. -/
theorem check_spec {l : Limiter} {sp : Spec} {now : Nat}
    (hen : sp.enabled = true) (hmax : l.max = sp.max) (hbd : l.blockDur = sp.blockDur)
    (h : ∀ a, liveRec now (l.recs a) = specRec sp now (failsOf sp a)) (addr : Nat) :
    (∀ a, (l.check addr now).2.recs a = specRec sp now (failsOf sp a)) ∧
    (l.check addr now).2.max = sp.max ∧ (l.check addr now).2.blockDur = sp.blockDur ∧
    (decide ((l.check addr now).1 > 0) = mustReject sp addr now) := by
  have hrecs : ∀ a, (l.check addr now).2.recs a = specRec sp now (failsOf sp a) := by
    intro a
    simp only [Limiter.check]
    rw [cleanup_eq, h a]
  refine ⟨hrecs, hmax, hbd, ?_⟩
  have hr := hrecs addr
  simp only [Limiter.check] at hr ⊢
  have hc : counted sp addr now =
      if stillCounts sp (failsOf sp addr) now = true then failsOf sp addr else [] := rfl
  simp only [checkLocked, hr, mustReject, hc, hen, Bool.true_and]
  unfold specRec
  by_cases hs : stillCounts sp (failsOf sp addr) now = true
  · simp only [hs, if_true, hmax]
    have hne : (failsOf sp addr).isEmpty = false := by
      simp only [stillCounts, Bool.and_eq_true, Bool.not_eq_true'] at hs; exact hs.1
    by_cases hlt : (failsOf sp addr).length < sp.max
    · have : ¬ (failsOf sp addr).length ≥ sp.max := by omega
      simp [hlt, hne, this]
    · have hge : (failsOf sp addr).length ≥ sp.max := by omega
      simp only [hlt, if_false, hne, Bool.not_false, Bool.true_and, hge, decide_true]
      have : untilOf sp (failsOf sp addr) = (failsOf sp addr).getLastD 0 + sp.blockDur := by
        simp [untilOf, hlt]
      rw [this]
      generalize (failsOf sp addr).getLastD 0 + sp.blockDur = X
      rw [decide_eq_decide]
      omega
  · simp [hs]


theorem specRec_update (sp : Spec) (f : FMap (List Nat)) (t : FMap TokInfo) (n now : Nat) (fs : List Nat) :
    specRec { sp with fails := f, toks := t, issued := n } now fs = specRec sp now fs := by
  simp [specRec, stillCounts, untilOf]

theorem specRec_congr (sp sp' : Spec) (hm : sp'.max = sp.max) (hb : sp'.blockDur = sp.blockDur)
    (now : Nat) (fs : List Nat) : specRec sp' now fs = specRec sp now fs := by
  simp [specRec, stillCounts, untilOf, hm, hb]

theorem failsOf_set_eq (sp : Spec) (addr : Nat) (fs : List Nat) :
    failsOf { sp with fails := sp.fails.set addr fs } addr = fs := by
  simp [failsOf, FMap.set]

theorem failsOf_set_ne (sp : Spec) {addr a : Nat} (fs : List Nat) (h : a ≠ addr) :
    failsOf { sp with fails := sp.fails.set addr fs } a = failsOf sp a := by
  simp [failsOf, FMap.set, h]

theorem getLastD_concat (fs : List Nat) (x d : Nat) : (fs ++ [x]).getLastD d = x := by
  simp [List.getLastD_eq_getLast?]

theorem headD_concat {fs : List Nat} (h : fs ≠ []) (x d : Nat) : (fs ++ [x]).headD d = fs.headD d := by
  cases fs with
  | nil => exact absurd rfl h
  | cons f rest => rfl

/-- A failed (evaluated) login: `inc` does to the table what appending the
time of the failure does to the spec's list. -/
theorem inc_spec {l : Limiter} {sp : Spec} {now : Nat}
    (hmax : l.max = sp.max) (hbd : l.blockDur = sp.blockDur)
    (h : ∀ a, l.recs a = specRec sp now (failsOf sp a)) (addr : Nat) :
    ∀ a, (l.inc addr now).recs a =
      specRec { sp with fails := sp.fails.set addr (counted sp addr now ++ [now]) } now
        (failsOf { sp with fails := sp.fails.set addr (counted sp addr now ++ [now]) } a) := by
  intro a
  rw [specRec_update]
  by_cases ha : a = addr
  · subst ha
    rw [failsOf_set_eq]
    have hc : counted sp a now =
        if stillCounts sp (failsOf sp a) now = true then failsOf sp a else [] := rfl
    have hr := h a
    simp only [Limiter.inc, FMap.set, if_true, hr, hc]
    unfold specRec
    by_cases hs : stillCounts sp (failsOf sp a) now = true
    · simp only [hs, if_true]
      have hs' := hs
      simp only [stillCounts, Bool.and_eq_true, Bool.not_eq_true', decide_eq_true_eq] at hs'
      have hne : failsOf sp a ≠ [] := by
        intro e; rw [e] at hs'; simp at hs'
      generalize failsOf sp a = fs at hs' hne
      have hstill : stillCounts sp (fs ++ [now]) now = true := by
        simp only [stillCounts, Bool.and_eq_true, Bool.not_eq_true', decide_eq_true_eq]
        refine ⟨by simp, ?_⟩
        simp only [untilOf, List.length_append, List.length_cons, List.length_nil, getLastD_concat,
          headD_concat hne]
        split
        · have : fs.length < sp.max := by omega
          have hu := hs'.2
          simp only [untilOf, this, if_true] at hu
          exact hu
        · omega
      simp only [hstill, if_true, List.length_append, List.length_cons, List.length_nil, hmax, hbd]
      congr 1
      simp only [untilOf, List.length_append, List.length_cons, List.length_nil, getLastD_concat,
        headD_concat hne]
      by_cases hlt : fs.length + 1 < sp.max
      · have h1 : ¬ fs.length + 1 ≥ sp.max := by omega
        have h2 : fs.length < sp.max := by omega
        simp [hlt, h1, h2]
      · have h1 : fs.length + 1 ≥ sp.max := by omega
        simp [hlt, h1]
    · simp only [hs, Bool.false_eq_true, if_false, List.nil_append]
      have hstill : stillCounts sp [now] now = true := by
        simp [stillCounts, untilOf]
        split <;> omega
      simp only [hstill, if_true, hmax, hbd]
      congr 1
      simp only [untilOf, List.length_cons, List.length_nil]
      by_cases hlt : 0 + 1 < sp.max
      · have h1 : ¬ 1 ≥ sp.max := by omega
        simp [hlt, h1]
      · have h1 : 1 ≥ sp.max := by omega
        simp [hlt, h1]
  · rw [failsOf_set_ne _ _ ha]
    simp only [Limiter.inc, FMap.set, ha, if_false]
    exact h a

/-- A successful login: `remove` = clearing the spec's list. -/
theorem remove_spec {l : Limiter} {sp : Spec} {now : Nat}
    (h : ∀ a, l.recs a = specRec sp now (failsOf sp a)) (addr : Nat) (toks : FMap TokInfo) (n : Nat) :
    ∀ a, (l.remove addr).recs a =
      specRec { sp with fails := sp.fails.set addr [], toks := toks, issued := n } now
        (failsOf { sp with fails := sp.fails.set addr [], toks := toks, issued := n } a) := by
  intro a
  rw [specRec_update]
  by_cases ha : a = addr
  · subst ha
    have : failsOf { sp with fails := sp.fails.set a [], toks := toks, issued := n } a = [] := by
      simp [failsOf, FMap.set]
    rw [this]
    simp [Limiter.remove, FMap.erase, specRec, stillCounts]
  · have : failsOf { sp with fails := sp.fails.set addr [], toks := toks, issued := n } a = failsOf sp a := by
      simp [failsOf, FMap.set, ha]
    rw [this]
    simp only [Limiter.remove, FMap.erase, ha, if_false]
    exact h a

end AGH.C12
