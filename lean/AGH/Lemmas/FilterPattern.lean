/-
Helper lemmas about the Layer B pattern matcher: what `||domain^` matches.
-/
import AGH.Model.FilterRules
set_option linter.unusedSimpArgs false
namespace AGH.Filter
open AGH AGH.Bytes

/-- a byte of an ordinary host name: letter, digit, `-`, `.`, `_` -/
def plainByte (b : Nat) : Bool := isAlnumB b || b == dash || b == dot || b == 95

theorem plainByte_not_special (b : Nat) (h : plainByte b = true) : b ≠ 42 ∧ b ≠ 94 ∧ b ≠ 124 := by
  unfold plainByte isAlnumB isLowerB isUpperB isDigitB dash dot at h
  refine ⟨?_, ?_, ?_⟩ <;> intro hb <;> subst hb <;> simp at h

theorem plainByte_urlHost (b : Nat) (h : plainByte b = true) : isURLHostByte b = true := by
  unfold plainByte at h; unfold isURLHostByte
  simp only [Bool.or_eq_true] at h ⊢
  rcases h with ((h | h) | h) | h
  · exact Or.inl (Or.inl (Or.inl h))
  · exact Or.inl (Or.inl (Or.inr h))
  · exact Or.inr h
  · exact Or.inl (Or.inr h)

/-- a plain domain followed by `^` compiles to its literals and a separator -/
theorem compileBody_plain (d : Bytes) (hd : d.all plainByte = true) :
    compileBody (d ++ [94]) = d.map Tok.lit ++ [Tok.sep] := by
  induction d with
  | nil => simp [compileBody]
  | cons b rest ih =>
    simp only [List.all_cons, Bool.and_eq_true] at hd
    obtain ⟨h1, h2, h3⟩ := plainByte_not_special b hd.1
    have : (b :: rest) ++ [94] = b :: (rest ++ [94]) := rfl
    rw [this]
    cases hr : rest ++ [94] with
    | nil => simp at hr
    | cons x xs =>
      simp only [compileBody, h1, h2, if_false]
      rw [← hr, ih hd.2]
      simp

theorem foldEq_lower (b : Nat) : foldEq b (lowerB b) = true := by
  unfold foldEq
  simp only [beq_iff_eq]
  unfold lowerB isUpperB
  by_cases h : (decide (65 ≤ b) && decide (b ≤ 90)) = true
  · simp only [h, if_true]
    have h' : (decide (65 ≤ b + 32) && decide (b + 32 ≤ 90)) = false := by
      simp at h ⊢; omega
    simp only [h', Bool.false_eq_true, if_false]
  · simp [h]

/-- literals consume their own lower-cased text -/
theorem matchHere_lits (d : Bytes) (ts : List Tok) (s : Bytes) (st : Bool) (hne : d ≠ []) :
    matchHere (d.map Tok.lit ++ ts) (lower d ++ s) st = matchHere ts s false := by
  induction d generalizing st with
  | nil => exact absurd rfl hne
  | cons b rest ih =>
    simp only [List.map_cons, List.cons_append, lower, matchHere, foldEq_lower, Bool.true_and]
    cases rest with
    | nil => simp [matchHere]
    | cons c cs =>
      have := ih false (by simp)
      simpa [lower] using this

theorem matchHere_sep_end (st : Bool) : matchHere [Tok.sep] [] st = true := by
  simp [matchHere]

theorem afterHostPrefix_mem (sub x : Bytes) (seen : Bool) (hsub : sub.all plainByte = true)
    (hne : sub ≠ [] ∨ seen = true) : x ∈ afterHostPrefix (sub ++ dot :: x) seen := by
  induction sub generalizing seen with
  | nil =>
    have hs : seen = true := by rcases hne with h | h; exact absurd rfl h; exact h
    simp [afterHostPrefix, isURLHostByte, isAlnumB, isLowerB, isUpperB, isDigitB, dot, dash, hs]
  | cons b rest ih =>
    simp only [List.all_cons, Bool.and_eq_true] at hsub
    have hu := plainByte_urlHost b hsub.1
    simp only [List.cons_append, afterHostPrefix, hu, Bool.not_true, Bool.false_eq_true, if_false]
    apply List.mem_append_right
    exact ih true hsub.2 (Or.inr rfl)

theorem search_first (toks : List Tok) (s : Bytes) (h : matchHere toks s true = true) :
    searchFrom toks s true = true := by
  cases s with
  | nil => simpa [searchFrom] using h
  | cons c r => simp [searchFrom, h]

/-! ### The negative direction: nothing else matches -/

theorem plainByte_not_sep (b : Nat) (h : plainByte b = true) : isSepByte b = false := by
  unfold plainByte at h
  unfold isSepByte
  simp only [Bool.or_eq_true] at h
  rcases h with ((h | h) | h) | h <;> simp [h]

/-- a `||…` pattern can only match at the very start of the URL -/
theorem searchFrom_startURL (ts : List Tok) (s : Bytes) :
    searchFrom (.startURL :: ts) s false = false := by
  induction s with
  | nil => simp [searchFrom, matchHere]
  | cons c r ih => simp [searchFrom, matchHere, ih]

theorem searchFrom_startURL_eq (ts : List Tok) (s : Bytes) :
    searchFrom (.startURL :: ts) s true = matchHere (.startURL :: ts) s true := by
  cases s with
  | nil => rfl
  | cons c r => simp [searchFrom, searchFrom_startURL]

theorem lowerB_eq_of_foldEq {a b : Nat} : foldEq a b = true ↔ lowerB a = lowerB b := by
  unfold foldEq; simp

/-- literals followed by a separator: a case-insensitive copy of the literals,
then the end of the subject or a separator byte -/
theorem lits_sep_iff (d x : Bytes) (st : Bool) :
    matchHere (d.map Tok.lit ++ [Tok.sep]) x st = true ↔
      ∃ x1 y, x = x1 ++ y ∧ lower x1 = lower d ∧ (y = [] ∨ ∃ c r, y = c :: r ∧ isSepByte c = true) := by
  induction d generalizing x st with
  | nil =>
    simp only [List.map_nil, List.nil_append]
    cases x with
    | nil =>
      simp only [matchHere]
      constructor
      · intro _; exact ⟨[], [], rfl, rfl, Or.inl rfl⟩
      · intro _; trivial
    | cons c r =>
      simp only [matchHere, Bool.and_true]
      constructor
      · intro h; exact ⟨[], c :: r, rfl, rfl, Or.inr ⟨c, r, rfl, h⟩⟩
      · rintro ⟨x1, y, hxy, hl, hy⟩
        have hx1 : x1 = [] := by
          have : (lower x1).length = 0 := by rw [hl]; rfl
          unfold lower at this
          simpa using this
        subst hx1
        simp only [List.nil_append] at hxy
        subst hxy
        rcases hy with hy | ⟨c', r', hy, hs⟩
        · cases hy
        · cases hy; exact hs
  | cons b rest ih =>
    simp only [List.map_cons, List.cons_append]
    cases x with
    | nil =>
      simp only [matchHere]
      constructor
      · intro h; cases h
      · rintro ⟨x1, y, hxy, hl, _⟩
        have : x1 = [] := by
          cases x1 with
          | nil => rfl
          | cons _ _ => simp at hxy
        subst this
        simp [lower] at hl
    | cons c r =>
      simp only [matchHere, Bool.and_eq_true]
      constructor
      · rintro ⟨hf, hm⟩
        obtain ⟨x1, y, hxy, hl, hy⟩ := (ih r false).mp hm
        refine ⟨c :: x1, y, by simp [hxy], ?_, hy⟩
        have := lowerB_eq_of_foldEq.mp hf
        simp only [lower, List.map_cons] at hl ⊢
        rw [hl, this]
      · rintro ⟨x1, y, hxy, hl, hy⟩
        cases x1 with
        | nil => simp [lower] at hl
        | cons c' x1' =>
          simp only [List.cons_append, List.cons.injEq] at hxy
          obtain ⟨hc, hr⟩ := hxy
          subst hc
          simp only [lower, List.map_cons, List.cons.injEq] at hl
          refine ⟨lowerB_eq_of_foldEq.mpr hl.1.symm, (ih r false).mpr ⟨x1', y, hr, ?_, hy⟩⟩
          simpa [lower] using hl.2

theorem all_append_left {p : Nat → Bool} {a b : Bytes} (h : (a ++ b).all p = true) : b.all p = true := by
  rw [List.all_append] at h
  simp only [Bool.and_eq_true] at h
  exact h.2

/-- for a subject made of host-name bytes the separator can only be the end -/
theorem lits_sep_plain (d x : Bytes) (st : Bool) (hx : x.all plainByte = true) :
    matchHere (d.map Tok.lit ++ [Tok.sep]) x st = true ↔ lower x = lower d := by
  rw [lits_sep_iff]
  constructor
  · rintro ⟨x1, y, hxy, hl, hy⟩
    rcases hy with hy | ⟨c, r, hy, hs⟩
    · subst hy; simp at hxy; rw [hxy]; exact hl
    · exfalso
      subst hy
      rw [hxy] at hx
      have := all_append_left hx
      simp only [List.all_cons, Bool.and_eq_true] at this
      rw [plainByte_not_sep c this.1] at hs
      cases hs
  · intro h; exact ⟨x, [], by simp, h, Or.inl rfl⟩

/-- what `([a-z0-9-_.]+\.)?` can leave over -/
theorem afterHostPrefix_iff (s r : Bytes) (seen : Bool) :
    r ∈ afterHostPrefix s seen ↔
      ∃ p, s = p ++ dot :: r ∧ p.all isURLHostByte = true ∧ (p ≠ [] ∨ seen = true) := by
  induction s generalizing seen with
  | nil =>
    simp only [afterHostPrefix, List.not_mem_nil, false_iff]
    rintro ⟨p, hp, _⟩
    cases p <;> simp at hp
  | cons b rest ih =>
    unfold afterHostPrefix
    cases hb : isURLHostByte b
    · simp only [Bool.not_false, if_true, List.not_mem_nil, false_iff]
      rintro ⟨p, hp, hall, hne⟩
      cases p with
      | nil =>
        simp only [List.nil_append, List.cons.injEq] at hp
        rw [hp.1] at hb
        simp [isURLHostByte, dot] at hb
      | cons c p' =>
        simp only [List.cons_append, List.cons.injEq] at hp
        simp only [List.all_cons, Bool.and_eq_true] at hall
        rw [← hp.1, hb] at hall
        cases hall.1
    · simp only [Bool.not_true, Bool.false_eq_true, if_false, List.mem_append]
      constructor
      · rintro (h | h)
        · by_cases hc : b = dot ∧ seen = true
          · rw [if_pos hc] at h
            simp only [List.mem_singleton] at h
            subst h
            exact ⟨[], by simp [hc.1], rfl, Or.inr hc.2⟩
          · rw [if_neg hc] at h; cases h
        · obtain ⟨p, hp, hall, _⟩ := (ih true).mp h
          exact ⟨b :: p, by simp [hp], by simp [hb, hall], Or.inl (by simp)⟩
      · rintro ⟨p, hp, hall, hne⟩
        cases p with
        | nil =>
          simp only [List.nil_append, List.cons.injEq] at hp
          rcases hne with hne | hne
          · exact absurd rfl hne
          · left
            rw [if_pos ⟨hp.1, hne⟩, hp.2]
            exact List.mem_singleton.mpr rfl
        | cons c p' =>
          simp only [List.cons_append, List.cons.injEq] at hp
          simp only [List.all_cons, Bool.and_eq_true] at hall
          right
          exact (ih true).mpr ⟨p', hp.2, hall.2, Or.inr rfl⟩

end AGH.Filter
