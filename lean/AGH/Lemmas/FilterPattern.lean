/-
Helper lemmas about the Layer B pattern matcher: what `||domain^` matches.
-/
import AGH.Model.FilterRules
set_option linter.unusedSimpArgs false
namespace AGH.Filter
open AGH AGH.Bytes

/-- a byte of an ordinary host name: letter, digit, `-`, `.`, `_` -/
def plainByte (b : Nat) : Bool := isAlnumB b || b == dash || b == dot || b == 95

theorem plainByte_not_special (b : Nat) (h : plainByte b = true) : b ≠ 42 ∧ b ≠ 94 ∧ b ≠ 124 := by
  unfold plainByte isAlnumB isLowerB isUpperB isDigitB dash dot at h
  refine ⟨?_, ?_, ?_⟩ <;> intro hb <;> subst hb <;> simp at h

theorem plainByte_urlHost (b : Nat) (h : plainByte b = true) : isURLHostByte b = true := by
  unfold plainByte at h; unfold isURLHostByte
  simp only [Bool.or_eq_true] at h ⊢
  rcases h with ((h | h) | h) | h
  · exact Or.inl (Or.inl (Or.inl h))
  · exact Or.inl (Or.inl (Or.inr h))
  · exact Or.inr h
  · exact Or.inl (Or.inr h)

/-- a plain domain followed by `^` compiles to its literals and a separator -/
theorem compileBody_plain (d : Bytes) (hd : d.all plainByte = true) :
    compileBody (d ++ [94]) = d.map Tok.lit ++ [Tok.sep] := by
  induction d with
  | nil => simp [compileBody]
  | cons b rest ih =>
    simp only [List.all_cons, Bool.and_eq_true] at hd
    obtain ⟨h1, h2, h3⟩ := plainByte_not_special b hd.1
    have : (b :: rest) ++ [94] = b :: (rest ++ [94]) := rfl
    rw [this]
    cases hr : rest ++ [94] with
    | nil => simp at hr
    | cons x xs =>
      simp only [compileBody, h1, h2, if_false]
      rw [← hr, ih hd.2]
      simp

theorem foldEq_lower (b : Nat) : foldEq b (lowerB b) = true := by
  unfold foldEq
  simp only [beq_iff_eq]
  unfold lowerB isUpperB
  by_cases h : (decide (65 ≤ b) && decide (b ≤ 90)) = true
  · simp only [h, if_true]
    have h' : (decide (65 ≤ b + 32) && decide (b + 32 ≤ 90)) = false := by
      simp at h ⊢; omega
    simp only [h', Bool.false_eq_true, if_false]
  · simp [h]

/-- literals consume their own lower-cased text -/
theorem matchHere_lits (d : Bytes) (ts : List Tok) (s : Bytes) (st : Bool) (hne : d ≠ []) :
    matchHere (d.map Tok.lit ++ ts) (lower d ++ s) st = matchHere ts s false := by
  induction d generalizing st with
  | nil => exact absurd rfl hne
  | cons b rest ih =>
    simp only [List.map_cons, List.cons_append, lower, matchHere, foldEq_lower, Bool.true_and]
    cases rest with
    | nil => simp [matchHere]
    | cons c cs =>
      have := ih false (by simp)
      simpa [lower] using this

theorem matchHere_sep_end (st : Bool) : matchHere [Tok.sep] [] st = true := by
  simp [matchHere]

theorem afterHostPrefix_mem (sub x : Bytes) (seen : Bool) (hsub : sub.all plainByte = true)
    (hne : sub ≠ [] ∨ seen = true) : x ∈ afterHostPrefix (sub ++ dot :: x) seen := by
  induction sub generalizing seen with
  | nil =>
    have hs : seen = true := by rcases hne with h | h; exact absurd rfl h; exact h
    simp [afterHostPrefix, isURLHostByte, isAlnumB, isLowerB, isUpperB, isDigitB, dot, dash, hs]
  | cons b rest ih =>
    simp only [List.all_cons, Bool.and_eq_true] at hsub
    have hu := plainByte_urlHost b hsub.1
    simp only [List.cons_append, afterHostPrefix, hu, Bool.not_true, Bool.false_eq_true, if_false]
    apply List.mem_append_right
    exact ih true hsub.2 (Or.inr rfl)

theorem search_first (toks : List Tok) (s : Bytes) (h : matchHere toks s true = true) :
    searchFrom toks s true = true := by
  cases s with
  | nil => simpa [searchFrom] using h
  | cons c r => simp [searchFrom, h]

end AGH.Filter
