/-
C09: the flush loop rotates within one polling period.
-/
import AGH.Spec.StatsLoop
namespace AGH.C09

theorem tick_limit (s : State) (id : Nat) : (tick s id).limit = s.limit := by
  simp only [tick, flush]
  split <;> rfl

theorem tick_id (s : State) (id : Nat) (h : s.limitHours ≠ 0) : (tick s id).curr.id = id := by
  have h' : ¬ ({ s with clock := id } : State).limitHours = 0 := h
  simp only [tick, flush]
  by_cases hc : s.curr.id = id
  · simp [hc]
  · simp only [h', hc, or_self, if_false]
    rfl

theorem poll_limitHours (P : Nat) (L : Loop) : (L.poll P).s.limitHours = L.s.limitHours := by
  simp only [Loop.poll, State.limitHours, tick_limit]

theorem polls_succ (P : Nat) (n : Nat) (L : Loop) (h : L.s.limitHours ≠ 0) :
    (L.polls P (n + 1)).s.curr.id = hourAt (L.next + n * P) L.skew ∧
    (L.polls P (n + 1)).next = L.next + (n + 1) * P ∧ (L.polls P (n + 1)).skew = L.skew ∧
    (L.polls P (n + 1)).s.limitHours = L.s.limitHours := by
  induction n generalizing L with
  | zero =>
    simp only [Loop.polls, Nat.zero_mul, Nat.add_zero, Nat.zero_add, Nat.one_mul]
    exact ⟨tick_id _ _ h, rfl, rfl, poll_limitHours P L⟩
  | succ n ih =>
    have hl : (L.poll P).s.limitHours ≠ 0 := by rw [poll_limitHours]; exact h
    obtain ⟨a, b, c, d⟩ := ih (L.poll P) hl
    have e1 : (L.poll P).next = L.next + P := rfl
    have e2 : (L.poll P).skew = L.skew := rfl
    refine ⟨?_, ?_, ?_, ?_⟩
    · show (Loop.polls P (L.poll P) (n + 1)).s.curr.id = _
      rw [a, e1, e2, Nat.succ_mul]; congr 1; omega
    · show (Loop.polls P (L.poll P) (n + 1)).next = _
      rw [b, e1, Nat.succ_mul (n + 1)]; omega
    · show (Loop.polls P (L.poll P) (n + 1)).skew = _
      rw [c, e2]
    · show (Loop.polls P (L.poll P) (n + 1)).s.limitHours = _
      rw [d, poll_limitHours]

theorem hourAt_mono {a b : Nat} (h : a ≤ b) (k : Nat) : hourAt a k ≤ hourAt b k := by
  simp only [hourAt]
  exact Nat.add_le_add_right (Nat.div_le_div_right h) k

end AGH.C09
