/-
C17 helper lemmas: a name matched by a pattern has exactly as many
separators as the pattern has literal ones (no class admitting `/`).
-/
import AGH.Lemmas.SafeFSParse
import AGH.Lemmas.SafeFSMatch
namespace AGH.C17
open AGH AGH.Bytes

theorem count_take_drop (k : Nat) (p : Bytes) :
    p.count slash = (p.take k).count slash + (p.drop k).count slash := by
  conv => lhs; rw [← List.take_append_drop k p]
  rw [List.count_append]

theorem count_zero_of_contains_false {p : Bytes} (h : p.contains slash = false) : p.count slash = 0 := by
  rw [List.count_eq_zero]
  intro hm
  have : p.contains slash = true := by simpa using hm
  rw [h] at this; cases this

theorem isCont_ne_slash {b : Nat} (h : isCont b = true) : b ≠ slash := by
  simp [isCont, slash] at h ⊢; omega

theorem take_ite_count {C : Prop} [Decidable C] {x e k : Nat} {l : Bytes}
    (hk : C → (l.take k).count slash = 0) (h1 : (l.take 1).count slash = 0) :
    (l.take (if C then (x, k) else (e, 1)).2).count slash = 0 := by
  split
  · rename_i h; exact hk h
  · exact h1

/-- The bytes of one decoded rune contain no separator unless the first byte is one. -/
theorem decodeRune_take_count (c : Nat) (tl : Bytes) (hc : c ≠ slash) :
    ((c :: tl).take (decodeRune (c :: tl)).2).count slash = 0 := by
  have one : ((c :: tl).take 1).count slash = 0 := by
    simp [hc]
  by_cases h1 : c < 0x80
  · simp only [decodeRune, h1, if_true]; exact one
  by_cases h2 : c < 0xC2
  · simp only [decodeRune, h1, h2, if_true, if_false]; exact one
  by_cases h3 : c < 0xE0
  · rcases tl with _ | ⟨b1, t⟩
    · simp only [decodeRune, h1, h2, h3, if_true, if_false]; exact one
    · simp only [decodeRune, h1, h2, h3, if_true, if_false]
      apply take_ite_count _ one
      intro hb
      simp [hc, isCont_ne_slash hb]
  by_cases h4 : c < 0xF0
  · rcases tl with _ | ⟨b1, _ | ⟨b2, t⟩⟩
    · simp only [decodeRune, h1, h2, h3, h4, if_true, if_false]; exact one
    · simp only [decodeRune, h1, h2, h3, h4, if_true, if_false]; exact one
    · simp only [decodeRune, h1, h2, h3, h4, if_true, if_false]
      apply take_ite_count _ one
      intro hb
      simp only [Bool.and_eq_true, decide_eq_true_eq] at hb
      have hb1 : b1 ≠ slash := by
        have := hb.1.1; simp only [slash]; split at this <;> omega
      simp [hc, hb1, isCont_ne_slash hb.2]
  by_cases h5 : c < 0xF5
  · rcases tl with _ | ⟨b1, _ | ⟨b2, _ | ⟨b3, t⟩⟩⟩
    · simp only [decodeRune, h1, h2, h3, h4, h5, if_true, if_false]; exact one
    · simp only [decodeRune, h1, h2, h3, h4, h5, if_true, if_false]; exact one
    · simp only [decodeRune, h1, h2, h3, h4, h5, if_true, if_false]; exact one
    · simp only [decodeRune, h1, h2, h3, h4, h5, if_true, if_false]
      apply take_ite_count _ one
      intro hb
      simp only [Bool.and_eq_true, decide_eq_true_eq] at hb
      have hb1 : b1 ≠ slash := by
        have := hb.1.1.1; simp only [slash]; split at this <;> omega
      simp [hc, hb1, isCont_ne_slash hb.1.2, isCont_ne_slash hb.2]
  · simp only [decodeRune, h1, h2, h3, h4, h5, if_false]; exact one

theorem decodeRune_slash (tl : Bytes) : (decodeRune (slash :: tl)).1 = slash := by
  simp [decodeRune, slash]

/-- Directory depth is fixed by the literal separators of the pattern. -/
theorem matchesT_depth : ∀ (ts : List Term) (p : Bytes), noSlashClass ts = true → matchesT ts p = true →
    p.count slash = litSlashes ts := by
  intro ts
  induction ts with
  | nil =>
    intro p _ h
    simp only [matchesT, List.isEmpty_iff] at h
    subst h; rfl
  | cons t ts ih =>
    intro p hns h
    cases t with
    | star =>
      obtain ⟨k, _, hk, hm⟩ := (matchesT_star ts p).mp h
      rw [count_take_drop k p, count_zero_of_contains_false hk, ih _ hns hm]
      simp [litSlashes]
    | any =>
      cases p with
      | nil => simp [matchesT] at h
      | cons c tl =>
        simp only [matchesT, Bool.and_eq_true, bne_iff_ne, ne_eq] at h
        rw [count_take_drop (decodeRune (c :: tl)).2, decodeRune_take_count c tl h.1, ih _ hns h.2]
        simp [litSlashes]
    | lit b =>
      cases p with
      | nil => simp [matchesT] at h
      | cons c tl =>
        simp only [matchesT, Bool.and_eq_true, beq_iff_eq] at h
        obtain ⟨rfl, hm⟩ := h
        rw [List.count_cons, ih _ hns hm]
        simp only [litSlashes, beq_iff_eq]
        omega
    | cls neg rs =>
      simp only [noSlashClass, Bool.and_eq_true, Bool.not_eq_true'] at hns
      obtain ⟨⟨hneg, hrs⟩, hns'⟩ := hns
      cases p with
      | nil => simp [matchesT] at h
      | cons c tl =>
        simp only [matchesT, Bool.and_eq_true, bne_iff_ne, ne_eq] at h
        have hc : c ≠ slash := by
          intro hc; subst hc
          rw [decodeRune_slash, hrs, hneg] at h
          exact h.1 rfl
        rw [count_take_drop (decodeRune (c :: tl)).2, decodeRune_take_count c tl hc, ih _ hns' h.2]
        simp [litSlashes]

end AGH.C17
