/-
C10 — helper lemmas, part 2: the table primitives keep the invariant
(`rmLeaseByIndex`, hostname changes, `addLease`, `rmDynamicLease`, `rmLease`).
-/
import AGH.Lemmas.DHCPBasic
namespace AGH.C10
open AGH

/-! ### removing one lease -/

/-- `rmLeaseByIndex` on the element between `A` and `B`. -/
theorem Inv_rm {c : Conf} {s : State} {A B : List Lease} {l : Lease} (X : List Lease)
    (h : Inv c { s with leases := A ++ l :: B }) :
    Inv c { rmSide c l X s with leases := A ++ B } := by
  have hip := nodup_map_middle h.ipNodup
  have hmac := nodup_map_middle h.macNodup
  have hid := nodup_map_middle h.idNodup
  have hsub : ∀ y, y ∈ A ++ B → y ∈ A ++ l :: B := fun y hy => mem_middle.2 (.inr hy)
  constructor
  · exact hip.1
  · exact hmac.1
  · intro y hy; exact h.dynPool y (hsub y hy)
  · -- bits
    intro o
    have hb := h.bitsIff o
    simp only [rmSide, State.delHost, State.delIP] at hb ⊢
    cases hoff : offset c l.ip with
    | none =>
      have hno := offset_eq_none.1 hoff
      simp only []
      rw [hb]
      constructor
      · rintro ⟨y, hy, h1, h2⟩
        rcases mem_middle.1 hy with rfl | hy'
        · exact absurd ⟨by omega, h2⟩ hno
        · exact ⟨y, hy', h1, h2⟩
      · rintro ⟨y, hy, h1, h2⟩
        exact ⟨y, hsub y hy, h1, h2⟩
    | some o0 =>
      obtain ⟨h1, h2, h3⟩ := offset_eq_some.1 hoff
      simp only []
      by_cases ho : o = o0
      · subst ho
        rw [setFn_same]
        constructor
        · intro hf; cases hf
        · rintro ⟨y, hy, hy1, _⟩
          exact absurd (show y.ip = l.ip by omega) (hip.2 y hy)
      · rw [setFn_other _ _ _ ho, hb]
        constructor
        · rintro ⟨y, hy, hy1, hy2⟩
          rcases mem_middle.1 hy with rfl | hy'
          · exact absurd (by omega) ho
          · exact ⟨y, hy', hy1, hy2⟩
        · rintro ⟨y, hy, hy1, hy2⟩
          exact ⟨y, hsub y hy, hy1, hy2⟩
  · -- ips
    intro ip id
    have hb := h.ipsIff ip id
    simp only [rmSide, State.delHost, State.delIP] at hb ⊢
    by_cases hi : ip = l.ip
    · subst hi
      rw [setFn_same]
      constructor
      · intro hf; cases hf
      · rintro ⟨y, hy, hy1, _⟩
        exact absurd hy1 (hip.2 y hy)
    · rw [setFn_other _ _ _ hi, hb]
      constructor
      · rintro ⟨y, hy, hy1, hy2⟩
        rcases mem_middle.1 hy with rfl | hy'
        · exact absurd hy1.symm hi
        · exact ⟨y, hy', hy1, hy2⟩
      · rintro ⟨y, hy, hy1, hy2⟩
        exact ⟨y, hsub y hy, hy1, hy2⟩
  · -- hosts
    intro k id hk
    simp only [rmSide, State.delHost, State.delIP] at hk ⊢
    by_cases hkl : k = l.host
    · subst hkl; rw [setFn_same] at hk; cases hk
    · rw [setFn_other _ _ _ hkl] at hk
      obtain ⟨y, hy, hy1, hy2⟩ := h.hostsSound k id hk
      rcases mem_middle.1 hy with rfl | hy'
      · exact absurd hy2.symm hkl
      · exact ⟨y, hy', hy1, hy2⟩
  · have := h.hostsNil
    simp only [rmSide, State.delHost, State.delIP] at this ⊢
    by_cases hkl : ([] : Bytes) = l.host
    · rw [hkl, setFn_same]
    · rw [setFn_other _ _ _ hkl]; exact this
  · exact hid.1
  · intro y hy; exact h.idLt y (hsub y hy)
  · exact h.disk

/-! ### changing the hostname / expiry of one lease -/

/-- The two map views that matter do not see hostname and expiry. -/
theorem Inv_rename {c : Conf} {s : State} {A B : List Lease} {l : Lease} (h' : Bytes) (e : Nat)
    (h : Inv c { s with leases := A ++ l :: B }) :
    Inv c { s with
      leases := A ++ { l with host := h', exp := e } :: B
      hosts :=
        let hosts1 := if l.host ≠ [] ∧ l.host ≠ h' then setFn s.hosts l.host none else s.hosts
        if h' ≠ [] then setFn hosts1 h' (some l.id) else hosts1 } := by
  have hmem : ∀ y, y ∈ A ++ { l with host := h', exp := e } :: B →
      ∃ y0 ∈ A ++ l :: B, y0.id = y.id ∧ y0.mac = y.mac ∧ y0.ip = y.ip ∧ y0.static = y.static ∧
        (y0 = l ∨ y0 = y) := by
    intro y hy
    rcases mem_middle.1 hy with rfl | hy'
    · exact ⟨l, mem_middle.2 (.inl rfl), rfl, rfl, rfl, rfl, .inl rfl⟩
    · exact ⟨y, mem_middle.2 (.inr hy'), rfl, rfl, rfl, rfl, .inr rfl⟩
  have hmem' : ∀ y0, y0 ∈ A ++ l :: B →
      ∃ y ∈ A ++ { l with host := h', exp := e } :: B, y0.id = y.id ∧ y0.mac = y.mac ∧ y0.ip = y.ip ∧
        y0.static = y.static := by
    intro y hy
    rcases mem_middle.1 hy with rfl | hy'
    · exact ⟨_, mem_middle.2 (.inl rfl), rfl, rfl, rfl, rfl⟩
    · exact ⟨y, mem_middle.2 (.inr hy'), rfl, rfl, rfl, rfl⟩
  constructor
  · have := h.ipNodup; simpa [List.map_append] using this
  · have := h.macNodup; simpa [List.map_append] using this
  · intro y hy hs
    obtain ⟨y0, hy0, _, _, hi, hst, _⟩ := hmem y hy
    rw [← hi]; exact h.dynPool y0 hy0 (hst ▸ hs)
  · intro o
    rw [show ({ s with leases := A ++ { l with host := h', exp := e } :: B, hosts := _ } : State).bits = s.bits from rfl]
    rw [show s.bits o = ({ s with leases := A ++ l :: B } : State).bits o from rfl, h.bitsIff o]
    constructor
    · rintro ⟨y0, hy0, h1, h2⟩
      obtain ⟨y, hy, _, _, hi, _⟩ := hmem' y0 hy0
      exact ⟨y, hy, hi ▸ h1, hi ▸ h2⟩
    · rintro ⟨y, hy, h1, h2⟩
      obtain ⟨y0, hy0, _, _, hi, _⟩ := hmem y hy
      exact ⟨y0, hy0, hi ▸ h1, hi ▸ h2⟩
  · intro ip id
    rw [show ({ s with leases := A ++ { l with host := h', exp := e } :: B, hosts := _ } : State).ips = s.ips from rfl]
    rw [show s.ips ip = ({ s with leases := A ++ l :: B } : State).ips ip from rfl, h.ipsIff ip id]
    constructor
    · rintro ⟨y0, hy0, h1, h2⟩
      obtain ⟨y, hy, hid, _, hi, _⟩ := hmem' y0 hy0
      exact ⟨y, hy, hi ▸ h1, hid ▸ h2⟩
    · rintro ⟨y, hy, h1, h2⟩
      obtain ⟨y0, hy0, hid, _, hi, _⟩ := hmem y hy
      exact ⟨y0, hy0, hi ▸ h1, hid ▸ h2⟩
  · -- hosts
    intro k id hk
    simp only [] at hk ⊢
    have hsound := h.hostsSound
    have hnil := h.hostsNil
    simp only [] at hsound hnil
    by_cases hk' : h' ≠ [] ∧ k = h'
    · obtain ⟨hne, rfl⟩ := hk'
      rw [if_pos hne, setFn_same] at hk
      cases hk
      exact ⟨_, mem_middle.2 (.inl rfl), rfl, rfl⟩
    · have hk1 : (if l.host ≠ [] ∧ l.host ≠ h' then setFn s.hosts l.host none else s.hosts) k = some id := by
        by_cases hne : h' ≠ []
        · rw [if_pos hne] at hk
          have : k ≠ h' := fun e => hk' ⟨hne, e⟩
          rwa [setFn_other _ _ _ this] at hk
        · rwa [if_neg hne] at hk
      by_cases hdel : l.host ≠ [] ∧ l.host ≠ h'
      · rw [if_pos hdel] at hk1
        by_cases hkl : k = l.host
        · subst hkl; rw [setFn_same] at hk1; cases hk1
        · rw [setFn_other _ _ _ hkl] at hk1
          obtain ⟨y, hy, hy1, hy2⟩ := hsound k id hk1
          rcases mem_middle.1 hy with rfl | hy'
          · exact absurd hy2.symm hkl
          · exact ⟨y, mem_middle.2 (.inr hy'), hy1, hy2⟩
      · rw [if_neg hdel] at hk1
        obtain ⟨y, hy, hy1, hy2⟩ := hsound k id hk1
        rcases mem_middle.1 hy with rfl | hy'
        · -- the entry is the lease's own old name, which was not deleted: it equals the new name
          exfalso
          by_cases hp : y.host = []
          · rw [← hy2, hp, hnil] at hk1; cases hk1
          · have : y.host = h' := Classical.byContradiction fun hne => hdel ⟨hp, hne⟩
            exact hk' ⟨by rw [← this]; exact hp, by rw [← hy2, this]⟩
        · exact ⟨y, mem_middle.2 (.inr hy'), hy1, hy2⟩
  · have hnil := h.hostsNil
    simp only [] at hnil ⊢
    by_cases hne : h' ≠ []
    · rw [if_pos hne, setFn_other _ _ _ (Ne.symm hne)]
      split
      · next hd => rw [setFn_other _ _ _ (Ne.symm hd.1)]; exact hnil
      · exact hnil
    · rw [if_neg hne]
      split
      · next hd => rw [setFn_other _ _ _ (Ne.symm hd.1)]; exact hnil
      · exact hnil
  · have := h.idNodup; simpa [List.map_append] using this
  · intro y hy
    obtain ⟨y0, hy0, hid, _⟩ := hmem y hy
    rw [← hid]; exact h.idLt y0 hy0
  · exact h.disk

/-- `rmDynamicLease` takes the hostname from a dynamic lease of another client
(and the index entry, if it is that lease's). -/
theorem Inv_clear {c : Conf} {s : State} {A B : List Lease} {l : Lease}
    (h : Inv c { s with leases := A ++ l :: B }) :
    Inv c { (if l.host ≠ [] ∧ s.hosts l.host = some l.id then s.delHost l.host else s) with
      leases := A ++ { l with host := [] } :: B } := by
  have hr := Inv_rename (c := c) (s := s) (A := A) (B := B) (l := l) [] l.exp h
  simp only [ne_eq, not_true_eq_false, if_false] at hr
  by_cases hd : l.host ≠ [] ∧ s.hosts l.host = some l.id
  · rw [if_pos hd]
    have : (if l.host ≠ [] ∧ ¬ l.host = [] then setFn s.hosts l.host none else s.hosts) = setFn s.hosts l.host none := by
      rw [if_pos ⟨hd.1, hd.1⟩]
    refine Inv_congr hr rfl rfl rfl ?_ rfl rfl
    simp only [State.delHost]
    exact this.symm
  · rw [if_neg hd]
    -- nothing is deleted: the old name has no entry that points to this lease
    by_cases hp : l.host = []
    · refine Inv_congr hr rfl rfl rfl ?_ rfl rfl
      simp only []
      rw [if_neg (fun hh => hh.1 hp)]
    · have hne : s.hosts l.host ≠ some l.id := fun e => hd ⟨hp, e⟩
      -- deleting or not differs only at key `l.host`; soundness is kept either way
      constructor
      · exact hr.ipNodup
      · exact hr.macNodup
      · exact hr.dynPool
      · exact hr.bitsIff
      · exact hr.ipsIff
      · intro k id hk
        simp only [] at hk ⊢
        obtain ⟨y, hy, hy1, hy2⟩ := h.hostsSound k id hk
        rcases mem_middle.1 hy with rfl | hy'
        · exact absurd (by rw [← hy2, ← hy1] at hk; exact hk) hne
        · exact ⟨y, mem_middle.2 (.inr hy'), hy1, hy2⟩
      · exact h.hostsNil
      · exact hr.idNodup
      · exact hr.idLt
      · exact hr.disk

/-! ### `addLease` -/

theorem addLease_ok {c : Conf} {s s' : State} {l : Lease} (hadd : addLease c l s = .ok s') :
    (l.static = false → (offset c l.ip).isNone = false) ∧ s' = addLeaseOK c l s := by
  unfold addLease at hadd
  by_cases h1 : (l.static && !inSubnet c l.ip) = true
  · rw [if_pos h1] at hadd; cases hadd
  rw [if_neg h1] at hadd
  by_cases h2 : (!l.static && (offset c l.ip).isNone) = true
  · rw [if_pos h2] at hadd; cases hadd
  rw [if_neg h2] at hadd
  by_cases h3 : l.host ≠ [] ∧ (s.hosts l.host).isSome
  · rw [if_pos h3] at hadd; cases hadd
  rw [if_neg h3] at hadd
  simp only [Except.ok.injEq] at hadd
  refine ⟨?_, hadd.symm⟩
  intro hs
  cases ho : (offset c l.ip).isNone
  · rfl
  · exact absurd (by simp [hs, ho]) h2

theorem Inv_add {c : Conf} {s s' : State} {l : Lease} (h : Inv c s)
    (hadd : addLease c l s = .ok s')
    (hip : ∀ y ∈ s.leases, y.ip ≠ l.ip) (hmac : ∀ y ∈ s.leases, y.mac ≠ l.mac)
    (hidlt : l.id < s.nextId) (hidfresh : ∀ y ∈ s.leases, y.id ≠ l.id) :
    Inv c s' := by
  obtain ⟨hrange, hs'⟩ := addLease_ok hadd
  subst hs'
  have hleases : (addLeaseOK c l s).leases = s.leases ++ [l] := rfl
  have hips : (addLeaseOK c l s).ips = setFn s.ips l.ip (some l.id) := rfl
  have hhosts : (addLeaseOK c l s).hosts = if l.host ≠ [] then setFn s.hosts l.host (some l.id) else s.hosts := rfl
  have hbits : (addLeaseOK c l s).bits = match offset c l.ip with
      | some o => setFn s.bits o true
      | none => s.bits := rfl
  have hnext : (addLeaseOK c l s).nextId = s.nextId := rfl
  have hdisk : (addLeaseOK c l s).disk = s.disk := rfl
  have hmemS : ∀ y, y ∈ (addLeaseOK c l s).leases ↔ y ∈ s.leases ∨ y = l := by
    intro y; rw [hleases]; simp
  constructor
  · rw [hleases]; exact nodup_map_snoc h.ipNodup hip
  · rw [hleases]; exact nodup_map_snoc h.macNodup hmac
  · intro y hy hs
    rcases (hmemS y).1 hy with hy | rfl
    · exact h.dynPool y hy hs
    · have := hrange hs
      cases ho : offset c y.ip with
      | none => rw [ho] at this; simp at this
      | some o => obtain ⟨h1, h2, _⟩ := offset_eq_some.1 ho; exact ⟨h1, h2⟩
  · intro o
    rw [hbits]
    cases hoff : offset c l.ip with
    | none =>
      have hno := offset_eq_none.1 hoff
      simp only []
      rw [h.bitsIff o]
      constructor
      · rintro ⟨y, hy, h1, h2⟩; exact ⟨y, (hmemS y).2 (.inl hy), h1, h2⟩
      · rintro ⟨y, hy, h1, h2⟩
        rcases (hmemS y).1 hy with hy | rfl
        · exact ⟨y, hy, h1, h2⟩
        · exact absurd ⟨by omega, h2⟩ hno
    | some o0 =>
      obtain ⟨h1, h2, h3⟩ := offset_eq_some.1 hoff
      simp only []
      by_cases ho : o = o0
      · subst ho
        rw [setFn_same]
        exact ⟨fun _ => ⟨l, (hmemS l).2 (.inr rfl), by omega, h2⟩, fun _ => rfl⟩
      · rw [setFn_other _ _ _ ho, h.bitsIff o]
        constructor
        · rintro ⟨y, hy, hy1, hy2⟩; exact ⟨y, (hmemS y).2 (.inl hy), hy1, hy2⟩
        · rintro ⟨y, hy, hy1, hy2⟩
          rcases (hmemS y).1 hy with hy | rfl
          · exact ⟨y, hy, hy1, hy2⟩
          · exact absurd (by omega) ho
  · intro ip id
    rw [hips]
    by_cases hi : ip = l.ip
    · subst hi
      rw [setFn_same]
      constructor
      · intro e; cases e; exact ⟨l, (hmemS l).2 (.inr rfl), rfl, rfl⟩
      · rintro ⟨y, hy, hy1, hy2⟩
        rcases (hmemS y).1 hy with hy | rfl
        · exact absurd hy1 (hip y hy)
        · rw [hy2]
    · rw [setFn_other _ _ _ hi, h.ipsIff ip id]
      constructor
      · rintro ⟨y, hy, hy1, hy2⟩; exact ⟨y, (hmemS y).2 (.inl hy), hy1, hy2⟩
      · rintro ⟨y, hy, hy1, hy2⟩
        rcases (hmemS y).1 hy with hy | rfl
        · exact ⟨y, hy, hy1, hy2⟩
        · exact absurd hy1.symm hi
  · intro k id hk
    rw [hhosts] at hk
    by_cases hne : l.host ≠ []
    · rw [if_pos hne] at hk
      by_cases hkl : k = l.host
      · subst hkl; rw [setFn_same] at hk; cases hk
        exact ⟨l, (hmemS l).2 (.inr rfl), rfl, rfl⟩
      · rw [setFn_other _ _ _ hkl] at hk
        obtain ⟨y, hy, hy1, hy2⟩ := h.hostsSound k id hk
        exact ⟨y, (hmemS y).2 (.inl hy), hy1, hy2⟩
    · rw [if_neg hne] at hk
      obtain ⟨y, hy, hy1, hy2⟩ := h.hostsSound k id hk
      exact ⟨y, (hmemS y).2 (.inl hy), hy1, hy2⟩
  · rw [hhosts]
    by_cases hne : l.host ≠ []
    · rw [if_pos hne, setFn_other _ _ _ (Ne.symm hne)]; exact h.hostsNil
    · rw [if_neg hne]; exact h.hostsNil
  · rw [hleases]; exact nodup_map_snoc h.idNodup hidfresh
  · intro y hy
    rw [hnext]
    rcases (hmemS y).1 hy with hy | rfl
    · exact h.idLt y hy
    · exact hidlt
  · rw [hdisk]; exact h.disk

/-- A successful `addLease` appends the lease and changes neither counter nor file. -/
theorem addLease_leases {c : Conf} {s s' : State} {l : Lease} (hadd : addLease c l s = .ok s') :
    s'.leases = s.leases ++ [l] ∧ s'.nextId = s.nextId ∧ s'.disk = s.disk ∧ s'.now = s.now := by
  obtain ⟨_, rfl⟩ := addLease_ok hadd
  exact ⟨rfl, rfl, rfl, rfl⟩

/-! ### `rmDynamicLease` -/

theorem rmDynLoop_inv (c : Conf) (mac : Bytes) (ip : Nat) (host : Bytes) :
    ∀ (todo pre : List Lease) (s : State), Inv c { s with leases := pre ++ todo } →
      Inv c (rmDynLoop c mac ip host pre todo s).1 := by
  intro todo
  induction todo with
  | nil => intro pre s h; simpa [rmDynLoop] using h
  | cons l rest ih =>
    intro pre s h
    unfold rmDynLoop
    split
    · split
      · exact h
      · exact ih pre _ (Inv_rm _ h)
    · split
      · have := Inv_clear h
        refine ih (pre ++ [{ l with host := [] }]) _ ?_
        simpa [List.append_assoc] using this
      · refine ih (pre ++ [l]) s ?_
        simpa [List.append_assoc] using h

theorem rmDynamicLease_inv {c : Conf} {s : State} (mac : Bytes) (ip : Nat) (host : Bytes) (h : Inv c s) :
    Inv c (rmDynamicLease c mac ip host s).1 :=
  rmDynLoop_inv c mac ip host s.leases [] s (by simpa using h)

/-- Without the error nothing with that MAC or address is left. -/
theorem rmDynLoop_clean (c : Conf) (mac : Bytes) (ip : Nat) (host : Bytes) :
    ∀ (todo pre : List Lease) (s : State), (∀ x ∈ pre, x.mac ≠ mac ∧ x.ip ≠ ip) →
      (rmDynLoop c mac ip host pre todo s).2 = false →
      ∀ x ∈ (rmDynLoop c mac ip host pre todo s).1.leases, x.mac ≠ mac ∧ x.ip ≠ ip := by
  intro todo
  induction todo with
  | nil => intro pre s hpre _; simpa [rmDynLoop] using hpre
  | cons l rest ih =>
    intro pre s hpre
    unfold rmDynLoop
    split
    · split
      · intro hf; cases hf
      · exact ih pre _ hpre
    · next hm =>
      have hl : l.mac ≠ mac ∧ l.ip ≠ ip := by
        simp only [Bool.or_eq_true, beq_iff_eq, not_or] at hm
        exact hm
      split
      · refine ih _ _ ?_
        intro x hx
        rcases List.mem_append.1 hx with hx | hx
        · exact hpre x hx
        · simp only [List.mem_singleton] at hx; subst hx; exact hl
      · refine ih _ _ ?_
        intro x hx
        rcases List.mem_append.1 hx with hx | hx
        · exact hpre x hx
        · simp only [List.mem_singleton] at hx; subst hx; exact hl

/-- `rmDynamicLease` changes neither the id counter, the clock nor the file. -/
theorem rmDynLoop_frame (c : Conf) (mac : Bytes) (ip : Nat) (host : Bytes) :
    ∀ (todo pre : List Lease) (s : State),
      (rmDynLoop c mac ip host pre todo s).1.nextId = s.nextId ∧
      (rmDynLoop c mac ip host pre todo s).1.now = s.now ∧
      (rmDynLoop c mac ip host pre todo s).1.disk = s.disk := by
  intro todo
  induction todo with
  | nil => intro pre s; simp [rmDynLoop]
  | cons l rest ih =>
    intro pre s
    unfold rmDynLoop
    split
    · split
      · exact ⟨rfl, rfl, rfl⟩
      · have := ih pre (rmSide c l (pre ++ l :: rest) s)
        simpa [rmSide, State.delHost, State.delIP] using this
    · split
      · by_cases hd : l.host ≠ [] ∧ s.hosts l.host = some l.id
        · rw [if_pos hd]
          exact ih (pre ++ [{ l with host := [] }]) (s.delHost l.host)
        · rw [if_neg hd]
          exact ih _ _
      · exact ih _ _

/-! ### `rmLeaseByIndex` / `rmLease` -/

theorem findIdxIP_spec (ip : Nat) : ∀ (L : List Lease) (k i : Nat) (l : Lease),
    findIdxIP ip L k = some (i, l) → ∃ A B, L = A ++ l :: B ∧ i = k + A.length ∧ l.ip = ip := by
  intro L
  induction L with
  | nil => intro k i l h; cases h
  | cons x xs ih =>
    intro k i l h
    unfold findIdxIP at h
    split at h
    · next hx =>
      simp only [Option.some.injEq, Prod.mk.injEq] at h
      obtain ⟨rfl, rfl⟩ := h
      exact ⟨[], xs, rfl, by simp, by simpa using hx⟩
    · obtain ⟨A, B, rfl, hi, hl⟩ := ih (k + 1) i l h
      exact ⟨x :: A, B, rfl, by simp; omega, hl⟩

theorem rmAt_split {c : Conf} {s : State} {A B : List Lease} {l : Lease} (hs : s.leases = A ++ l :: B) :
    rmAt c A.length s = { rmSide c l s.leases s with leases := A ++ B } := by
  unfold rmAt
  have : s.leases[A.length]? = some l := by rw [hs]; simp
  rw [this]
  simp only []
  congr 1
  rw [hs]
  simp [List.eraseIdx_append_of_length_le]

theorem Inv_rmAt_split {c : Conf} {s : State} {A B : List Lease} {l : Lease} (h : Inv c s)
    (hs : s.leases = A ++ l :: B) : Inv c (rmAt c A.length s) := by
  rw [rmAt_split hs]
  have : Inv c { s with leases := A ++ l :: B } := by rw [← hs]; exact h
  exact Inv_rm _ this

theorem rmLease_inv {c : Conf} {s s' : State} (mac : Bytes) (ip : Nat) (host : Bytes) (h : Inv c s)
    (hr : rmLease c mac ip host s = .ok s') : Inv c s' := by
  unfold rmLease at hr
  split at hr
  · cases hr; exact h
  · split at hr
    · cases hr
    · next i l hf =>
      split at hr
      · cases hr
      · cases hr
        obtain ⟨A, B, hs, hi, _⟩ := findIdxIP_spec ip s.leases 0 i l hf
        have : i = A.length := by omega
        subst this
        exact Inv_rmAt_split h hs

end AGH.C10
