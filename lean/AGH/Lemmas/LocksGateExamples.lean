/-
C05 — non-vacuity of the gate-lock theorems: a program that is deadlock free
only thanks to a gate (no rank certificate exists for it without the gate), and
the variant in which one goroutine takes the gated lock WITHOUT the gate and
nests another acquisition inside, which has a reachable deadlock; an ungated
LEAF hold (released at once) is harmless.  Core Lean only.
-/
import AGH.Lemmas.LocksGate
import AGH.Lemmas.LocksExamples
namespace AGH.C05

open Event Mode

/-- Lock 2 (the bbolt writer lock) is gated by lock 0 (`confMu`). -/
def exGate : Lock → Option Lock := fun l => if l == 2 then some 0 else none

/-- The rank certificate: 0 < 2 < 1 (`confMu` < bolt < `currMu`). -/
def exGateRank : Lock → Nat := fun l => if l == 1 then 2 else if l == 2 then 1 else 0

/-- "flush: confMu.Lock, currMu.Lock, bolt" next to "read: confMu.RLock, bolt,
currMu.RLock" and a third goroutine that only takes `currMu`. -/
def exGated : Prog :=
  [[acq 0 excl, acq 1 excl, acq 2 excl, rel 2 excl, rel 1 excl, rel 0 excl],
   [acq 0 shared, acq 2 excl, acq 1 shared, rel 1 shared, rel 2 excl, rel 0 shared],
   [acq 1 excl, rel 1 excl]]

example : progRankedG exGateRank exGate exGated = true := by decide

/-- The flusher's acquisition of lock 2 really uses the exemption: it is made
while lock 1, of LARGER rank, is held. -/
example : exemptB exGate [(1, excl), (0, excl)] 2 = true ∧
    ([(1, excl), (0, excl)] : List (Lock × Mode)).all (fun h => exGateRank h.1 < exGateRank 2) = false := by
  decide

/-- With the identity rank the reader's `acq 1` under lock 2 is refused. -/
example : progRankedG (fun l => l) exGate exGated = false := by decide

/-- Without the gate no rank certificate exists: goroutine 0 takes 1 before 2,
goroutine 1 takes 2 before 1. -/
theorem exGated_not_ranked : ∀ rank, progRanked rank exGated = false := by
  intro rank
  cases h : progRanked rank exGated with
  | false => rfl
  | true =>
    exfalso
    simp only [progRanked, exGated, rankOK, List.all_cons, List.all_nil, Bool.and_true,
      Bool.and_eq_true, decide_eq_true_eq] at h
    omega

/-- The goroutines really contend (the reader's pick of lock 0 and the third
goroutine's pick of lock 1 are refused while the flusher is inside; later the
reader, holding lock 2, is refused lock 1) and the program runs to completion. -/
example : modelSched exGated [0, 1, 0, 2, 0, 0, 0, 0, 1, 2, 1, 1, 2, 1, 1, 1, 1] =
    [true, false, true, false, true, true, true, true, true, true, true, false, true, true, true,
     true, true] := by decide

example : (statesFrom (init exGated) [0, 1, 0, 2, 0, 0, 0, 0, 1, 2, 1, 1, 2, 1, 1, 1, 1]).getLast?.map
    unfinished = some false := by decide

/-- The theorems apply to it. -/
example : ∀ s, Reach (init exGated) s → ¬ Deadlock s ∧ ∀ i, ¬ WaitChain s i i :=
  fun s hr =>
    ⟨order_sound_gated exGateRank exGate exGated (by decide) s hr,
     no_wait_cycle_gated exGateRank exGate exGated (by decide) s hr⟩

/-! ### the reader drops the gate: reachable deadlock -/

def exUngated : Prog :=
  [[acq 0 excl, acq 1 excl, acq 2 excl, rel 2 excl, rel 1 excl, rel 0 excl],
   [acq 2 excl, acq 1 shared, rel 1 shared, rel 2 excl]]

example : progRankedG exGateRank exGate exUngated = false := by decide

/-- ... whatever the rank: the reader acquires lock 2 without holding its gate,
and not as a leaf hold (it goes on to acquire lock 1). -/
theorem exUngated_not_rankedG : ∀ rank, progRankedG rank exGate exUngated = false := by
  intro rank
  have h2 : gateHeldOK exGate [] 2 = false := by decide
  have h3 : leafNext 2 excl [acq 1 shared, rel 1 shared, rel 2 excl] = false := by decide
  simp [progRankedG, exUngated, rankOKg, h2, h3]

/-- The flusher holds 0 and 1 and waits for 2; the reader holds 2 and waits for 1. -/
def exUngatedStuck : State :=
  [⟨[(1, excl), (0, excl)], false, [acq 2 excl, rel 2 excl, rel 1 excl, rel 0 excl]⟩,
   ⟨[(2, excl)], false, [acq 1 shared, rel 1 shared, rel 2 excl]⟩]

example : (statesFrom (init exUngated) [0, 0, 1]).getLast? = some exUngatedStuck := by decide

theorem exUngated_reach : Reach (init exUngated) exUngatedStuck :=
  statesFrom_reach _ _ Reach.refl [0, 0, 1] _ (by decide)

theorem exUngated_deadlock : ∃ s, Reach (init exUngated) s ∧ Deadlock s :=
  ⟨exUngatedStuck, exUngated_reach, (deadlockB_iff _).1 (by decide)⟩

/-- The same `Reach` derivation with explicit machine steps. -/
example : Reach (init exUngated) exUngatedStuck :=
  Reach.step (Reach.step (Reach.step Reach.refl
    (Step.run 0 (s' :=
      [⟨[(0, excl)], false, [acq 1 excl, acq 2 excl, rel 2 excl, rel 1 excl, rel 0 excl]⟩,
       ⟨[], false, [acq 2 excl, acq 1 shared, rel 1 shared, rel 2 excl]⟩]) (by decide)))
    (Step.run 0 (s' :=
      [⟨[(1, excl), (0, excl)], false, [acq 2 excl, rel 2 excl, rel 1 excl, rel 0 excl]⟩,
       ⟨[], false, [acq 2 excl, acq 1 shared, rel 1 shared, rel 2 excl]⟩]) (by decide)))
    (Step.run 1 (by decide))

/-- ... and it is a wait-for cycle. -/
example : WaitChain exUngatedStuck 0 0 := by
  refine WaitChain.cons (k := 1) ?_ (WaitChain.one ?_)
  · exact ⟨_, _, 2, excl, _, rfl, rfl, rfl, by decide, by decide⟩
  · exact ⟨_, _, 1, shared, _, rfl, rfl, rfl, by decide, by decide⟩

/-! ### an ungated LEAF hold is harmless -/

/-- The flusher next to a goroutine that takes lock 2 without the gate but
releases it at once (`StatsCtx.clear`'s empty bbolt transaction). -/
def exLeaf : Prog :=
  [[acq 0 excl, acq 1 excl, acq 2 excl, rel 2 excl, rel 1 excl, rel 0 excl],
   [acq 2 excl, rel 2 excl]]

example : progRankedG exGateRank exGate exLeaf = true := by decide

/-- The leaf acquisition is made without the gate: only `leafNext` lets it through. -/
example : gateHeldOK exGate [] 2 = false ∧ leafNext 2 excl [rel 2 excl] = true := by decide

/-- The leaf holder really delays the flusher's EXEMPT acquisition of lock 2
(so "exempt acquisitions never block" is false here; they only never deadlock),
and the program runs to completion. -/
example : modelSched exLeaf [1, 0, 0, 0, 1, 0, 0, 0, 0] =
    [true, true, true, false, true, true, true, true, true] := by decide

example : (statesFrom (init exLeaf) [1, 0, 0, 0, 1, 0, 0, 0, 0]).getLast?.map unfinished =
    some false := by decide

example : ∀ s, Reach (init exLeaf) s → ¬ Deadlock s ∧ ∀ i, ¬ WaitChain s i i :=
  fun s hr =>
    ⟨order_sound_gated exGateRank exGate exLeaf (by decide) s hr,
     no_wait_cycle_gated exGateRank exGate exLeaf (by decide) s hr⟩

/-! ### the table-level theorem is not vacuous -/

/-- Rank, edge, gate and acquisition tables for `exGated`, and its goroutines
labelled with acquisition sites. -/
example :
    let ranks := [(0, 0), (2, 1), (1, 2)]
    let edges := [(0, 1), (0, 2), (2, 1)]
    let gates := [(2, 0)]
    let acqs : List AcqRow :=
      [⟨7, 2, [], [0], false, false⟩, ⟨8, 2, [0], [], false, false⟩, ⟨9, 2, [], [], true, false⟩]
    edgesRanked ranks edges = true ∧ acqsGated gates acqs = true ∧
    conformsOrdG edges gates acqs []
      [(acq 0 excl, 0), (acq 1 excl, 0), (acq 2 excl, 7), (rel 2 excl, 0), (rel 1 excl, 0),
       (rel 0 excl, 0)] = true ∧
    conformsOrdG edges gates acqs []
      [(acq 0 shared, 0), (acq 2 excl, 8), (acq 1 shared, 0), (rel 1 shared, 0), (rel 2 excl, 0),
       (rel 0 shared, 0)] = true ∧
    -- the ungated leaf hold conforms (site 9 is a leaf row)
    conformsOrdG edges gates acqs [] [(acq 2 excl, 9), (rel 2 excl, 0)] = true ∧
    -- the reader that drops the gate does not conform: site 8 lists the gate as
    -- held, and the leaf row of site 9 requires the release to come next
    conformsOrdG edges gates acqs []
      [(acq 2 excl, 8), (acq 1 shared, 0), (rel 1 shared, 0), (rel 2 excl, 0)] = false ∧
    conformsOrdG edges gates acqs []
      [(acq 2 excl, 9), (acq 1 shared, 0), (rel 1 shared, 0), (rel 2 excl, 0)] = false := by
  decide

end AGH.C05
