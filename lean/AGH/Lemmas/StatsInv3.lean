/-
C09: every operation preserves the invariant; a fresh start establishes it.
-/
import AGH.Lemmas.StatsInv2
namespace AGH.C09

theorem Inv.nowLimit {g : Ghost} {s : State} (hi : Inv g s) : g.limit + 1 ≤ g.now := by
  have := hi.limit_range
  have := hi.lo
  simp only [minHour] at this
  omega

theorem refresh_eq (g : Ghost) :
    g.refresh = { g with evs := rekeep (inWindow g.now g.limit) g.evs } := rfl

theorem inv_tick {g : Ghost} {s : State} (hi : Inv g s) (id : Nat) (hidc : g.clock ≤ id) (hid2 : id < U32) :
    Inv (ghostStep g (.tick id)) (tick s id) := by
  have hid : g.now ≤ id := Nat.le_trans hi.nowClock hidc
  have hr := hi.limit_range
  have hnl := hi.nowLimit
  have hms : s.limit / msPerHour = g.limit := hi.lim
  have hg : ghostStep g (.tick id) =
      { evs := rekeep (inWindow id (s.limit / msPerHour)) g.evs, now := id, clock := id,
        limit := s.limit / msPerHour,
        enabled := g.enabled, dom := g.dom && decide (g.clock ≤ id) && decide (id < U32) } := by
    simp only [ghostStep, Ghost.advance, refresh_eq, hms]
  rw [hg]
  by_cases hsame : s.curr.id = id
  · -- the flush sees the same hour: nothing happens
    have hst : tick s id = { s with clock := id } := by
      simp [tick, flush, hsame]
    rw [hst]
    have hnow : id = g.now := by rw [← hsame, hi.cur]
    refine inv_move hi id s.limit g.enabled _ hid hid2 hi.ivl rfl hsame rfl hi.en ?_ ?_ ?_
    · intro k v hkv; exact Or.inl hkv
    · simp [hnow]
    · intro h hh _
      have : ¬ h = g.now := by rw [← hnow]; exact hh
      simp [this]
  · have hlim0 : ¬ s.limitHours = 0 := by rw [hi.lim]; omega
    have hst : tick s id =
        { s with
          clock := id, curr := newUnit id
          db := (s.db.put s.curr.id s.curr.serialize).del (sub32 id s.limitHours) } := by
      have hl' : ¬ ({ s with clock := id } : State).limitHours = 0 := hlim0
      simp only [tick, flush, hl', hsame, false_or, if_false]
      rfl
    rw [hst]
    have hne : ¬ id = g.now := by rw [← hi.cur]; exact fun h => hsame h.symm
    have hsub : sub32 id s.limitHours = id - g.limit := by
      rw [hi.lim]; exact sub32_eq (by omega) hid2
    refine inv_move hi id s.limit g.enabled _ hid hid2 hi.ivl rfl rfl rfl hi.en ?_ ?_ ?_
    · intro k v hkv
      rcases mem_put (mem_del hkv) with h | h
      · right; rw [h, hi.cur]
      · left; exact h
    · simp [hne, newUnit, MemUnit.serialize, UnitDB.empty]
    · intro h hh hw
      simp only [inWindow, Bool.and_eq_true, decide_eq_true_eq, hms] at hw
      simp only [DB.get_del, DB.get_put, hsub, hi.cur]
      have h1 : ¬ id - g.limit = h := by omega
      simp only [h1, if_false]
      by_cases h2 : g.now = h
      · simp [h2]
      · have : ¬ h = g.now := fun x => h2 x.symm
        simp [h2, this]

theorem inv_restart {g : Ghost} {s s' : State} (hi : Inv g s) (id ms : Nat) (en : Bool)
    (hidc : g.clock ≤ id) (hid2 : id < U32) (hs : restart s id ms en = some s') :
    Inv (ghostStep g (.restart id ms en)) s' := by
  have hid : g.now ≤ id := Nat.le_trans hi.nowClock hidc
  have hv : validIvl ms = true := by
    cases h : validIvl ms with
    | true => rfl
    | false => simp [restart, new, h] at hs
  have hr := validIvl_range hv
  have hlo := hi.lo
  simp only [minHour] at hlo
  have hg : ghostStep g (.restart id ms en) =
      { evs := rekeep (inWindow id (ms / msPerHour)) g.evs, now := id, clock := id, limit := ms / msPerHour,
        enabled := en, dom := g.dom && decide (g.clock ≤ id) && decide (id < U32) } := by
    simp only [ghostStep, Ghost.advance, refresh_eq]
  rw [hg]
  have hf : sub32 (sub32 id (ms / msPerHour)) 1 = id - ms / msPerHour - 1 := by
    rw [sub32_eq (by omega) hid2, sub32_eq (by omega) (by omega)]
  simp only [restart, new, hv, Bool.not_true, Bool.false_eq_true, if_false, Option.some.injEq, close, hf] at hs
  subst hs
  have hgetid : (deleteOldUnits (id - ms / msPerHour - 1) (DB.put s.curr.id s.curr.serialize s.db)).get id =
      if id = g.now then some s.curr.serialize else none := by
    rw [get_deleteOld _ _ _ (by omega), DB.get_put, hi.cur]
    by_cases hsame : g.now = id
    · simp [hsame]
    · have : ¬ id = g.now := fun x => hsame x.symm
      simp only [hsame, this, if_false]
      apply get_none_of_keys
      intro x hx
      have := (hi.dbUp x.1 x.2 hx).1
      omega
  refine inv_move hi id ms en _ hid hid2 hv rfl ?_ rfl rfl ?_ ?_ ?_
  · simp only [hgetid]
    by_cases hsame : id = g.now <;> simp [hsame, MemUnit.deserialize, newUnit]
  · intro k v hkv
    rcases mem_put (mem_deleteOld hkv) with h | h
    · right; rw [h, hi.cur]
    · left; exact h
  · simp only [hgetid]
    by_cases hsame : id = g.now
    · simp [hsame, MemUnit.deserialize, MemUnit.serialize, newUnit]
    · simp [hsame, MemUnit.deserialize, MemUnit.serialize, newUnit, UnitDB.empty]
  · intro h hh hw
    simp only [inWindow, Bool.and_eq_true, decide_eq_true_eq] at hw
    rw [get_deleteOld _ _ _ (by omega), DB.get_put, hi.cur]
    by_cases h2 : g.now = h
    · simp [h2]
    · have : ¬ h = g.now := fun x => h2 x.symm
      simp [h2, this]

theorem inv_setDays {g : Ghost} {s : State} (hi : Inv g s) (d : Nat) :
    Inv (ghostStep g (.setDays d)) (setLimitDays s d) := by
  by_cases h1 : d = 1 ∨ d = 7 ∨ d = 30 ∨ d = 90
  · have hck : checkInterval d = true := by rcases h1 with h | h | h | h <;> subst h <;> rfl
    have hne : d * 24 * msPerHour ≠ 0 := by simp only [msPerHour]; omega
    have hv : validIvl (d * 24 * msPerHour) = true := by
      rw [validIvl_iff]; simp only [msPerHour]; omega
    have hdiv : d * 24 * msPerHour / msPerHour = d * 24 := by
      simp only [msPerHour]; omega
    have := inv_reconf hi (d * 24 * msPerHour) true hv
    rw [hdiv] at this
    simp only [ghostStep, h1, if_true, setLimitDays, hck, Bool.not_true, Bool.false_eq_true, if_false, hne,
      ne_eq, not_false_eq_true]
    exact this
  · by_cases h0 : d = 0
    · subst h0
      simp only [ghostStep, h1, if_false, if_true, setLimitDays]
      exact inv_clear hi false
    · have hck : checkInterval d = false := by
        simp only [checkInterval, Bool.or_eq_false_iff, beq_eq_false_iff_ne, ne_eq]
        omega
      simp only [ghostStep, h1, h0, if_false, setLimitDays, hck, Bool.not_false, if_true]
      exact hi

theorem inv_putConf {g : Ghost} {s : State} (hi : Inv g s) (ms : Nat) (en : Bool) :
    Inv (ghostStep g (.putConf ms en)) (putConf s ms en) := by
  simp only [ghostStep, putConf, okIvl_eq]
  cases hv : validIvl ms with
  | true => simpa using inv_reconf hi ms en hv
  | false => simpa using hi

theorem dom_step {g : Ghost} {op : Op} (h : (ghostStep g op).dom = true) : g.dom = true := by
  cases op with
  | upd e n => simp only [ghostStep] at h; split at h <;> exact h
  | tick id =>
    simp only [ghostStep, Ghost.refresh, Ghost.advance, Bool.and_eq_true] at h; exact h.1.1
  | advance h' =>
    simp only [ghostStep, Ghost.wall, Bool.and_eq_true] at h; exact h.1.1
  | restart id l en =>
    simp only [ghostStep, Ghost.refresh, Ghost.advance, Bool.and_eq_true] at h; exact h.1.1
  | setDays d =>
    simp only [ghostStep] at h
    split at h
    · exact h
    · split at h <;> exact h
  | putConf ms en => simp only [ghostStep] at h; split at h <;> exact h
  | clear => exact h
  | read => exact h

/-- One operation inside the domain preserves the invariant. -/
theorem inv_step {g : Ghost} {s s' : State} (hi : Inv g s) (op : Op) (hs : step s op = some s')
    (hd : (ghostStep g op).dom = true) : Inv (ghostStep g op) s' := by
  cases op with
  | upd e n =>
    simp only [step, Option.some.injEq] at hs; subst hs; exact inv_upd hi e n
  | tick id =>
    simp only [step, Option.some.injEq] at hs; subst hs
    simp only [ghostStep, Ghost.refresh, Ghost.advance, Bool.and_eq_true, decide_eq_true_eq] at hd
    exact inv_tick hi id hd.1.2 hd.2
  | advance h =>
    simp only [step, Option.some.injEq] at hs; subst hs
    simp only [ghostStep, Ghost.wall, Bool.and_eq_true, decide_eq_true_eq] at hd
    exact inv_advance hi h _ hd.1.2 hd.2
  | restart id l en =>
    simp only [step] at hs
    simp only [ghostStep, Ghost.refresh, Ghost.advance, Bool.and_eq_true, decide_eq_true_eq] at hd
    exact inv_restart hi id l en hd.1.2 hd.2 hs
  | setDays d =>
    simp only [step, Option.some.injEq] at hs; subst hs; exact inv_setDays hi d
  | putConf ms en =>
    simp only [step, Option.some.injEq] at hs; subst hs; exact inv_putConf hi ms en
  | clear =>
    simp only [step, Option.some.injEq] at hs; subst hs
    have := inv_clear hi g.enabled
    have hs : ({ s with enabled := g.enabled } : State) = s := by rw [← hi.en]
    rw [hs] at this
    exact this
  | read =>
    simp only [step, Option.some.injEq] at hs; subst hs; exact hi

/-- A fresh start (empty file) inside the domain establishes the invariant. -/
theorem inv_init {clock ms : Nat} {en : Bool} {s0 : State} (hs : new [] clock ms en = some s0)
    (hd : (Ghost.init clock ms en).dom = true) : Inv (Ghost.init clock ms en) s0 := by
  have hv : validIvl ms = true := by
    cases h : validIvl ms with
    | true => rfl
    | false => simp [new, h] at hs
  simp only [new, hv, Bool.not_true, Bool.false_eq_true, if_false, Option.some.injEq, deleteOldUnits, DB.get,
    MemUnit.deserialize] at hs
  subst hs
  simp only [Ghost.init, Bool.and_eq_true, decide_eq_true_eq] at hd
  refine { clock := rfl, nowClock := Nat.le_refl _, chi := hd.2, cur := rfl, lim := rfl, ivl := hv, en := rfl,
           lo := hd.1, hi := hd.2,
           evHour := ?_, evKept := ?_, dbUp := ?_, curUp := ?_, curLo := ?_, dbLo := ?_ }
  · intro e he; simp [Ghost.init] at he
  · intro e he; simp [Ghost.init] at he
  · intro k v hkv; simp at hkv
  · intro sel; cases sel <;> simp [newUnit, MemUnit.serialize, Sel.val]
  · intro sel; simp [lowerAt, Ghost.init, cnt]
  · intro h _ sel; simp [lowerAt, Ghost.init, cnt]

theorem dom_run {g : Ghost} {ops : List Op} (h : (ghostRun g ops).dom = true) : g.dom = true := by
  induction ops generalizing g with
  | nil => exact h
  | cons op ops ih =>
    simp only [ghostRun, List.foldl_cons] at h
    exact dom_step (ih h)

/-- The invariant holds after every history that stays inside the domain. -/
theorem inv_run {g : Ghost} {s s' : State} (ops : List Op) (hi : Inv g s) (hs : runOps s ops = some s')
    (hd : (ghostRun g ops).dom = true) : Inv (ghostRun g ops) s' := by
  induction ops generalizing g s with
  | nil => simp only [runOps, Option.some.injEq] at hs; subst hs; exact hi
  | cons op ops ih =>
    simp only [runOps] at hs
    cases h1 : step s op with
    | none => simp [h1] at hs
    | some s1 =>
      simp only [h1] at hs
      simp only [ghostRun, List.foldl_cons] at hd ⊢
      exact ih (inv_step hi op h1 (dom_run hd)) hs hd

end AGH.C09
