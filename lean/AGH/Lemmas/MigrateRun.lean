/-
C13: from the per-step facts to `upgradeConfigSchema`, re-encoding and `Migrate`.
-/
import AGH.Lemmas.MigrateSteps
namespace AGH.C13
open AGH

theorem step_ok (o : Oracles) (n : Nat) (h1 : 1 ≤ n) (h29 : n ≤ 29) (es) :
    StepOK n (.obj es) (step o n (.obj es)) := by
  have : n = 1 ∨ n = 2 ∨ n = 3 ∨ n = 4 ∨ n = 5 ∨ n = 6 ∨ n = 7 ∨ n = 8 ∨ n = 9 ∨ n = 10 ∨ n = 11 ∨
      n = 12 ∨ n = 13 ∨ n = 14 ∨ n = 15 ∨ n = 16 ∨ n = 17 ∨ n = 18 ∨ n = 19 ∨ n = 20 ∨ n = 21 ∨
      n = 22 ∨ n = 23 ∨ n = 24 ∨ n = 25 ∨ n = 26 ∨ n = 27 ∨ n = 28 ∨ n = 29 := by omega
  rcases this with h | h | h | h | h | h | h | h | h | h | h | h | h | h | h | h | h | h | h | h | h | h | h |
    h | h | h | h | h | h <;> subst h <;> simp only [step]
  · exact step1_ok es
  · exact step2_ok es
  · exact step3_ok es
  · exact step4_ok es
  · exact step5_ok es
  · exact step6_ok es
  · exact step7_ok es
  · exact step8_ok es
  · exact step9_ok es
  · exact step10_ok o es
  · exact step11_ok es
  · exact step12_ok es
  · exact step13_ok es
  · exact step14_ok es
  · exact step15_ok es
  · exact step16_ok es
  · exact step17_ok es
  · exact step18_ok es
  · exact step19_ok es
  · exact step20_ok es
  · exact step21_ok es
  · exact step22_ok es
  · exact step23_ok o es
  · exact step24_ok es
  · exact step25_ok es
  · exact step26_ok es
  · exact step27_ok es
  · exact step28_ok es
  · exact step29_ok o es

theorem topKeys_append (a b : List Path) : topKeys (a ++ b) = topKeys a ++ topKeys b := by
  induction a with
  | nil => rfl
  | cons p a ih =>
    cases p with
    | nil => simp [topKeys, ih]
    | cons c p => cases c <;> simp [topKeys, ih]

/-- What `upgradeConfigSchema` guarantees. -/
def UpgradeOK (cnt cur : Nat) (d : YVal) (r : Except (Fault × Nat) YVal) : Prop :=
  match r with
  | .ok d' => IsObj d' ∧ (0 < cnt → getK d' kSchemaVersion = some (.int ((cur + cnt : Nat) : Int))) ∧
      ∀ k, k ∉ topKeys (touchedRange cnt cur) → getK d' k = getK d k
  | .error (.panic _, _) => False
  | .error (_, s) => cur < s ∧ s ≤ cur + cnt

theorem upgrade_ok (o : Oracles) (cnt : Nat) : ∀ (cur : Nat), cur + cnt ≤ 29 → ∀ es,
    UpgradeOK cnt cur (.obj es) (upgrade o cnt cur (.obj es)) := by
  induction cnt with
  | zero => intro cur _ es; simp [upgrade, UpgradeOK, IsObj]
  | succ cnt ih =>
    intro cur hle es
    unfold upgrade
    have hs := step_ok o (cur + 1) (by omega) (by omega) es
    cases hstep : step o (cur + 1) (.obj es) with
    | error f =>
      rw [hstep] at hs
      cases f with
      | panic p => exact hs.elim
      | err k => simp only [UpgradeOK]; omega
      | oracle => simp only [UpgradeOK]; omega
    | ok d1 =>
      rw [hstep] at hs
      obtain ⟨ho, hv, hf⟩ := hs
      obtain ⟨es1, rfl⟩ := ho.elim
      have ih' := ih (cur + 1) (by omega) es1
      dsimp only
      cases hup : upgrade o cnt (cur + 1) (.obj es1) with
      | error fs =>
        rw [hup] at ih'
        obtain ⟨f, s⟩ := fs
        cases f with
        | panic p => exact ih'.elim
        | err k => simp only [UpgradeOK] at ih' ⊢; omega
        | oracle => simp only [UpgradeOK] at ih' ⊢; omega
      | ok d2 =>
        rw [hup] at ih'
        obtain ⟨ho2, hv2, hf2⟩ := ih'
        refine ⟨ho2, fun _ => ?_, fun k hk => ?_⟩
        · by_cases hc : 0 < cnt
          · have := hv2 hc
            rw [this]; congr 2; omega
          · have hc0 : cnt = 0 := by omega
            subst hc0
            simp only [upgrade] at hup
            cases hup
            simpa using hv
        · simp only [touchedRange, topKeys_append, List.mem_append, not_or] at hk
          rw [hf2 k hk.2, hf k hk.1]

/-! ### re-encoding -/

theorem reparseEntries_lookup (o : Oracles) (k : Key) : ∀ (es es' : List (Key × YVal)),
    reparseEntries o es = some es' → lookup k es' = (lookup k es).bind (reparse o) := by
  intro es
  induction es with
  | nil => intro es' h; simp [reparseEntries] at h; subst h; simp [lookup]
  | cons e es ih =>
    intro es' h
    obtain ⟨k', v⟩ := e
    unfold reparseEntries at h
    cases hv : reparse o v with
    | none => simp [hv] at h
    | some w =>
      cases hr : reparseEntries o es with
      | none => simp [hv, hr] at h
      | some ws =>
        simp [hv, hr] at h
        subst h
        by_cases hk : k' = k
        · simp [lookup, hk, hv]
        · simp [lookup, hk, ih ws hr]

theorem reparse_obj (o : Oracles) (es : List (Key × YVal)) (d : YVal) (h : reparse o (.obj es) = some d) :
    ∃ es', d = .obj es' ∧ reparseEntries o es = some es' := by
  unfold reparse at h
  cases hr : reparseEntries o es with
  | none => simp [hr] at h
  | some es' => simp [hr] at h; exact ⟨es', h.symm, rfl⟩

theorem reparse_int (o : Oracles) (i : Int) : reparse o (.int i) = some (.int i) := by
  unfold reparse; rfl

/-! ### the wrapper -/

/-- What `yaml.Unmarshal(body, &yobj{})` can leave in `diskConf`. -/
def DocLike : Option YVal → Prop
  | none => True
  | some .null => True
  | some (.obj _) => True
  | _ => False

/-- `Migrate` reads the version exactly as the spec's `versionOf` does. -/
theorem lookupE_eq_lookup (k : Key) (es : List (Key × YVal)) : lookupE k es = lookup k es := by
  induction es with
  | nil => rfl
  | cons e es ih => obtain ⟨k', v⟩ := e; simp [lookupE, lookup, ih]

/-- Normal form of `migrateMem` on a map document, by the version it declares. -/
theorem migrateMem_obj (o : Oracles) (es : List (Key × YVal)) (target : Nat) :
    ((∃ k, migrateMem o (some (.obj es)) target = .err k 0) ∧
      (versionOf (.obj es) = none ∨ ∃ cur, versionOf (.obj es) = some cur ∧ (cur > target ∨ target > 29))) ∨
    (migrateMem o (some (.obj es)) target = .same ∧ versionOf (.obj es) = some target ∧ target ≤ 29) ∨
    (∃ cur, versionOf (.obj es) = some cur ∧ cur < target ∧ target ≤ 29 ∧
      migrateMem o (some (.obj es)) target = upgradeOutcome (upgrade o (target - cur) cur (.obj es))) := by
  simp only [migrateMem, versionOf, lookupE_eq_lookup, stampKey]
  generalize hfv : fieldVal .int (.obj es) kSchemaVersion = r
  have hfv' := hfv
  unfold fieldVal at hfv'
  simp only [getK] at hfv'
  have zero_case : r = ⟨.int 0, false, false⟩ ∨ r = ⟨.int 0, true, false⟩ →
      ((∃ k, (if r.err = true then Outcome.err ErrK.type 0
          else if intOf r.v < 0 then Outcome.err ErrK.verCur 0
          else if (intOf r.v).toNat > target then Outcome.err ErrK.verCur 0
          else if target > lastSchemaVersion then Outcome.err ErrK.verTarget 0
          else if (intOf r.v).toNat = target then Outcome.same
          else upgradeOutcome (upgrade o (target - (intOf r.v).toNat) (intOf r.v).toNat (.obj es))) = .err k 0) ∧
        (False ∨ ∃ cur, some 0 = some cur ∧ (cur > target ∨ target > 29))) ∨
      ((if r.err = true then Outcome.err ErrK.type 0
          else if intOf r.v < 0 then Outcome.err ErrK.verCur 0
          else if (intOf r.v).toNat > target then Outcome.err ErrK.verCur 0
          else if target > lastSchemaVersion then Outcome.err ErrK.verTarget 0
          else if (intOf r.v).toNat = target then Outcome.same
          else upgradeOutcome (upgrade o (target - (intOf r.v).toNat) (intOf r.v).toNat (.obj es))) = .same ∧
        some 0 = some target ∧ target ≤ 29) ∨
      (∃ cur, some 0 = some cur ∧ cur < target ∧ target ≤ 29 ∧
        (if r.err = true then Outcome.err ErrK.type 0
          else if intOf r.v < 0 then Outcome.err ErrK.verCur 0
          else if (intOf r.v).toNat > target then Outcome.err ErrK.verCur 0
          else if target > lastSchemaVersion then Outcome.err ErrK.verTarget 0
          else if (intOf r.v).toNat = target then Outcome.same
          else upgradeOutcome (upgrade o (target - (intOf r.v).toNat) (intOf r.v).toNat (.obj es))) =
          upgradeOutcome (upgrade o (target - cur) cur (.obj es))) := by
    intro hr
    have hv : intOf r.v = 0 ∧ r.err = false := by rcases hr with h | h <;> subst h <;> simp [intOf]
    simp only [hv.1, hv.2, Bool.false_eq_true, if_false, Int.lt_irrefl, Int.toNat_zero]
    by_cases h29 : target > lastSchemaVersion
    · left
      refine ⟨⟨.verTarget, by simp [h29]⟩, Or.inr ⟨0, rfl, Or.inr (by simpa [lastSchemaVersion] using h29)⟩⟩
    · by_cases h0 : 0 = target
      · right; left; subst h0; simp [lastSchemaVersion]
      · right; right
        refine ⟨0, rfl, by omega, by simp [lastSchemaVersion] at h29; omega, ?_⟩
        simp [h29, h0]
  cases hl : lookup kSchemaVersion es with
  | none =>
    simp only [hl] at hfv'
    simpa using zero_case (Or.inl (by rw [← hfv']; rfl))
  | some v =>
    simp only [hl] at hfv'
    cases v with
    | null =>
      simp at hfv'
      simpa using zero_case (Or.inr (by rw [← hfv']; rfl))
    | int i =>
      simp [hasTy] at hfv'; subst hfv'
      simp only [intOf, Bool.false_eq_true, if_false]
      by_cases hneg : i < 0
      · left; exact ⟨⟨.verCur, by simp [hneg]⟩, Or.inl (by simp [hneg])⟩
      · simp only [hneg, if_false]
        by_cases hgt : i.toNat > target
        · left; exact ⟨⟨.verCur, by simp [hgt]⟩, Or.inr ⟨i.toNat, rfl, Or.inl hgt⟩⟩
        · by_cases h29 : target > lastSchemaVersion
          · left
            exact ⟨⟨.verTarget, by simp [hgt, h29]⟩,
              Or.inr ⟨i.toNat, rfl, Or.inr (by simpa [lastSchemaVersion] using h29)⟩⟩
          · by_cases heq : i.toNat = target
            · right; left
              simp [heq, lastSchemaVersion] at *
              omega
            · right; right
              refine ⟨i.toNat, rfl, by omega, by simp [lastSchemaVersion] at h29; omega, ?_⟩
              simp [hgt, h29, heq]
    | bool b => simp [hasTy] at hfv'; subst hfv'; left; exact ⟨⟨.type, by simp⟩, Or.inl rfl⟩
    | str b => simp [hasTy] at hfv'; subst hfv'; left; exact ⟨⟨.type, by simp⟩, Or.inl rfl⟩
    | «opaque» a b => simp [hasTy] at hfv'; subst hfv'; left; exact ⟨⟨.type, by simp⟩, Or.inl rfl⟩
    | arr b => simp [hasTy] at hfv'; subst hfv'; left; exact ⟨⟨.type, by simp⟩, Or.inl rfl⟩
    | obj b => simp [hasTy] at hfv'; subst hfv'; left; exact ⟨⟨.type, by simp⟩, Or.inl rfl⟩
    | dur b => simp [hasTy] at hfv'; subst hfv'; left; exact ⟨⟨.type, by simp⟩, Or.inl rfl⟩
    | strs b => simp [hasTy] at hfv'; subst hfv'; left; exact ⟨⟨.type, by simp⟩, Or.inl rfl⟩
    | umode b => simp [hasTy] at hfv'; subst hfv'; left; exact ⟨⟨.type, by simp⟩, Or.inl rfl⟩

end AGH.C13
