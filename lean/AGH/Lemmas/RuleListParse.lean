/-
C15 helper lemmas about the parser loop: what a successful parse writes, and
the re-parse of its output.  Facts about `bytes.TrimSpace` enter only through
the structure `TrimFacts`.
-/
import AGH.Spec.RuleList
import AGH.Lemmas.RuleListRefresh
namespace AGH.C15
open AGH AGH.Bytes

/-- What the parser needs to know about `bytes.TrimSpace`. -/
structure TrimFacts : Prop where
  /-- the result is what remains after deleting bytes (it is in fact an infix) -/
  sub : ∀ x : Bytes, (trimSpace x).Sublist x
  /-- trimming a trimmed line changes nothing -/
  idem : ∀ x : Bytes, trimSpace (trimSpace x) = trimSpace x
  /-- a trimmed line does not end with a carriage return -/
  noCR : ∀ x : Bytes, (trimSpace x).getLast? ≠ some 13

/-- A kept line: content (not blank, not a comment) without binary bytes. -/
def kept (t : Bytes) : Bool := isContent t

theorem binIdx_none_iff : ∀ (t : Bytes) (i : Nat), binIdx t i = none ↔ t.any likelyBinary = false := by
  intro t
  induction t with
  | nil => intro i; simp [binIdx]
  | cons c s ih =>
    intro i
    unfold binIdx
    by_cases h : likelyBinary c = true
    · simp [h]
    · simp only [Bool.not_eq_true] at h
      simp only [h, Bool.false_eq_true, if_false, List.any_cons, Bool.false_or]
      exact ih (i + 1)

theorem parseLineTitle_bang (st : PState) (s : Bytes) :
    ∃ st', parseLineTitle st (33 :: s) = (st', none, false) ∧ st'.count = st.count ∧
      st'.written = st.written ∧ st'.crc = st.crc := by
  unfold parseLineTitle
  simp only [show (33 : Nat) ≠ 35 by decide, if_false, ne_eq, not_true_eq_false]
  by_cases h1 : (!titleP.isPrefixOf (33 :: s)) = true
  · rw [if_pos h1]; exact ⟨st, rfl, rfl, rfl, rfl⟩
  · rw [if_neg h1]
    by_cases h2 : trimSpaceIsNil (List.drop titleP.length (33 :: s)) = true
    · rw [if_pos h2]; exact ⟨st, rfl, rfl, rfl, rfl⟩
    · rw [if_neg h2]; exact ⟨_, rfl, rfl, rfl, rfl⟩

/-- `processLine` on a line whose trimmed form is not content: nothing is
written, the counters stay. -/
theorem processLine_skip (st : PState) (line : Bytes) (n : Nat) (hc : isContent (trimSpace line) = false)
    (hh : ¬ (st.written = 0 ∧ isHTMLLine (trimSpace line) = true)) :
    ∃ st', processLine st line n = .ok (st', []) ∧ st'.count = st.count ∧ st'.written = st.written ∧
      st'.crc = st.crc := by
  unfold processLine
  simp only [hh, if_false]
  generalize trimSpace line = t at hc ⊢
  cases t with
  | nil =>
    by_cases htf : st.titleFound = true
    · simp [htf, parseLine]
    · simp [htf, parseLineTitle]
  | cons c s =>
    simp only [isContent, Bool.and_eq_false_iff, bne_eq_false_iff_eq] at hc
    by_cases htf : st.titleFound = true
    · simp only [htf, if_true, parseLine]
      rw [if_pos (by rcases hc with h | h <;> simp [h])]
      simp
    · simp only [htf, Bool.false_eq_true, if_false, parseLineTitle]
      by_cases h35 : c = 35
      · simp [h35]
      · have h33 : c = 33 := by rcases hc with h | h; exact absurd h h35; exact h
        subst h33
        obtain ⟨st', hp, h1, h2, h3⟩ := parseLineTitle_bang st s
        have : parseLineTitle st (33 :: s) = (st', none, false) := hp
        simp only [parseLineTitle] at this
        simp only [this]
        exact ⟨st', by simp, h1, h2, h3⟩

/-- The state after writing the trimmed line `t`. -/
def bump (st : PState) (t : Bytes) : PState :=
  { st with count := st.count + 1, crc := crcUpdate st.crc t, written := st.written + (t.length + 1) }

/-- `processLine` on a content line: it fails exactly on HTML-at-the-top and
binary bytes, otherwise writes the trimmed line and counts it. -/
theorem processLine_keep (st : PState) (line : Bytes) (n : Nat) (hc : isContent (trimSpace line) = true)
    (hh : ¬ (st.written = 0 ∧ isHTMLLine (trimSpace line) = true))
    (hb : (trimSpace line).any likelyBinary = false) :
    processLine st line n = .ok (bump st (trimSpace line), trimSpace line ++ [nl]) := by
  unfold processLine bump
  simp only [hh, if_false]
  have hbi := (binIdx_none_iff (trimSpace line) 0).mpr hb
  generalize trimSpace line = t at hc hbi ⊢
  cases t with
  | nil => simp [isContent] at hc
  | cons c s =>
    simp only [isContent, Bool.and_eq_true, bne_iff_ne, ne_eq] at hc
    by_cases htf : st.titleFound = true
    · simp only [htf, if_true, parseLine]
      rw [if_neg (by simp [hc.1, hc.2]), hbi]
      simp
    · simp only [Bool.not_eq_true] at htf
      simp only [htf, Bool.false_eq_true, if_false, parseLineTitle]
      rw [if_neg hc.1]
      simp only [ne_eq, hc.2, not_false_eq_true, if_true, hbi]
      simp [htf]

theorem processLine_ok_inv {st st' : PState} {line w : Bytes} {n : Nat}
    (h : processLine st line n = .ok (st', w)) :
    ¬ (st.written = 0 ∧ isHTMLLine (trimSpace line) = true) ∧
    (isContent (trimSpace line) = true → (trimSpace line).any likelyBinary = false) := by
  have hh : ¬ (st.written = 0 ∧ isHTMLLine (trimSpace line) = true) := by
    intro hh
    unfold processLine at h
    simp only [hh, and_self, if_true] at h
    cases h
  refine ⟨hh, ?_⟩
  intro hc
  cases hb : (trimSpace line).any likelyBinary with
  | false => rfl
  | true =>
    exfalso
    have hbi : binIdx (trimSpace line) 0 ≠ none := by
      intro h0; rw [(binIdx_none_iff _ 0).mp h0] at hb; cases hb
    unfold processLine at h
    simp only [hh, if_false] at h
    generalize trimSpace line = t at hc hbi h
    cases t with
    | nil => simp [isContent] at hc
    | cons c s =>
      simp only [isContent, Bool.and_eq_true, bne_iff_ne, ne_eq] at hc
      cases hx : binIdx (c :: s) 0 with
      | none => exact hbi hx
      | some i =>
        by_cases htf : st.titleFound = true
        · simp only [htf, if_true, parseLine] at h
          rw [if_neg (by simp [hc.1, hc.2]), hx] at h
          simp at h
        · simp only [htf, Bool.false_eq_true, if_false, parseLineTitle] at h
          rw [if_neg hc.1] at h
          simp only [ne_eq, hc.2, not_false_eq_true, if_true, hx] at h
          simp at h

/-- The kept lines of a list of scanned lines. -/
def keptLines (ls : List Bytes) : List Bytes := (ls.map trimSpace).filter isContent

/-- **What a successful run writes.** -/
theorem runLines_ok : ∀ (ls : List Bytes) (st : PState) (out : Bytes) (n : Nat) (r : ParseOut),
    runLines st out ls n .eof = r → r.err = none →
    r.out = out ++ joinLines (keptLines ls) ∧
    r.st.count = st.count + (keptLines ls).length ∧
    r.st.crc = crcLines st.crc (keptLines ls) ∧
    r.st.written = st.written + (joinLines (keptLines ls)).length ∧
    (∀ k ∈ keptLines ls, k.any likelyBinary = false) ∧
    (st.written = 0 → ∀ k rest, keptLines ls = k :: rest → isHTMLLine k = false) := by
  intro ls
  induction ls with
  | nil =>
    intro st out n r h _
    simp only [runLines] at h
    subst h
    simp [keptLines, joinLines, crcLines]
  | cons l ls ih =>
    intro st out n r h he
    unfold runLines at h
    cases hp : processLine st l n with
    | error er => rw [hp] at h; subst h; simp at he
    | ok p =>
      obtain ⟨st', w⟩ := p
      rw [hp] at h
      simp only at h
      obtain ⟨hh, hbin⟩ := processLine_ok_inv hp
      have ih' := ih st' (out ++ w) (n + 1) r h he
      by_cases hc : isContent (trimSpace l) = true
      · have hb := hbin hc
        rw [processLine_keep st l n hc hh hb] at hp
        simp only [Except.ok.injEq, Prod.mk.injEq] at hp
        obtain ⟨rfl, rfl⟩ := hp
        have hk : keptLines (l :: ls) = trimSpace l :: keptLines ls := by
          simp [keptLines, hc]
        obtain ⟨h1, h2, h3, h4, h5, _⟩ := ih'
        simp only [bump] at h2 h3 h4
        rw [hk]
        refine ⟨?_, ?_, ?_, ?_, ?_, ?_⟩
        · rw [h1]; simp [joinLines]
        · rw [h2]; simp; omega
        · rw [h3]; simp [crcLines]
        · rw [h4]; simp [joinLines]; omega
        · intro k hk'
          simp only [List.mem_cons] at hk'
          rcases hk' with rfl | hk'
          · exact hb
          · exact h5 k hk'
        · intro hw k rest hkr
          simp only [List.cons.injEq] at hkr
          rw [← hkr.1]
          cases hx : isHTMLLine (trimSpace l) with
          | false => rfl
          | true => exact absurd ⟨hw, hx⟩ hh
      · simp only [Bool.not_eq_true] at hc
        obtain ⟨st'', hp', hc1, hc2, hc3⟩ := processLine_skip st l n hc hh
        rw [hp'] at hp
        simp only [Except.ok.injEq, Prod.mk.injEq] at hp
        obtain ⟨rfl, rfl⟩ := hp
        have hk : keptLines (l :: ls) = keptLines ls := by
          simp [keptLines, hc]
        obtain ⟨h1, h2, h3, h4, h5, h6⟩ := ih'
        rw [hk]
        refine ⟨by simpa using h1, by rw [h2, hc1], by rw [h3, hc3], by rw [h4, hc2], h5, ?_⟩
        intro hw
        exact h6 (by rw [hc2]; exact hw)

/-- **Re-running the loop on kept lines** that are fixed by `trimSpace`,
content, free of binary bytes, and whose first is not HTML (when nothing was
written yet): every line is written again, unchanged. -/
theorem runLines_kept : ∀ (ks : List Bytes) (st : PState) (out : Bytes) (n : Nat),
    (∀ k ∈ ks, trimSpace k = k ∧ isContent k = true ∧ k.any likelyBinary = false) →
    (st.written = 0 → ∀ k rest, ks = k :: rest → isHTMLLine k = false) →
    (runLines st out ks n .eof).err = none ∧
    (runLines st out ks n .eof).out = out ++ joinLines ks ∧
    (runLines st out ks n .eof).st.count = st.count + ks.length ∧
    (runLines st out ks n .eof).st.crc = crcLines st.crc ks := by
  intro ks
  induction ks with
  | nil => intro st out n _ _; simp [runLines, joinLines, crcLines]
  | cons k ks ih =>
    intro st out n hall hhtml
    obtain ⟨ht, hc, hb⟩ := hall k (by simp)
    have hh : ¬ (st.written = 0 ∧ isHTMLLine (trimSpace k) = true) := by
      rintro ⟨hw, hx⟩
      rw [ht, hhtml hw k ks rfl] at hx
      cases hx
    unfold runLines
    rw [processLine_keep st k n (by rw [ht]; exact hc) hh (by rw [ht]; exact hb)]
    simp only [ht]
    have := ih (bump st k) (out ++ (k ++ [nl])) (n + 1) (fun k' hk' => hall k' (by simp [hk']))
      (by intro hw; simp [bump] at hw)
    obtain ⟨h1, h2, h3, h4⟩ := this
    refine ⟨h1, ?_, ?_, ?_⟩
    · rw [h2]; simp [joinLines]
    · rw [h3]; simp [bump]; omega
    · rw [h4]; simp [bump, crcLines]

/-! ### The scanner -/

theorem splitNL_join (k rest : Bytes) (h : nl ∉ k) : splitNL (k ++ nl :: rest) = (k, rest, true) := by
  induction k with
  | nil => simp [splitNL]
  | cons c s ih =>
    simp only [List.mem_cons, not_or] at h
    simp only [List.cons_append, splitNL]
    rw [if_neg (fun hh => h.1 hh.symm), ih h.2]

theorem splitNL_seg_no_nl : ∀ (s : Bytes), nl ∉ (splitNL s).1 := by
  intro s
  induction s with
  | nil => simp [splitNL]
  | cons c s ih =>
    unfold splitNL
    by_cases h : c = nl
    · simp [h]
    · simp only [h, if_false, List.mem_cons, not_or]
      exact ⟨fun hh => h hh.symm, ih⟩

theorem splitNL_len : ∀ (s : Bytes), (splitNL s).2.1.length ≤ s.length := by
  intro s
  induction s with
  | nil => simp [splitNL]
  | cons c s ih =>
    unfold splitNL
    by_cases h : c = nl
    · simp [h]
    · simp only [h, if_false, List.length_cons]; omega

theorem dropCR_sub (l : Bytes) : (dropCR l).Sublist l := by
  unfold dropCR
  split
  · exact List.dropLast_sublist l
  · exact List.Sublist.refl l

/-- Scanned lines contain no newline and are shorter than the token limit
when scanning ended at EOF. -/
theorem scanLines_tokens : ∀ (f : Nat) (data : Bytes) (c : Bool), (scanLines f data c).2 = .eof →
    ∀ l ∈ (scanLines f data c).1, nl ∉ l ∧ l.length < maxToken := by
  intro f
  induction f with
  | zero => intro data c h; simp [scanLines] at h
  | succ f ih =>
    intro data c h
    unfold scanLines at h ⊢
    cases data with
    | nil => simp
    | cons a s =>
      simp only at h ⊢
      have hseg : ∀ l, l = dropCR (splitNL (a :: s)).1 → (splitNL (a :: s)).1.length < maxToken →
          nl ∉ l ∧ l.length < maxToken := by
        intro l hl hlen
        have hs := dropCR_sub (splitNL (a :: s)).1
        rw [← hl] at hs
        exact ⟨fun hm => splitNL_seg_no_nl _ (hs.subset hm), Nat.lt_of_le_of_lt hs.length_le hlen⟩
      by_cases h1 : (splitNL (a :: s)).1.length ≥ maxToken
      · rw [if_pos h1] at h; simp at h
      · rw [if_neg h1] at h ⊢
        by_cases h2 : (splitNL (a :: s)).2.2 = true
        · rw [if_pos h2] at h ⊢
          intro l hl
          simp only [List.mem_cons] at hl
          rcases hl with rfl | hl
          · exact hseg _ rfl (by omega)
          · exact ih _ _ h l hl
        · rw [if_neg h2] at h ⊢
          intro l hl
          simp only [List.mem_singleton] at hl
          exact hseg _ hl (by omega)

theorem joinLines_length_cons (k : Bytes) (ks : List Bytes) :
    (joinLines (k :: ks)).length = k.length + 1 + (joinLines ks).length := by
  simp [joinLines]; omega

/-- Scanning the normal form gives back exactly its lines. -/
theorem scanLines_join : ∀ (ks : List Bytes) (f : Nat),
    (∀ k ∈ ks, nl ∉ k ∧ k.length < maxToken ∧ dropCR k = k) → (joinLines ks).length + 1 ≤ f →
    scanLines f (joinLines ks) true = (ks, .eof) := by
  intro ks
  induction ks with
  | nil =>
    intro f _ hf
    obtain ⟨f, rfl⟩ : ∃ f', f = f' + 1 := ⟨f - 1, by omega⟩
    simp [joinLines, scanLines]
  | cons k ks ih =>
    intro f hall hf
    obtain ⟨f, rfl⟩ : ∃ f', f = f' + 1 := ⟨f - 1, by omega⟩
    obtain ⟨h1, h2, h3⟩ := hall k (by simp)
    rw [joinLines_length_cons] at hf
    have hne : joinLines (k :: ks) = k ++ nl :: joinLines ks := rfl
    rw [hne]
    unfold scanLines
    cases hd : k ++ nl :: joinLines ks with
    | nil => simp at hd
    | cons a s =>
      simp only
      rw [← hd, splitNL_join k _ h1]
      simp only
      rw [if_neg (by omega)]
      simp only [if_true, h3]
      rw [ih f (fun k' hk' => hall k' (by simp [hk'])) (by omega)]

end AGH.C15

namespace AGH.C15
open AGH AGH.Bytes

theorem parse_def (src : Bytes) (c : Bool) :
    parse src c = runLines PState.init [] (scanLines (src.length + 1) src c).1 1 (scanLines (src.length + 1) src c).2 := rfl

theorem parse_ok_eof {src : Bytes} {c : Bool} (h : (parse src c).err = none) :
    (scanLines (src.length + 1) src c).2 = .eof := by
  cases hs : (scanLines (src.length + 1) src c).2 with
  | eof => rfl
  | tooLong => exact absurd h (by rw [parse_def, hs]; exact runLines_readErr _ _ _ _ _ (by simp))
  | readErr => exact absurd h (by rw [parse_def, hs]; exact runLines_readErr _ _ _ _ _ (by simp))

theorem reload_flt (b : Bool) (x : LState) :
    (if b = true then { x with inForce := if x.flt.enabled then x.flt.file else none } else x).flt = x.flt := by
  cases b <;> rfl

theorem reload_inForce (b : Bool) (x : LState) :
    (if b = true then { x with inForce := if x.flt.enabled then x.flt.file else none } else x).inForce =
      if b = true then (if x.flt.enabled then x.flt.file else none) else x.inForce := by
  cases b <;> rfl

end AGH.C15
