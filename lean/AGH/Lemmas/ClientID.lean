import AGH.Spec.ClientID
deriving instance DecidableEq for Except

namespace AGH.C16
open AGH AGH.Bytes

/-- What `isSubdomain` gives structurally. -/
theorem isSubdomain_split (d t : Bytes) (h : isSubdomain d t = true) :
    d = d.take (d.length - t.length - 1) ++ dot :: t ∧ d.take (d.length - t.length - 1) ≠ [] := by
  unfold isSubdomain hasSuffix at h
  simp only [Bool.and_eq_true, decide_eq_true_eq, List.isSuffixOf_iff_suffix, beq_iff_eq] at h
  obtain ⟨⟨hlen, hsuf⟩, hdot⟩ := h
  have hdrop : t = d.drop (d.length - t.length) := List.suffix_iff_eq_drop.mp hsuf
  have hn : d.length - t.length - 1 < d.length := by omega
  constructor
  · have h1 : d = d.take (d.length - t.length - 1) ++ d.drop (d.length - t.length - 1) :=
      (List.take_append_drop _ _).symm
    have h2 : d.drop (d.length - t.length - 1) = d[d.length - t.length - 1] :: d.drop (d.length - t.length - 1 + 1) :=
      List.drop_eq_getElem_cons hn
    have h3 : d[d.length - t.length - 1] = dot := by
      rw [List.getElem?_eq_getElem hn] at hdot
      exact Option.some.inj hdot
    have h4 : d.length - t.length - 1 + 1 = d.length - t.length := by omega
    rw [h3, h4, ← hdrop] at h2
    rw [h2] at h1
    exact h1
  · intro hnil
    have : (d.take (d.length - t.length - 1)).length = 0 := by rw [hnil]; rfl
    rw [List.length_take] at this
    omega

theorem lower_ne_nil {l : Bytes} (h : l ≠ []) : lower l ≠ [] := by
  cases l with
  | nil => exact absurd rfl h
  | cons a as => simp [lower]

theorem validLabel_ne_nil {l : Bytes} (h : validLabel l = true) : l ≠ [] := by
  cases l with
  | nil => simp [validLabel] at h
  | cons a as => simp

end AGH.C16

namespace AGH.C16
open AGH AGH.Bytes

theorem isOuter_lowerB (b : Nat) : isOuter (lowerB b) = isOuter b := by
  unfold isOuter isAlnumB lowerB isLowerB isUpperB isDigitB
  rw [Bool.eq_iff_iff]
  split <;> rename_i h <;> simp at h ⊢ <;> omega

theorem isInner_lowerB (b : Nat) : isInner (lowerB b) = isInner b := by
  unfold isInner
  rw [isOuter_lowerB]
  congr 1
  unfold lowerB isUpperB dash
  rw [Bool.eq_iff_iff]
  split <;> rename_i h <;> simp at h ⊢ <;> omega

theorem validLabel_lower (l : Bytes) : validLabel (lower l) = validLabel l := by
  cases l with
  | nil => rfl
  | cons a rest =>
    cases rest with
    | nil => simp [lower, validLabel, isOuter_lowerB]
    | cons b rest2 =>
      simp only [lower, List.map_cons, validLabel, List.length_cons, List.length_map]
      rw [isOuter_lowerB]
      have h1 : (lowerB b :: List.map lowerB rest2).dropLast = List.map lowerB (b :: rest2).dropLast := by
        rw [← List.map_cons, List.map_dropLast]
      have h2 : (lowerB b :: List.map lowerB rest2).getLast? = ((b :: rest2).getLast?).map lowerB := by
        rw [← List.map_cons, List.getLast?_map]
      rw [h1, h2, List.all_map]
      have h3 : (isInner ∘ lowerB) = isInner := by funext x; simp [isInner_lowerB]
      rw [h3]
      cases hg : (b :: rest2).getLast? with
      | none => simp
      | some z => simp [isOuter_lowerB]

end AGH.C16

namespace AGH.Bytes

/-- Splitting `a ++ sep :: b` when `a` has no separator. -/
theorem splitOn_append_sep (sep : Nat) (a b : Bytes) (h : sep ∉ a) :
    splitOn sep (a ++ sep :: b) = a :: splitOn sep b := by
  induction a with
  | nil => simp [splitOn]
  | cons x xs ih =>
    have hx : x ≠ sep := fun e => h (by simp [e])
    have hxs : sep ∉ xs := fun m => h (by simp [m])
    simp only [List.cons_append, splitOn, hx, if_false, ih hxs]

theorem splitOn_no_sep_self (sep : Nat) (a : Bytes) (h : sep ∉ a) : splitOn sep a = [a] := by
  induction a with
  | nil => simp [splitOn]
  | cons x xs ih =>
    have hx : x ≠ sep := fun e => h (by simp [e])
    have hxs : sep ∉ xs := fun m => h (by simp [m])
    simp only [splitOn, hx, if_false, ih hxs]

end AGH.Bytes

namespace AGH.C16
open AGH AGH.Bytes

theorem slash_not_mem_dnsQuery : slash ∉ dnsQuery := by decide

theorem stripDotSuffix_append (l h : Bytes) : stripDotSuffix (l ++ dot :: h) h = some l := by
  unfold stripDotSuffix
  have h1 : (l ++ dot :: h).length - h.length - 1 = l.length := by simp; omega
  rw [h1]
  simp

theorem stripDotSuffix_some {s h l : Bytes} (hs : stripDotSuffix s h = some l) : s = l ++ dot :: h := by
  unfold stripDotSuffix at hs
  split at hs
  · next hc =>
    cases hs
    have := List.take_append_drop (s.length - h.length - 1) s
    rw [hc.2] at this
    exact this.symm
  · cases hs

/-- Converse of `isSubdomain_split` for labels without dots. -/
theorem isImmediateSubdomain_of_split (l h : Bytes) (hl : l ≠ []) (hd : dot ∉ l) :
    isImmediateSubdomain (l ++ dot :: h) h = true := by
  unfold isImmediateSubdomain isSubdomain hasSuffix
  have hlen : 0 < l.length := List.length_pos_iff.mpr hl
  have h1 : (l ++ dot :: h).length - h.length - 1 = l.length := by simp; omega
  simp only [Bool.and_eq_true, decide_eq_true_eq, List.isSuffixOf_iff_suffix, beq_iff_eq, h1]
  refine ⟨⟨⟨by simp; omega, ?_⟩, by simp⟩, ?_⟩
  · exact ⟨l ++ [dot], by simp⟩
  · rw [List.count_append, List.count_cons_self, List.count_eq_zero_of_not_mem hd]; omega

/-- Declarative characterisation of `clientIDFromClientServerName`. -/
theorem sni_char (h c : Bytes) (s : Bool) :
    clientIDFromServerName h c s =
      if h = c then .ok []
      else match stripDotSuffix c h with
        | some l =>
          if l ≠ [] ∧ dot ∉ l then (if validLabel l then .ok (lower l) else .error .badLabel)
          else (if s then .error .sniMismatch else .ok [])
        | none => if s then .error .sniMismatch else .ok [] := by
  unfold clientIDFromServerName
  by_cases hhc : h = c
  · simp [hhc]
  · simp only [hhc, if_false]
    by_cases himm : isImmediateSubdomain c h = true
    · have himm' := himm
      unfold isImmediateSubdomain at himm'
      simp only [Bool.and_eq_true, beq_iff_eq] at himm'
      obtain ⟨hsplit, hne⟩ := isSubdomain_split c h himm'.1
      have hstrip : stripDotSuffix c h = some (c.take (c.length - h.length - 1)) := by
        conv => lhs; rw [hsplit]
        exact stripDotSuffix_append _ _
      have hd : dot ∉ c.take (c.length - h.length - 1) := by
        intro hmem
        have hc := congrArg (List.count dot) hsplit
        rw [List.count_append, List.count_cons_self] at hc
        have : 0 < List.count dot (List.take (c.length - h.length - 1) c) := List.count_pos_iff.mpr hmem
        omega
      simp [himm, hstrip, hne, hd]
    · simp only [Bool.not_eq_true] at himm
      simp only [himm, Bool.not_false, if_true]
      cases hstrip : stripDotSuffix c h with
      | none => cases s <;> simp
      | some l =>
        by_cases hl : l ≠ [] ∧ dot ∉ l
        · exfalso
          have := stripDotSuffix_some hstrip
          rw [this, isImmediateSubdomain_of_split l h hl.1 hl.2] at himm
          cases himm
        · simp only [hl, if_false]
          cases s <;> simp

end AGH.C16

namespace AGH.C16
open AGH AGH.Bytes

theorem splitOn_two_of_mem (sep : Nat) (t : Bytes) (h : sep ∈ t) :
    ∃ a b rest, splitOn sep t = a :: b :: rest := by
  induction t with
  | nil => cases h
  | cons x xs ih =>
    unfold splitOn
    by_cases hx : x = sep
    · simp only [hx, if_true]
      cases hs : splitOn sep xs with
      | nil => exact absurd hs (splitOn_ne_nil _ _)
      | cons p ps => exact ⟨[], p, ps, rfl⟩
    · simp only [hx, if_false]
      have hm : sep ∈ xs := by
        rcases List.mem_cons.mp h with e | m
        · exact absurd e.symm hx
        · exact m
      obtain ⟨a, b, rest, e⟩ := ih hm
      rw [e]
      exact ⟨x :: a, b, rest, rfl⟩

/-- The part of `clientIDFromPath` after the split, as a function of the parts
that follow `dns-query`. -/
def afterDnsQuery (rest : List Bytes) : Except Err Bytes :=
  match rest with
  | [] => .ok []
  | [id] => if validLabel id then .ok (lower id) else .error .badLabel
  | _ => .error .extraParts

theorem afterDnsQuery_split (t : Bytes) :
    afterDnsQuery (splitOn slash t) =
      if slash ∈ t then .error .extraParts
      else if validLabel t then .ok (lower t) else .error .badLabel := by
  by_cases h : slash ∈ t
  · obtain ⟨a, b, rest, e⟩ := splitOn_two_of_mem slash t h
    simp [h, e, afterDnsQuery]
  · simp [h, splitOn_no_sep_self slash t h, afterDnsQuery]

/-- Declarative characterisation of `clientIDFromDNSContextHTTPS`. -/
theorem path_char (p : Bytes) :
    clientIDFromPath p =
      match pathLabel p with
      | some l =>
        if slash ∈ l then .error .extraParts
        else if validLabel l then .ok (lower l) else .error .badLabel
      | none =>
        if pathClean p = slash :: dnsQuery ∨ pathClean p = dnsQuery then .ok [] else .error .badPath := by
  have hjoin := joinWith_splitOn slash (pathClean p)
  unfold clientIDFromPath pathLabel
  simp only
  generalize pathClean p = c at hjoin ⊢
  by_cases h1 : (slash :: dnsQuery ++ [slash]).isPrefixOf c = true
  · simp only [h1, if_true]
    obtain ⟨t, ht⟩ := List.isPrefixOf_iff_prefix.mp h1
    subst ht
    have hsp : splitOn slash (slash :: dnsQuery ++ [slash] ++ t) = [] :: dnsQuery :: splitOn slash t := by
      have e : slash :: dnsQuery ++ [slash] ++ t = [] ++ slash :: (dnsQuery ++ slash :: t) := by simp
      rw [e, splitOn_append_sep slash [] _ (by simp), splitOn_append_sep slash dnsQuery t slash_not_mem_dnsQuery]
    have hdrop : List.drop (slash :: dnsQuery ++ [slash]).length (slash :: dnsQuery ++ [slash] ++ t) = t := by
      simp
    rw [hsp, hdrop, ← afterDnsQuery_split t]
    simp only [ne_eq, not_true_eq_false, if_false]
    cases splitOn slash t with
    | nil => rfl
    | cons a as => cases as <;> rfl
  · simp only [h1, if_false]
    by_cases h2 : (dnsQuery ++ [slash]).isPrefixOf c = true
    · simp only [h2, if_true]
      obtain ⟨t, ht⟩ := List.isPrefixOf_iff_prefix.mp h2
      subst ht
      have hsp : splitOn slash (dnsQuery ++ [slash] ++ t) = dnsQuery :: splitOn slash t := by
        have e : dnsQuery ++ [slash] ++ t = dnsQuery ++ slash :: t := by simp
        rw [e, splitOn_append_sep slash dnsQuery t slash_not_mem_dnsQuery]
      have hdrop : List.drop (dnsQuery ++ [slash]).length (dnsQuery ++ [slash] ++ t) = t := by simp
      rw [hsp]
      simp only [Bool.false_eq_true, ↓reduceIte]
      rw [hdrop, ← afterDnsQuery_split t]
      simp only [ne_eq, not_true_eq_false, if_false]
      cases splitOn slash t with
      | nil => simp [dnsQuery, afterDnsQuery]
      | cons a as => cases as <;> simp [dnsQuery, afterDnsQuery]
    · simp only [h2, if_false]
      -- neither prefix: the only way to succeed is exactly (/)dns-query
      cases hs : splitOn slash c with
      | nil => exact absurd hs (splitOn_ne_nil _ _)
      | cons a rest =>
        rw [hs] at hjoin
        cases a with
        | nil =>
          cases rest with
          | nil =>
            -- c = ""
            simp [joinWith] at hjoin
            subst hjoin
            simp [dnsQuery]
          | cons first rest2 =>
            simp only
            by_cases hf : first = dnsQuery
            · subst hf
              cases rest2 with
              | nil =>
                simp [joinWith] at hjoin
                subst hjoin
                simp
              | cons x xs =>
                exfalso
                apply h1
                rw [List.isPrefixOf_iff_prefix]
                refine ⟨joinWith slash (x :: xs), ?_⟩
                rw [← hjoin]
                simp [joinWith]
            · simp only [ne_eq, hf, not_false_eq_true, if_true]
              have : ¬ (c = slash :: dnsQuery ∨ c = dnsQuery) := by
                rintro (e | e)
                · subst e
                  have := splitOn_append_sep slash [] dnsQuery (by simp)
                  simp only [List.nil_append] at this
                  rw [this, splitOn_no_sep_self slash dnsQuery slash_not_mem_dnsQuery] at hs
                  simp at hs
                  exact hf hs.1.symm
                · subst e
                  rw [splitOn_no_sep_self slash dnsQuery slash_not_mem_dnsQuery] at hs
                  simp [dnsQuery] at hs
              simp [this]
        | cons b bs =>
          simp only
          by_cases hf : (b :: bs) = dnsQuery
          · rw [hf]
            cases rest with
            | nil =>
              simp [joinWith] at hjoin
              rw [hf] at hjoin
              subst hjoin
              simp
            | cons x xs =>
              exfalso
              apply h2
              rw [List.isPrefixOf_iff_prefix]
              refine ⟨joinWith slash (x :: xs), ?_⟩
              rw [← hjoin, hf]
              simp [joinWith]
          · simp only [ne_eq, hf, not_false_eq_true, if_true]
            have : ¬ (c = slash :: dnsQuery ∨ c = dnsQuery) := by
              rintro (e | e)
              · subst e
                have := splitOn_append_sep slash [] dnsQuery (by simp)
                simp only [List.nil_append] at this
                rw [this] at hs
                simp at hs
              · subst e
                rw [splitOn_no_sep_self slash dnsQuery slash_not_mem_dnsQuery] at hs
                simp at hs
                exact hf hs.1.symm
            simp [this]

end AGH.C16

namespace AGH.C16
open AGH AGH.Bytes

def sniResult (host : Bytes) (strict : Bool) (cs : Except Err Bytes) : Except Err Bytes :=
  if host = [] then .ok []
  else match cs with
    | .error e => .error e
    | .ok cli => clientIDFromServerName host cli strict

theorem fromSNI_eq (c : Ctx) : fromSNI c = sniResult c.hostSrvName c.strict (clientServerName c) := by
  unfold fromSNI sniResult
  split <;> rfl

theorem sni_meets (host : Bytes) (strict : Bool) (cs : Except Err Bytes) :
    match sniResult host strict cs with
    | .ok id => if id ≠ [] then sniIdOK host cs id = true else sniNobodyOK host strict cs = true
    | .error _ => sniErrOK host strict cs = true := by
  unfold sniResult
  by_cases hh : host = []
  · simp [hh, sniNobodyOK]
  · cases cs with
    | error e => simp [hh, sniErrOK]
    | ok cli =>
      simp only [hh, if_false, sni_char]
      by_cases hc : host = cli
      · simp [hc, sniNobodyOK]
      · cases hs : stripDotSuffix cli host with
        | none => cases strict <;> simp [hh, hc, hs, Ne.symm hc, sniNobodyOK, sniErrOK]
        | some l =>
          by_cases hl : l ≠ [] ∧ dot ∉ l
          · by_cases hv : validLabel l = true
            · simp [hh, hc, hs, hl, hv, sniIdOK, idOf, lower_ne_nil hl.1]
            · simp [hh, hc, hs, hl, hv, Ne.symm hc, sniErrOK]
          · cases strict <;> simp [hh, hc, hs, hl, Ne.symm hc, sniNobodyOK, sniErrOK]

theorem validLabel_all_inner (l : Bytes) (h : validLabel l = true) : ∀ b ∈ l, isInner b = true := by
  cases l with
  | nil => simp [validLabel] at h
  | cons a rest =>
    cases rest with
    | nil =>
      simp [validLabel] at h
      intro b hb; simp at hb; subst hb; simp [isInner, h]
    | cons x xs =>
      simp only [validLabel, Bool.and_eq_true] at h
      obtain ⟨⟨⟨_, ha⟩, hall⟩, hlast⟩ := h
      intro b hb
      rcases List.mem_cons.mp hb with e | hb'
      · subst e; simp [isInner, ha]
      · -- b ∈ x :: xs = dropLast ++ [last]
        have hne : (x :: xs) ≠ [] := by simp
        have hsplit := List.dropLast_concat_getLast hne
        rw [← hsplit] at hb'
        rcases List.mem_append.mp hb' with m | m
        · exact List.all_eq_true.mp hall b m
        · simp at m
          rw [List.getLast?_eq_getLast hne] at hlast
          simp at hlast
          subst m; simp [isInner, hlast]

theorem not_valid_of_slash (l : Bytes) (h : slash ∈ l) : validLabel l = false := by
  cases hv : validLabel l with
  | false => rfl
  | true =>
    have := validLabel_all_inner l hv slash h
    revert this; decide


end AGH.C16
