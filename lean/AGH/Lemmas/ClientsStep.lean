/-
C04 lemmas, part 4: what `clashes` decides under the invariant, and the effect
of `Storage.Add` / `Update` / `RemoveByName` on the index.  Core Lean only.
-/
import AGH.Lemmas.ClientsInv
namespace AGH.C04
open AGH AGH.Bytes
open AGH.C03 (IP Prefix)

/-- Every identifier of `ks` is unmapped or mapped to `uid` itself. -/
def FreeFor {κ : Type} (m : κ → Option UID) (uid : UID) (ks : List κ) : Prop :=
  ∀ k ∈ ks, ∀ u, m k = some u → u = uid

/-- The new client shares no name and no identifier with a client of another UID. -/
structure NoClash (ci : Index) (c : Client) : Prop where
  name : FreeFor ci.nameToUID c.uid [c.name]
  cids : FreeFor ci.clientIDToUID c.uid c.cids
  ips : FreeFor ci.ipToUID c.uid c.ips
  subs : FreeFor ci.subnetToUID.vals c.uid c.subnets
  macs : FreeFor ci.macToUID c.uid c.macs

theorem MapInv.client_isSome {κ : Type} {ci : Index} {m : FMap κ} {ids : Client → List κ}
    (h : MapInv m ci.clients ids) (hu : UidsDistinct ci.clients) {k : κ} {u : UID} (hk : m k = some u) :
    ∃ c, ci.client u = some c ∧ c ∈ ci.clients ∧ c.uid = u ∧ k ∈ ids c := by
  obtain ⟨c, hc, hcu, hkc⟩ := (h k u).mp hk
  exact ⟨c, (Index.client_eq_some hu).mpr ⟨hc, hcu⟩, hc, hcu, hkc⟩

theorem clashIn_false_iff {κ : Type} (ci : Index) (look : κ → Option UID) (uid : UID)
    (hd : ∀ k u, look k = some u → (ci.client u).isSome = true) (ks : List κ) :
    clashIn ci look uid ks = false ↔ FreeFor look uid ks := by
  induction ks with
  | nil => simp [clashIn, FreeFor]
  | cons k rest ih =>
    unfold clashIn
    cases hk : look k with
    | none =>
      simp only [ih]
      constructor
      · intro h x hx u hxu
        rcases List.mem_cons.mp hx with rfl | hx
        · rw [hk] at hxu; cases hxu
        · exact h x hx u hxu
      · intro h x hx; exact h x (List.mem_cons_of_mem _ hx)
    | some e =>
      simp only
      by_cases he : e = uid
      · subst he
        simp only [bne_self_eq_false, Bool.false_eq_true, if_false, ih]
        constructor
        · intro h x hx u hxu
          rcases List.mem_cons.mp hx with rfl | hx
          · rw [hk] at hxu; exact (Option.some.inj hxu).symm
          · exact h x hx u hxu
        · intro h x hx; exact h x (List.mem_cons_of_mem _ hx)
      · have : (e != uid) = true := by simp [he]
        simp only [this, if_true, hd k e hk]
        constructor
        · intro h; cases h
        · intro h; exact absurd (h k List.mem_cons_self e hk) he

theorem clashCIDs_spec (ci : Index) (uid : UID)
    (hd : ∀ k u, ci.clientIDToUID k = some u → (ci.client u).isSome = true) (ks : List Bytes) :
    (clashCIDs ci uid ks = .ok ↔ FreeFor ci.clientIDToUID uid ks) ∧
    (clashCIDs ci uid ks = .ok ∨ clashCIDs ci uid ks = .err .cidClash) := by
  induction ks with
  | nil => simp [clashCIDs, FreeFor]
  | cons k rest ih =>
    unfold clashCIDs
    cases hk : ci.clientIDToUID k with
    | none =>
      simp only
      refine ⟨?_, ih.2⟩
      rw [ih.1]
      constructor
      · intro h x hx u hxu
        rcases List.mem_cons.mp hx with rfl | hx
        · rw [hk] at hxu; cases hxu
        · exact h x hx u hxu
      · intro h x hx; exact h x (List.mem_cons_of_mem _ hx)
    | some e =>
      simp only
      by_cases he : e = uid
      · subst he
        simp only [bne_self_eq_false, Bool.false_eq_true, if_false]
        refine ⟨?_, ih.2⟩
        rw [ih.1]
        constructor
        · intro h x hx u hxu
          rcases List.mem_cons.mp hx with rfl | hx
          · rw [hk] at hxu; exact (Option.some.inj hxu).symm
          · exact h x hx u hxu
        · intro h x hx; exact h x (List.mem_cons_of_mem _ hx)
      · have hne : (e != uid) = true := by simp [he]
        have hs := hd k e hk
        cases hc : ci.client e with
        | none => rw [hc] at hs; cases hs
        | some c' =>
          simp only [hne, if_true]
          refine ⟨?_, by simp⟩
          constructor
          · intro h; cases h
          · intro h; exact absurd (h k List.mem_cons_self e hk) he

theorem clashMACs_spec (ci : Index) (uid : UID)
    (hd : ∀ k u, ci.macToUID k = some u → (ci.client u).isSome = true) (ks : List MAC) :
    (clashMACs ci uid ks = .ok ↔ ((∀ m ∈ ks, macOK m = true) ∧ FreeFor ci.macToUID uid ks)) ∧
    (clashMACs ci uid ks = .panic → ∃ m ∈ ks, macOK m = false) ∧
    (clashMACs ci uid ks = .ok ∨ clashMACs ci uid ks = .err .macClash ∨ clashMACs ci uid ks = .panic) := by
  induction ks with
  | nil => simp [clashMACs, FreeFor]
  | cons k rest ih =>
    unfold clashMACs
    cases hok : macOK k with
    | false =>
      simp only [Bool.not_false, if_true]
      refine ⟨?_, fun _ => ⟨k, List.mem_cons_self, hok⟩, by simp⟩
      constructor
      · intro h; cases h
      · rintro ⟨h, _⟩
        have := h k List.mem_cons_self
        rw [hok] at this; cases this
    | true =>
      simp only [Bool.not_true, Bool.false_eq_true, if_false]
      have hall : (∀ m ∈ k :: rest, macOK m = true) ↔ ∀ m ∈ rest, macOK m = true := by
        constructor
        · intro h m hm; exact h m (List.mem_cons_of_mem _ hm)
        · intro h m hm
          rcases List.mem_cons.mp hm with rfl | hm
          · exact hok
          · exact h m hm
      have hpanic : (∃ m ∈ rest, macOK m = false) → ∃ m ∈ k :: rest, macOK m = false := by
        rintro ⟨m, hm, hb⟩; exact ⟨m, List.mem_cons_of_mem _ hm, hb⟩
      cases hk : ci.macToUID k with
      | none =>
        simp only
        refine ⟨?_, fun h => hpanic (ih.2.1 h), ih.2.2⟩
        rw [ih.1, hall]
        constructor
        · rintro ⟨h1, h⟩
          refine ⟨h1, ?_⟩
          intro x hx u hxu
          rcases List.mem_cons.mp hx with rfl | hx
          · rw [hk] at hxu; cases hxu
          · exact h x hx u hxu
        · rintro ⟨h1, h⟩; exact ⟨h1, fun x hx => h x (List.mem_cons_of_mem _ hx)⟩
      | some e =>
        simp only
        by_cases he : e = uid
        · subst he
          simp only [bne_self_eq_false, Bool.false_eq_true, if_false]
          refine ⟨?_, fun h => hpanic (ih.2.1 h), ih.2.2⟩
          rw [ih.1, hall]
          constructor
          · rintro ⟨h1, h⟩
            refine ⟨h1, ?_⟩
            intro x hx u hxu
            rcases List.mem_cons.mp hx with rfl | hx
            · rw [hk] at hxu; exact (Option.some.inj hxu).symm
            · exact h x hx u hxu
          · rintro ⟨h1, h⟩; exact ⟨h1, fun x hx => h x (List.mem_cons_of_mem _ hx)⟩
        · have hne : (e != uid) = true := by simp [he]
          simp only [hne, if_true, hd k e hk]
          refine ⟨?_, ?_, by simp⟩
          · constructor
            · intro h; cases h
            · rintro ⟨_, h⟩; exact absurd (h k List.mem_cons_self e hk) he
          · intro h; cases h

theorem subnetLook_eq {ci : Index} (h : SMInv ci.subnetToUID) (s : Prefix) :
    ci.subnetLook s = ci.subnetToUID.vals s := by
  unfold Index.subnetLook
  by_cases hm : s ∈ ci.subnetToUID.keys
  · have := (h.dom s).mp hm
    cases hv : ci.subnetToUID.vals s with
    | none => rw [hv] at this; cases this
    | some u => simp [hm]
  · have : ci.subnetToUID.vals s = none := by
      cases hv : ci.subnetToUID.vals s with
      | none => rfl
      | some u => exact absurd ((h.dom s).mpr (by simp [hv])) hm
    simp [hm, this]

theorem Inv.deref_name {ci : Index} (h : Inv ci) {n : Bytes} :
    (ci.findByName n = .none ↔ ci.nameToUID n = none) ∧
    (∀ c, ci.findByName n = .found c ↔ (c ∈ ci.clients ∧ c.name = n)) ∧
    ci.findByName n ≠ .dangling := by
  unfold Index.findByName Index.deref
  cases hn : ci.nameToUID n with
  | none =>
    refine ⟨by simp, ?_, by simp⟩
    intro c
    constructor
    · intro hh; cases hh
    · rintro ⟨hc, hcn⟩
      have := (h.names n c.uid).mpr ⟨c, hc, rfl, by simp [hcn]⟩
      rw [hn] at this; cases this
  | some u =>
    obtain ⟨c, hcl, hc, hcu, hk⟩ := h.names.client_isSome h.uids hn
    simp only [hcl]
    refine ⟨by simp, ?_, by simp⟩
    intro c'
    simp only [Look.found.injEq]
    simp only [List.mem_singleton] at hk
    constructor
    · rintro rfl; exact ⟨hc, hk.symm⟩
    · rintro ⟨hc', hn'⟩
      have := (h.names n c'.uid).mpr ⟨c', hc', rfl, by simp [hn']⟩
      rw [hn] at this
      exact h.uids.eq_of_uid hc hc' (by rw [hcu]; exact Option.some.inj this)

/-- Under the invariant `clashes` says ok exactly when there is no clash (and
every MAC has a possible length); it panics only on an impossible MAC. -/
theorem Inv.clashes_spec {ci : Index} (h : Inv ci) (c : Client) :
    (ci.clashes c = .ok ↔ (NoClash ci c ∧ ∀ m ∈ c.macs, macOK m = true)) ∧
    (ci.clashes c = .panic → ∃ m ∈ c.macs, macOK m = false) := by
  have hdC : ∀ k u, ci.clientIDToUID k = some u → (ci.client u).isSome = true := by
    intro k u hk; obtain ⟨c', hc', _⟩ := h.cids.client_isSome h.uids hk; simp [hc']
  have hdI : ∀ k u, ci.ipToUID k = some u → (ci.client u).isSome = true := by
    intro k u hk; obtain ⟨c', hc', _⟩ := h.ips.client_isSome h.uids hk; simp [hc']
  have hdM : ∀ k u, ci.macToUID k = some u → (ci.client u).isSome = true := by
    intro k u hk; obtain ⟨c', hc', _⟩ := h.macs.client_isSome h.uids hk; simp [hc']
  have hdS : ∀ k u, ci.subnetLook k = some u → (ci.client u).isSome = true := by
    intro k u hk
    rw [subnetLook_eq h.sm] at hk
    obtain ⟨c', hc', _⟩ := h.subs.client_isSome h.uids hk; simp [hc']
  have hcid := clashCIDs_spec ci c.uid hdC c.cids
  have hip := clashIn_false_iff ci ci.ipToUID c.uid hdI c.ips
  have hsub := clashIn_false_iff ci ci.subnetLook c.uid hdS c.subnets
  have hmac := clashMACs_spec ci c.uid hdM c.macs
  have hsl : FreeFor ci.subnetLook c.uid c.subnets ↔ FreeFor ci.subnetToUID.vals c.uid c.subnets := by
    unfold FreeFor
    constructor <;> intro hh k hk u hu
    · exact hh k hk u (by rw [subnetLook_eq h.sm]; exact hu)
    · exact hh k hk u (by rw [← subnetLook_eq h.sm]; exact hu)
  -- the part after the name check
  have hrest : (ci.clashesRest c = .ok ↔
      (FreeFor ci.clientIDToUID c.uid c.cids ∧ FreeFor ci.ipToUID c.uid c.ips ∧
       FreeFor ci.subnetToUID.vals c.uid c.subnets ∧ FreeFor ci.macToUID c.uid c.macs ∧
       ∀ m ∈ c.macs, macOK m = true)) ∧
      (ci.clashesRest c = .panic → ∃ m ∈ c.macs, macOK m = false) := by
    unfold Index.clashesRest
    rcases hcid.2 with hc | hc
    · rw [hc]
      simp only
      have hfc := hcid.1.mp hc
      cases hi : clashIn ci ci.ipToUID c.uid c.ips with
      | true =>
        simp only [if_true]
        refine ⟨?_, fun hh => by cases hh⟩
        constructor
        · intro hh; cases hh
        · rintro ⟨_, h2, _⟩
          have := hip.mpr h2
          rw [hi] at this; cases this
      | false =>
        simp only [Bool.false_eq_true, if_false]
        have hfi := hip.mp hi
        cases hs : clashIn ci ci.subnetLook c.uid c.subnets with
        | true =>
          simp only [if_true]
          refine ⟨?_, fun hh => by cases hh⟩
          constructor
          · intro hh; cases hh
          · rintro ⟨_, _, h3, _⟩
            have := hsub.mpr (hsl.mpr h3)
            rw [hs] at this; cases this
        | false =>
          simp only [Bool.false_eq_true, if_false]
          have hfs := hsl.mp (hsub.mp hs)
          refine ⟨?_, hmac.2.1⟩
          rw [hmac.1]
          constructor
          · rintro ⟨h1, h2⟩; exact ⟨hfc, hfi, hfs, h2, h1⟩
          · rintro ⟨_, _, _, h4, h5⟩; exact ⟨h5, h4⟩
    · rw [hc]
      simp only
      refine ⟨?_, fun hh => by cases hh⟩
      constructor
      · intro hh; cases hh
      · rintro ⟨h1, _⟩
        have := hcid.1.mpr h1
        rw [hc] at this; cases this
  have hnm := h.deref_name (n := c.name)
  unfold Index.clashes
  cases hf : ci.findByName c.name with
  | dangling => exact absurd hf hnm.2.2
  | none =>
    simp only
    have hnone := hnm.1.mp hf
    refine ⟨?_, hrest.2⟩
    rw [hrest.1]
    constructor
    · rintro ⟨h1, h2, h3, h4, h5⟩
      refine ⟨⟨?_, h1, h2, h3, h4⟩, h5⟩
      intro k hk u hu
      simp at hk; subst hk
      rw [hnone] at hu; cases hu
    · rintro ⟨⟨_, h1, h2, h3, h4⟩, h5⟩; exact ⟨h1, h2, h3, h4, h5⟩
  | found existing =>
    simp only
    have hex := (hnm.2.1 existing).mp hf
    have hmap : ci.nameToUID c.name = some existing.uid :=
      (h.names c.name existing.uid).mpr ⟨existing, hex.1, rfl, by simp [hex.2]⟩
    by_cases he : existing.uid = c.uid
    · have : (existing.uid != c.uid) = false := by simp [he]
      simp only [this, Bool.false_eq_true, if_false]
      refine ⟨?_, hrest.2⟩
      rw [hrest.1]
      constructor
      · rintro ⟨h1, h2, h3, h4, h5⟩
        refine ⟨⟨?_, h1, h2, h3, h4⟩, h5⟩
        intro k hk u hu
        simp at hk; subst hk
        rw [hmap] at hu
        rw [← Option.some.inj hu]; exact he
      · rintro ⟨⟨_, h1, h2, h3, h4⟩, h5⟩; exact ⟨h1, h2, h3, h4, h5⟩
    · have : (existing.uid != c.uid) = true := by simp [he]
      simp only [this, if_true]
      refine ⟨?_, fun hh => by cases hh⟩
      constructor
      · intro hh; cases hh
      · rintro ⟨⟨h1, _⟩, _⟩
        exact absurd (h1 c.name (by simp) existing.uid hmap) he

end AGH.C04
