/-
C05 — lemmas about the lock machine, part 1: the shape of a step, thread-local
facts about `advance`, mutual exclusion, and soundness of the lockset
discipline (`lockset_sound`).  Core Lean only.
-/
import AGH.Spec.Locks
namespace AGH.C05

/-! ### shape of a step -/

/-- Every machine step rewrites exactly one thread: either it performs its
(enabled) next event, or it raises its `announced` flag in front of an
exclusive acquisition. -/
theorem step_cases {s s' : State} (h : Step s s') :
    ∃ k t, s[k]? = some t ∧
      ((enabled s t = true ∧ s' = s.set k (advance t)) ∨
       (∃ l r, t.rest = Event.acq l Mode.excl :: r ∧ s' = s.set k { t with announced := true })) := by
  cases h with
  | run i hi =>
    unfold stepThread at hi
    cases hs : s[i]? with
    | none => rw [hs] at hi; cases hi
    | some t =>
      rw [hs] at hi
      simp only at hi
      by_cases he : enabled s t = true
      · rw [if_pos he] at hi
        exact ⟨i, t, hs, Or.inl ⟨he, (Option.some.inj hi).symm⟩⟩
      · rw [if_neg he] at hi; cases hi
  | ann i hi =>
    unfold announce at hi
    cases hs : s[i]? with
    | none => rw [hs] at hi; cases hi
    | some t =>
      rw [hs] at hi
      simp only at hi
      split at hi
      · rename_i l r hr
        by_cases ha : t.announced = true
        · rw [if_pos ha] at hi; cases hi
        · rw [if_neg ha] at hi
          exact ⟨i, t, hs, Or.inr ⟨l, r, hr, (Option.some.inj hi).symm⟩⟩
      · cases hi

theorem mem_set_cases {s : State} {k : Nat} {t' u : Thread} (h : u ∈ s.set k t') :
    u ∈ s ∨ u = t' := List.mem_or_eq_of_mem_set h

/-- A property of single threads that holds initially and is preserved by
`advance` and by announcing holds of every thread of every reachable state. -/
theorem reach_forall_thread (P : Thread → Prop) {s₀ : State}
    (h0 : ∀ t ∈ s₀, P t)
    (hadv : ∀ t, P t → P (advance t))
    (hann : ∀ t, P t → P { t with announced := true }) :
    ∀ s, Reach s₀ s → ∀ t ∈ s, P t := by
  intro s hr
  induction hr with
  | refl => exact h0
  | step _ hst ih =>
    obtain ⟨k, t, hk, hc⟩ := step_cases hst
    have ht : P t := ih t (List.mem_of_getElem? hk)
    intro u hu
    rcases hc with ⟨_, rfl⟩ | ⟨_, _, _, rfl⟩
    · rcases mem_set_cases hu with hu | rfl
      · exact ih u hu
      · exact hadv t ht
    · rcases mem_set_cases hu with hu | rfl
      · exact ih u hu
      · exact hann t ht

/-! ### thread-local facts -/

theorem holdsAny_of_holdsExcl {t : Thread} {l : Lock} (h : holdsExcl t l = true) :
    holdsAny t l = true := by
  unfold holdsExcl at h
  unfold holdsAny
  rw [List.contains_iff_mem] at h
  exact List.any_eq_true.2 ⟨_, h, by simp⟩

theorem holdsAny_iff {t : Thread} {l : Lock} :
    holdsAny t l = true ↔ ∃ m, (l, m) ∈ t.held := by
  unfold holdsAny
  rw [List.any_eq_true]
  constructor
  · rintro ⟨⟨l', m⟩, hm, hl⟩
    have : l' = l := by simpa using hl
    subst this
    exact ⟨m, hm⟩
  · rintro ⟨m, hm⟩
    exact ⟨(l, m), hm, by simp⟩

theorem holdsExcl_iff {t : Thread} {l : Lock} :
    holdsExcl t l = true ↔ (l, Mode.excl) ∈ t.held := by
  unfold holdsExcl
  exact List.contains_iff_mem

theorem held_advance {t : Thread} {h : Lock × Mode} (hm : h ∈ (advance t).held) :
    h ∈ t.held ∨ ∃ r, t.rest = Event.acq h.1 h.2 :: r := by
  obtain ⟨held, ann, rest⟩ := t
  cases rest with
  | nil => exact Or.inl hm
  | cons e r =>
    cases e with
    | acq l m =>
      simp only [advance, List.mem_cons] at hm
      rcases hm with rfl | hm
      · exact Or.inr ⟨r, rfl⟩
      · exact Or.inl hm
    | rel l m =>
      simp only [advance] at hm
      exact Or.inl (List.mem_of_mem_erase hm)
    | rd x => exact Or.inl hm
    | wr x => exact Or.inl hm

theorem holdsAny_advance {t : Thread} {l : Lock} (h : holdsAny (advance t) l = true) :
    holdsAny t l = true ∨ ∃ m r, t.rest = Event.acq l m :: r := by
  obtain ⟨m, hm⟩ := holdsAny_iff.1 h
  rcases held_advance hm with hm | ⟨r, hr⟩
  · exact Or.inl (holdsAny_iff.2 ⟨m, hm⟩)
  · exact Or.inr ⟨m, r, hr⟩

theorem holdsExcl_advance {t : Thread} {l : Lock} (h : holdsExcl (advance t) l = true) :
    holdsExcl t l = true ∨ ∃ r, t.rest = Event.acq l Mode.excl :: r := by
  rcases held_advance (holdsExcl_iff.1 h) with hm | ⟨r, hr⟩
  · exact Or.inl (holdsExcl_iff.2 hm)
  · exact Or.inr ⟨r, hr⟩

theorem canAcq_excl {s : State} {l : Lock} (h : canAcq s l Mode.excl = true) :
    ∀ t ∈ s, holdsAny t l = false := by
  intro t ht
  have := List.all_eq_true.1 h t ht
  simpa using this

theorem canAcq_shared {s : State} {l : Lock} (h : canAcq s l Mode.shared = true) :
    ∀ t ∈ s, holdsExcl t l = false ∧ wantsExcl t l = false := by
  intro t ht
  have := List.all_eq_true.1 h t ht
  simpa using this

/-! ### mutual exclusion -/

/-- An exclusive holder of `l` excludes every other holder of `l`. -/
def MutexInv (s : State) : Prop :=
  ∀ (i j : Nat) (ti tj : Thread) (l : Lock), i ≠ j → s[i]? = some ti → s[j]? = some tj →
    holdsExcl ti l = true → holdsAny tj l = false

theorem mutexInv_init (p : Prog) : MutexInv (init p) := by
  intro i j ti tj l _ hi _ he
  have hm : ti ∈ init p := List.mem_of_getElem? hi
  unfold init at hm
  obtain ⟨evs, _, rfl⟩ := List.mem_map.1 hm
  simp [holdsExcl, initThread] at he

theorem getElem?_set_some {s : State} {k i : Nat} {t' u : Thread}
    (h : (s.set k t')[i]? = some u) : (k = i ∧ u = t') ∨ (k ≠ i ∧ s[i]? = some u) := by
  rw [List.getElem?_set] at h
  by_cases hki : k = i
  · rw [if_pos hki] at h
    by_cases hl : k < s.length
    · rw [if_pos hl] at h
      exact Or.inl ⟨hki, (Option.some.inj h).symm⟩
    · rw [if_neg hl] at h; cases h
  · rw [if_neg hki] at h
    exact Or.inr ⟨hki, h⟩

theorem mutexInv_step {s s' : State} (hinv : MutexInv s) (hst : Step s s') : MutexInv s' := by
  obtain ⟨k, t, hk, hc⟩ := step_cases hst
  rcases hc with ⟨hen, rfl⟩ | ⟨_, _, _, rfl⟩
  · intro i j ti tj l hij hi hj he
    rcases getElem?_set_some hi with ⟨rfl, rfl⟩ | ⟨hki, hi⟩
    · -- the mover is the exclusive holder
      rcases getElem?_set_some hj with ⟨hkj, _⟩ | ⟨_, hj⟩
      · exact absurd hkj hij
      · rcases holdsExcl_advance he with he | ⟨r, hr⟩
        · exact hinv _ _ _ _ _ hij hk hj he
        · have hca : canAcq s l Mode.excl = true := by
            unfold enabled at hen; rw [hr] at hen; exact hen
          exact canAcq_excl hca tj (List.mem_of_getElem? hj)
    · rcases getElem?_set_some hj with ⟨rfl, rfl⟩ | ⟨_, hj⟩
      · -- the mover is the other holder
        cases hany : holdsAny (advance t) l with
        | false => rfl
        | true =>
          rcases holdsAny_advance hany with ha | ⟨m, r, hr⟩
          · have := hinv _ _ _ _ _ hij hi hk he
            rw [this] at ha; cases ha
          · have hca : canAcq s l m = true := by
              unfold enabled at hen; rw [hr] at hen; exact hen
            cases m with
            | excl =>
              have := canAcq_excl hca ti (List.mem_of_getElem? hi)
              rw [holdsAny_of_holdsExcl he] at this; cases this
            | shared =>
              have := (canAcq_shared hca ti (List.mem_of_getElem? hi)).1
              rw [he] at this; cases this
      · exact hinv _ _ _ _ _ hij hi hj he
  · intro i j ti tj l hij hi hj he
    have key : ∀ (n : Nat) (u : Thread), (s.set k { t with announced := true })[n]? = some u →
        ∃ u', s[n]? = some u' ∧ u'.held = u.held := by
      intro n u hn
      rcases getElem?_set_some hn with ⟨rfl, rfl⟩ | ⟨_, hn⟩
      · exact ⟨t, hk, rfl⟩
      · exact ⟨u, hn, rfl⟩
    obtain ⟨ti', hi', hhi⟩ := key i ti hi
    obtain ⟨tj', hj', hhj⟩ := key j tj hj
    have he' : holdsExcl ti' l = true := by unfold holdsExcl at he ⊢; rw [hhi]; exact he
    have := hinv _ _ _ _ _ hij hi' hj' he'
    unfold holdsAny at this ⊢; rw [← hhj]; exact this

theorem mutexInv_reach (p : Prog) : ∀ s, Reach (init p) s → MutexInv s := by
  intro s hr
  induction hr with
  | refl => exact mutexInv_init p
  | step _ hst ih => exact mutexInv_step ih hst

/-! ### the lockset discipline is maintained -/

theorem discOK_advance (guard : Var → Lock) (t : Thread)
    (h : discOK guard t.held t.rest = true) :
    discOK guard (advance t).held (advance t).rest = true := by
  obtain ⟨held, ann, rest⟩ := t
  cases rest with
  | nil => exact h
  | cons e r =>
    cases e with
    | acq l m => simpa [advance, discOK] using h
    | rel l m => simpa [advance, discOK] using h
    | rd x =>
      simp only [advance, discOK, Bool.and_eq_true] at h ⊢
      exact h.2
    | wr x =>
      simp only [advance, discOK, Bool.and_eq_true] at h ⊢
      exact h.2

theorem discOK_reach (guard : Var → Lock) (p : Prog) (h : progDisc guard p = true) :
    ∀ s, Reach (init p) s → ∀ t ∈ s, discOK guard t.held t.rest = true := by
  apply reach_forall_thread (fun t => discOK guard t.held t.rest = true)
  · intro t ht
    unfold init at ht
    obtain ⟨evs, hevs, rfl⟩ := List.mem_map.1 ht
    exact List.all_eq_true.1 h evs hevs
  · exact discOK_advance guard
  · intro t ht; exact ht

theorem nextAccess_disc {guard : Var → Lock} {t : Thread} {x : Var} {w : Bool}
    (hd : discOK guard t.held t.rest = true) (hn : nextAccess t = some (x, w)) :
    holdsAny t (guard x) = true ∧ (w = true → holdsExcl t (guard x) = true) := by
  obtain ⟨held, ann, rest⟩ := t
  cases rest with
  | nil => simp [nextAccess] at hn
  | cons e r =>
    cases e with
    | acq l m => simp [nextAccess] at hn
    | rel l m => simp [nextAccess] at hn
    | rd y =>
      simp only [nextAccess, Option.some.injEq, Prod.mk.injEq] at hn
      obtain ⟨rfl, rfl⟩ := hn
      simp only [discOK, mayRead, holdsMode, Bool.and_eq_true, Bool.or_eq_true] at hd
      refine ⟨?_, by intro h; cases h⟩
      rcases hd.1 with h | h
      · exact holdsAny_iff.2 ⟨_, List.contains_iff_mem.1 h⟩
      · exact holdsAny_iff.2 ⟨_, List.contains_iff_mem.1 h⟩
    | wr y =>
      simp only [nextAccess, Option.some.injEq, Prod.mk.injEq] at hn
      obtain ⟨rfl, rfl⟩ := hn
      simp only [discOK, mayWrite, holdsMode, Bool.and_eq_true] at hd
      have he : holdsExcl (Thread.mk held ann (Event.wr y :: r)) (guard y) = true := hd.1
      exact ⟨holdsAny_of_holdsExcl he, fun _ => he⟩

/-- 1. Eraser/lockset discipline is sufficient for race freedom. -/
theorem lockset_sound (guard : Var → Lock) (p : Prog) (h : progDisc guard p = true) :
    ∀ s, Reach (init p) s → ¬ Race s := by
  intro s hr hrace
  have hdisc := discOK_reach guard p h s hr
  have hmx := mutexInv_reach p s hr
  obtain ⟨i, j, x, wi, wj, hij, hi, hj, hw⟩ := hrace
  cases hsi : s[i]? with
  | none => rw [hsi] at hi; cases hi
  | some ti =>
    cases hsj : s[j]? with
    | none => rw [hsj] at hj; cases hj
    | some tj =>
      rw [hsi] at hi; rw [hsj] at hj
      have hi' : nextAccess ti = some (x, wi) := hi
      have hj' : nextAccess tj = some (x, wj) := hj
      have di := nextAccess_disc (hdisc ti (List.mem_of_getElem? hsi)) hi'
      have dj := nextAccess_disc (hdisc tj (List.mem_of_getElem? hsj)) hj'
      rcases hw with hw | hw
      · have := hmx i j ti tj (guard x) hij hsi hsj (di.2 hw)
        rw [dj.1] at this; cases this
      · have := hmx j i tj ti (guard x) (Ne.symm hij) hsj hsi (dj.2 hw)
        rw [di.1] at this; cases this

end AGH.C05
