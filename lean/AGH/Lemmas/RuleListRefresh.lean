/-
C15 helper lemmas about the refresh state machine (`updateIntl`, `refreshOne`,
`phase1`, `refreshStep`).  The parser is a black box here.
-/
import AGH.Spec.RuleList
namespace AGH.C15
open AGH AGH.Bytes

theorem runLines_readErr : ∀ (ls : List Bytes) (st : PState) (out : Bytes) (n : Nat) (e : ScanEnd),
    e ≠ .eof → (runLines st out ls n e).err ≠ none := by
  intro ls
  induction ls with
  | nil => intro st out n e he; cases e <;> simp [runLines] at he ⊢
  | cons l ls ih =>
    intro st out n e he
    unfold runLines
    cases processLine st l n with
    | error er => simp
    | ok p => exact ih _ _ _ _ he

theorem scanLines_incomplete : ∀ (f : Nat) (data : Bytes), (scanLines f data false).2 ≠ .eof := by
  intro f
  induction f with
  | zero => intro data; simp [scanLines]
  | succ f ih =>
    intro data
    unfold scanLines
    cases data with
    | nil => simp
    | cons c s =>
      simp only
      split
      · simp
      · split
        · exact ih _
        · simp

/-- A body that is cut short — at any byte — is a failed download. -/
theorem parse_incomplete (data : Bytes) : (parse data false).err ≠ none := by
  unfold parse
  exact runLines_readErr _ _ _ _ _ (scanLines_incomplete _ _)

theorem updateIntl_none_of_fails {k : Nat} {f : Fetch} (h : fetchFails f = true) : updateIntl k f = none := by
  cases f with
  | fail => rfl
  | body data complete =>
    simp only [fetchFails] at h
    simp only [updateIntl]
    rw [if_neg]
    intro hh
    rw [Option.isNone_iff_eq_none] at hh
    rw [hh.1] at h
    simp at h

theorem refreshOne_of_none {flt : Flt} {f : Fetch} (h : updateIntl flt.checksum f = none) :
    refreshOne flt f = flt := by
  simp [refreshOne, h]

theorem updateIntl_some {k : Nat} {f : Fetch} {c ck : Nat} {out : Bytes} (h : updateIntl k f = some (c, ck, out)) :
    ∃ data, f = .body data true ∧ (parse data true).err = none ∧ ck ≠ k ∧
      c = (parse data true).st.count ∧ ck = (parse data true).st.crc ∧ out = (parse data true).out := by
  cases f with
  | fail => simp [updateIntl] at h
  | body data complete =>
    simp only [updateIntl] at h
    split at h
    · rename_i hc
      simp only [Option.some.injEq, Prod.mk.injEq] at h
      obtain ⟨rfl, rfl, rfl⟩ := h
      cases complete with
      | false => exact absurd (Option.isNone_iff_eq_none.mp hc.1) (parse_incomplete data)
      | true => exact ⟨data, rfl, Option.isNone_iff_eq_none.mp hc.1, hc.2, rfl, rfl, rfl⟩
    · cases h

/-- The state of a list is either pristine or exactly what ONE successful,
complete download produced. -/
def Consistent (flt : Flt) : Prop :=
  (flt.file = none ∧ flt.count = 0 ∧ flt.checksum = 0) ∨
  ∃ data, (parse data true).err = none ∧ flt.file = some (parse data true).out ∧
    flt.count = (parse data true).st.count ∧ flt.checksum = (parse data true).st.crc

theorem refreshOne_consistent {flt : Flt} (f : Fetch) (h : Consistent flt) : Consistent (refreshOne flt f) := by
  unfold refreshOne
  cases hu : updateIntl flt.checksum f with
  | none => simpa using h
  | some p =>
    obtain ⟨c, ck, out⟩ := p
    obtain ⟨data, _, he, _, rfl, rfl, rfl⟩ := updateIntl_some hu
    exact Or.inr ⟨data, he, rfl, rfl, rfl⟩

theorem phase1_length (rq : Req) : ∀ (ls : List LState) (ins : List (Bool × Fetch)),
    (phase1 rq ls ins).length = ls.length := by
  intro ls
  induction ls with
  | nil => intro ins; cases ins <;> simp [phase1]
  | cons l ls ih =>
    intro ins
    cases ins with
    | nil => simp [phase1]
    | cons i ins => obtain ⟨due, f⟩ := i; simp [phase1, ih]

/-- Entry `i` of phase 1 in terms of entry `i` of its inputs. -/
theorem phase1_get (rq : Req) : ∀ (ls : List LState) (ins : List (Bool × Fetch)) (i : Nat) (l : LState)
    (due : Bool) (f : Fetch), ls[i]? = some l → ins[i]? = some (due, f) →
    ((phase1 rq ls ins)[i]?).map (·.1) =
      some (if attempted rq l due then { l with flt := refreshOne l.flt f } else l) := by
  intro ls
  induction ls with
  | nil => intro ins i l due f h; simp at h
  | cons l0 ls ih =>
    intro ins i l due f hl hi
    cases ins with
    | nil => simp at hi
    | cons i0 ins =>
      obtain ⟨due0, f0⟩ := i0
      cases i with
      | zero =>
        simp only [List.getElem?_cons_zero, Option.some.injEq] at hl hi
        subst hl
        cases hi
        simp only [phase1, List.getElem?_cons_zero, Option.map_some]
        split <;> rfl
      | succ i =>
        simp only [List.getElem?_cons_succ] at hl hi
        simp only [phase1, List.getElem?_cons_succ]
        exact ih ins i l due f hl hi

end AGH.C15

namespace AGH.C15
open AGH AGH.Bytes

theorem updateIntl_some_not_fails {k : Nat} {f : Fetch} (h : (updateIntl k f).isSome = true) :
    fetchFails f = false := by
  cases hf : fetchFails f with
  | false => rfl
  | true => rw [updateIntl_none_of_fails hf] at h; cases h

/-- Every entry of phase 1 comes from an input list `l`: either untouched, or
attempted with the flags that `update` returned. -/
theorem phase1_mem (rq : Req) : ∀ (ls : List LState) (ins : List (Bool × Fetch)) (r : LState × Bool × Bool × Bool),
    r ∈ phase1 rq ls ins →
    ∃ l ∈ ls, r.1.allow = l.allow ∧ r.1.inForce = l.inForce ∧
      ((r = (l, false, false, false)) ∨
       (∃ due f, attempted rq l due = true ∧
          r = ({ l with flt := refreshOne l.flt f }, true, fetchFails f, (updateIntl l.flt.checksum f).isSome))) := by
  intro ls
  induction ls with
  | nil => intro ins r h; cases ins <;> simp [phase1] at h
  | cons l0 ls ih =>
    intro ins r h
    cases ins with
    | nil =>
      simp only [phase1, List.mem_map] at h
      obtain ⟨l, hl, rfl⟩ := h
      exact ⟨l, hl, rfl, rfl, Or.inl rfl⟩
    | cons i0 ins =>
      obtain ⟨due0, f0⟩ := i0
      simp only [phase1, List.mem_cons] at h
      rcases h with h | h
      · by_cases ha : attempted rq l0 due0 = true
        · rw [if_pos ha] at h
          subst h
          exact ⟨l0, by simp, rfl, rfl, Or.inr ⟨due0, f0, ha, rfl⟩⟩
        · rw [if_neg ha] at h
          subst h
          exact ⟨l0, by simp, rfl, rfl, Or.inl rfl⟩
      · obtain ⟨l, hl, h1, h2, h3⟩ := ih ins r h
        exact ⟨l, by simp [hl], h1, h2, h3⟩

/-- If some list was really updated, the number of updated lists the code
computes is not zero (so the engine is rebuilt). -/
theorem updNum_pos (rq : Req) (ls : List LState) (ins : List (Bool × Fetch))
    (r : LState × Bool × Bool × Bool) (hr : r ∈ phase1 rq ls ins) (hu : r.2.2.2 = true) :
    (if rq.block then updCount false (phase1 rq ls ins) else 0) +
      (if rq.allow then updCount true (phase1 rq ls ins) else 0) ≠ 0 := by
  obtain ⟨l, _, hal, _, hcase⟩ := phase1_mem rq ls ins r hr
  rcases hcase with rfl | ⟨due, f, hatt, rfl⟩
  · cases hu
  · simp only at hu hal
    have hnf := updateIntl_some_not_fails hu
    -- the array of `l` is selected
    have hsel : (if l.allow then rq.allow else rq.block) = true := by
      simp only [attempted, Bool.and_eq_true] at hatt; exact hatt.1.1
    -- its array did not fail completely, and it is counted
    have hcount : ∀ a : Bool, l.allow = a → updCount a (phase1 rq ls ins) ≠ 0 := by
      intro a ha
      have hmem : (({ l with flt := refreshOne l.flt f } : LState), true, fetchFails f,
          (updateIntl l.flt.checksum f).isSome) ∈ phase1 rq ls ins := hr
      unfold updCount
      have hne : netErr a (phase1 rq ls ins) = false := by
        unfold netErr
        simp only [Bool.and_eq_false_iff, Bool.not_eq_false', List.all_eq_false, List.mem_filter]
        right
        exact ⟨_, ⟨hmem, by simp [ha]⟩, by simp [hnf]⟩
      rw [hne]
      simp only [Bool.false_eq_true, if_false, ne_eq, List.length_eq_zero_iff]
      intro hnil
      have : (({ l with flt := refreshOne l.flt f } : LState), true, fetchFails f,
          (updateIntl l.flt.checksum f).isSome) ∈ (phase1 rq ls ins).filter
            (fun r => r.1.allow == a && r.2.2.2) := by
        simp only [List.mem_filter]
        exact ⟨hmem, by simp [ha, hu]⟩
      rw [hnil] at this
      cases this
    cases hla : l.allow with
    | false =>
      rw [hla] at hsel
      simp only [Bool.false_eq_true, if_false] at hsel
      have := hcount false hla
      rw [hsel]; simp only [if_true]; omega
    | true =>
      rw [hla] at hsel
      simp only [if_true] at hsel
      have := hcount true hla
      rw [hsel]; simp only [if_true]; omega

/-- `InSync` (stated here on the raw fields; `Spec.InSync` unfolds to it). -/
def insync (l : LState) : Prop := l.inForce = (if l.flt.enabled then l.flt.file else none)

/-- The engine's view stays in sync with the files across a whole
`tryRefreshFilters` call (repaired code). -/
theorem refreshStep_insync (rq : Req) (ls : List LState) (ins : List (Bool × Fetch))
    (h : ∀ l ∈ ls, insync l) : ∀ l' ∈ refreshStep rq ls ins, insync l' := by
  intro l' hl'
  unfold refreshStep at hl'
  simp only [List.mem_map] at hl'
  obtain ⟨r, hr, rfl⟩ := hl'
  by_cases hre : ((if rq.block then updCount false (phase1 rq ls ins) else 0) +
      (if rq.allow then updCount true (phase1 rq ls ins) else 0) != 0) = true
  · rw [if_pos hre]; rfl
  · rw [if_neg hre]
    -- nothing was updated: `r` is an untouched list or a failed/unchanged attempt
    obtain ⟨l, hl, _, _, hcase⟩ := phase1_mem rq ls ins r hr
    rcases hcase with rfl | ⟨due, f, hatt, rfl⟩
    · exact h l hl
    · simp only
      cases hu : updateIntl l.flt.checksum f with
      | some p =>
        exfalso
        apply hre
        have := updNum_pos rq ls ins _ hr (by simp [hu])
        simpa using this
      | none =>
        rw [refreshOne_of_none hu]
        exact h l hl

end AGH.C15
