/-
Lemmas for C07: the time invariant of reachable states; the spec monitor
accepts the model's dump after every operation and every answer of the model.
Core Lean only.
-/
import AGH.Lemmas.QLogSpec
namespace AGH.C07
open AGH AGH.Bytes

def logOf (s : State) : List Entry := s.rot ++ s.cur ++ s.mem

/-- Time invariant: the log is strictly increasing in time and nothing in it is
later than the latest record submitted. -/
def InvT (s : State) (last : Int) : Prop := Inv s ∧ ∀ e ∈ logOf s, e.ts ≤ last

theorem logOf_flush (s : State) : logOf (flush s) = logOf s := by
  unfold flush logOf
  split <;> simp_all

theorem logOf_runTasksN (n : Nat) (s : State) : logOf (runTasksN n s) = logOf s := by
  induction n generalizing s with
  | zero => rfl
  | succ k ih =>
    simp only [runTasksN]
    rw [ih]
    show logOf { flush s with tasks := s.tasks - 1 } = logOf s
    have := logOf_flush s
    simpa [logOf] using this

theorem logOf_runTasks (s : State) : logOf (runTasks s) = logOf s := logOf_runTasksN _ s

theorem sublist_addRaw (s : State) (e : Entry) : (logOf (addRaw s e)).Sublist (logOf s ++ [e]) := by
  unfold addRaw
  split
  · exact List.sublist_append_left _ _
  · have hp : (push (ringCap s.conf) s.mem e).Sublist (s.mem ++ [e]) := by
      rw [push_eq_drop]; exact List.drop_sublist _ _
    dsimp only
    split <;>
    · simp only [logOf, List.append_assoc]
      exact List.Sublist.append_left (List.Sublist.append_left hp _) _

theorem sublist_shutdown (s : State) : (logOf (shutdown s)).Sublist (logOf s) := by
  simp only [shutdown]
  split
  · rw [logOf_flush]; exact List.Sublist.refl _
  · exact List.Sublist.refl _

theorem sublist_restart (s : State) (m : Nat) (f en : Bool) : (logOf (restart s m f en)).Sublist (logOf s) := by
  simp only [restart]
  refine List.Sublist.trans ?_ (sublist_shutdown s)
  simp only [logOf, List.append_nil]
  exact List.sublist_append_left _ _

theorem sublist_applyThen (s : State) (t : Then) : (logOf (applyThen s t)).Sublist (logOf s) := by
  cases t with
  | clear => simp [applyThen, clear, logOf]
  | shutdown => exact sublist_shutdown s
  | restart m f en => exact sublist_restart s m f en

/-- The record an operation submits, if any. -/
def opEntry : Op → Option Entry
  | .add e => some e
  | .addThen e _ => some e
  | _ => none

theorem sublist_step_nonadd (s : State) (op : Op) (h : opEntry op = none) :
    (logOf (step s op)).Sublist (logOf s) := by
  cases op with
  | add e => cases h
  | addThen e t => cases h
  | shutdown => exact sublist_shutdown s
  | rotate =>
    simp only [step, rotate]
    split
    · exact List.Sublist.refl _
    · simp only [logOf, List.append_nil]
      exact List.Sublist.append_right (List.sublist_append_right _ _) _
  | rotCheck now =>
    simp only [step, rotCheck]
    split
    · exact List.Sublist.refl _
    · split
      · exact List.Sublist.refl _
      · simp only [rotate]
        split
        · exact List.Sublist.refl _
        · simp only [logOf, List.append_nil]
          exact List.Sublist.append_right (List.sublist_append_right _ _) _
  | clear => simp [step, clear, logOf]
  | restart m f en => exact sublist_restart s m f en
  | putConf en an ivl ign =>
    simp only [step, putConf]
    split <;> exact List.Sublist.refl _
  | setClients tbl => exact List.Sublist.refl _

theorem sublist_step_add (s : State) (op : Op) (e : Entry) (h : opEntry op = some e) :
    (logOf (step s op)).Sublist (logOf s ++ [e]) := by
  cases op with
  | add e' =>
    simp only [opEntry, Option.some.injEq] at h; subst h
    simp only [step, logOf_runTasks]
    exact sublist_addRaw s e'
  | addThen e' t =>
    simp only [opEntry, Option.some.injEq] at h; subst h
    simp only [step, logOf_runTasks]
    exact (sublist_applyThen _ t).trans (sublist_addRaw s e')
  | shutdown => cases h
  | rotate => cases h
  | rotCheck now => cases h
  | clear => cases h
  | restart m f en => cases h
  | putConf en an ivl ign => cases h
  | setClients tbl => cases h

theorem invT_step (s : State) (last : Int) (op : Op) (h : InvT s last) :
    match opEntry op with
    | some e => last < e.ts → InvT (step s op) e.ts
    | none => InvT (step s op) last := by
  obtain ⟨hi, hb⟩ := h
  cases hop : opEntry op with
  | none =>
    have hsub := sublist_step_nonadd s op hop
    exact ⟨List.Pairwise.sublist hsub hi, fun e he => hb e (hsub.subset he)⟩
  | some e =>
    intro hlt
    have hsub := sublist_step_add s op e hop
    have hasc : Asc (logOf s ++ [e]) := by
      apply List.pairwise_append.mpr
      refine ⟨hi, by simp, ?_⟩
      intro a ha b hb'
      simp only [List.mem_singleton] at hb'
      subst hb'
      have := hb a ha
      omega
    refine ⟨List.Pairwise.sublist hsub hasc, ?_⟩
    intro x hx
    have := hsub.subset hx
    simp only [List.mem_append, List.mem_singleton] at this
    rcases this with h1 | h1
    · have := hb x h1; omega
    · subst h1; omega

theorem invT_init (c : Conf) (last : Int) : InvT (init c) last := by
  refine ⟨?_, by simp [logOf, init]⟩
  simp [Inv, init, Asc]


theorem filter_loc_tagged (s : State) (loc : Loc) :
    (tagged s).filter (fun x => decide (x.2 = loc)) = tag loc (match loc with | .rot => s.rot | .cur => s.cur | .mem => s.mem) := by
  simp only [tagged, List.filter_append]
  cases loc
  · rw [filter_tag _ .rot s.rot false (by intro e; rfl), filter_tag _ .cur s.cur false (by intro e; rfl),
      filter_tag _ .mem s.mem true (by intro e; rfl)]
    simp
  · rw [filter_tag _ .rot s.rot false (by intro e; rfl), filter_tag _ .cur s.cur true (by intro e; rfl),
      filter_tag _ .mem s.mem false (by intro e; rfl)]
    simp
  · rw [filter_tag _ .rot s.rot true (by intro e; rfl), filter_tag _ .cur s.cur false (by intro e; rfl),
      filter_tag _ .mem s.mem false (by intro e; rfl)]
    simp

theorem tag_map_id (t : Loc) (l : List Entry) : (tag t l).map (fun x => x.1.id) = l.map (·.id) := by
  simp [tag, Function.comp_def]

/-- The monitor accepts the model's state dump after every operation. -/
theorem specDump_ok (g : Ghost) (s : State) (h : Refines g s) :
    specDump g (s.mem.map (·.id)) (s.cur.map (·.id)) (s.rot.map (·.id)) = none := by
  unfold specDump
  have hl := h.1
  have h1 : g.log.map (fun x => x.1.id) = s.rot.map (·.id) ++ s.cur.map (·.id) ++ s.mem.map (·.id) := by
    rw [hl, tagged]; simp [tag_map_id]
  have hw : ∀ loc, (g.log.filter (fun x => decide (x.2 = loc))).map (fun x => x.1.id) =
      (match loc with | .rot => s.rot | .cur => s.cur | .mem => s.mem).map (fun e : Entry => e.id) := by
    intro loc; rw [hl, filter_loc_tagged, tag_map_id]
  simp only [h1, hw]
  simp

theorem visibleLog_reverse (g : Ghost) (s : State) (h : Refines g s) :
    g.visibleLog.reverse = logRev s := by
  unfold Ghost.visibleLog logRev memRev filesRev
  rw [h.1, h.2, tagged]
  by_cases hm : s.conf.memSize = 0
  · simp only [hm, if_true, List.filter_append]
    rw [filter_tag _ .rot s.rot true (by intro e; simp), filter_tag _ .cur s.cur true (by intro e; simp),
      filter_tag _ .mem s.mem false (by intro e; simp)]
    simp
  · simp only [hm, if_false, List.filter_append]
    rw [filter_tag _ .rot s.rot true (by intro e; simp), filter_tag _ .cur s.cur true (by intro e; simp),
      filter_tag _ .mem s.mem true (by intro e; simp [hm])]
    simp

theorem visible_eq_vis (g : Ghost) (s : State) (a : Ask) (p : Params) (h : Refines g s)
    (hm : ∀ c e, matchE c p e = satisfies c a e) : visible g a = vis s p := by
  unfold visible vis
  rw [visibleLog_reverse g s h, h.2]
  congr 1
  funext e
  simp only [keepMem, ignoredNow, hm]
  cases isIgnored s.conf e.host <;> cases clientIgnored s.conf e.cid e.ip <;> simp


theorem items_fst (c : Conf) (es : List Entry) :
    (es.map (fun e => (⟨e.id, true, shownClient c e⟩ : Item))).map (·.id) = es.map (·.id) := by
  simp [Function.comp_def]

theorem items_pairs (c : Conf) (es : List Entry) :
    (es.map (fun e => (⟨e.id, true, shownClient c e⟩ : Item))).map (fun it => (it.id, it.client)) =
      es.map (fun e => (e.id, reportedClient c e)) := by
  simp [Function.comp_def, shownClient, reportedClient]

theorem items_all (c : Conf) (es : List Entry) :
    (es.map (fun e : Entry => (⟨e.id, true, shownClient c e⟩ : Item))).all (·.payloadOK) = true := by
  simp

/-- The monitor accepts every answer of the model. -/
theorem specSearch_ok (g : Ghost) (s : State) (sd : Int) (r : Req) (h : Refines g s) (hi : Inv s)
    (hsd : 2 ≤ sd ∨ sd ≤ 0) : specSearch g r (modelAnswer sd s r) = none := by
  unfold modelAnswer
  obtain ⟨resp, hresp⟩ := handle_no_fault sd s r
  rw [hresp]
  cases hask : ask r with
  | none => cases resp <;> simp [specSearch, hask]
  | some a =>
    obtain ⟨p, hp, hot, hlim, hoffs, hm⟩ := parse_of_ask sd r a hask
    have hvis := visible_eq_vis g s a p h hm
    unfold handle at hresp
    rw [hp] at hresp
    simp only at hresp
    by_cases hl0 : p.limit = 0
    · -- limit = 0: the empty page
      have hsr : search s p = .ok ([], none) := by unfold search; simp [hl0]
      rw [hsr] at hresp
      simp only [Except.ok.injEq] at hresp
      subst hresp
      have ha0 : a.limit = 0 := by omega
      have h1 : ([] : List Nat).isSublist ((visible g a).map (fun x => x.id)) = true :=
        List.isSublist_iff_sublist.mpr (List.nil_sublist _)
      have h2 : ([] : List (Nat × Bytes)).isSublist
          ((visible g a).map (fun e => (e.id, reportedClient g.conf e))) = true :=
        List.isSublist_iff_sublist.mpr (List.nil_sublist _)
      simp [specSearch, hask, ha0, h1, h2]
    · have hv := validP_of_parse sd r p hp hl0
      obtain ⟨D, O, hs, hsub, hlen⟩ := search_sound s p hi hv
      rw [hs] at hresp
      simp only [Except.ok.injEq] at hresp
      subst hresp
      simp only [specSearch, hask, items_fst, items_all, items_pairs, hvis, h.2]
      have hsubl : (D.map (·.id)).isSublist ((vis s p).map (·.id)) = true :=
        List.isSublist_iff_sublist.mpr (hsub.map _)
      have hsubc : (D.map (fun e => (e.id, reportedClient s.conf e))).isSublist
          ((vis s p).map (fun e => (e.id, reportedClient s.conf e))) = true :=
        List.isSublist_iff_sublist.mpr (hsub.map _)
      have hlen' : ¬ (D.map (·.id)).length > a.limit := by simp; omega
      have hal : ¬ a.limit = 0 := by omega
      simp only [hsubl, hsubc, Bool.not_true, Bool.false_eq_true, if_false, hlen', hal]
      -- the cursor clause
      cases hcur : cursorKnown g a.olderThan with
      | false => simp
      | true =>
        simp only [Bool.not_true, Bool.false_eq_true, if_false]
        have hcok : CursorOK s p := by
          unfold CursorOK
          rw [hot]
          cases hat : a.olderThan with
          | none => trivial
          | some t =>
            rw [hat] at hcur
            simp only [cursorKnown, List.any_eq_true, beq_iff_eq] at hcur
            obtain ⟨e, he, hts⟩ := hcur
            refine ⟨e, ?_, hts⟩
            have : e ∈ g.visibleLog.reverse := List.mem_reverse.mpr he
            rw [visibleLog_reverse g s h] at this
            simp only [logRev, memRev, filesRev, List.mem_append, List.mem_reverse] at this
            simp only [List.mem_append]
            rcases this with h1 | h1 | h1
            · split at h1
              · simp at h1
              · exact Or.inr (List.mem_reverse.mp h1)
            · exact Or.inl (Or.inr h1)
            · exact Or.inl (Or.inl h1)
        cases hao : a.offset with
        | some o =>
          rw [hao] at hoffs
          obtain ⟨hpo, hps⟩ := hoffs
          obtain ⟨O', hs'⟩ := search_offset s p hi hv (by omega) hcok
          rw [hs] at hs'
          simp only [Except.ok.injEq, Prod.mk.injEq] at hs'
          have hD := hs'.1
          simp only
          have : D.map (·.id) = (((vis s p).drop o).take a.limit).map (·.id) := by
            rw [hD, hpo, hlim]; simp
          simp [this]
        | none =>
          rw [hao] at hoffs
          obtain ⟨hpo, hps⟩ := hoffs
          obtain ⟨D', O', hs', _, hnone, hsome⟩ := search_cursor s p hi hv hpo hcok
          rw [hs] at hs'
          simp only [Except.ok.injEq, Prod.mk.injEq] at hs'
          obtain ⟨hD, hO⟩ := hs'
          subst hD hO
          simp only
          cases hOo : O with
          | none => simp [hnone hOo]
          | some c =>
            obtain ⟨hpage, hprog, _⟩ := hsome c hOo
            simp only
            have : D.map (·.id) = ((vis s p).filter (fun e => decide (e.ts ≥ c))).map (·.id) := by
              rw [← hpage]
            simp only [this, ne_eq, not_true_eq_false, if_false]
            have hmv : cursorMoves c a.olderThan = true := by
              cases hat : a.olderThan with
              | none => rfl
              | some t =>
                have := hprog t (by rw [hot, hat]) (by rw [hps]; exact hsd)
                simp [cursorMoves, this]
            simp [hmv]


end AGH.C07
