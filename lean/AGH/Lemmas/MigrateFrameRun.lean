/-
C13: the frame of `upgradeConfigSchema` from the frames of the steps.
-/
import AGH.Lemmas.MigrateStepFrame
namespace AGH.C13
open AGH

theorem step_frame (o : Oracles) (n : Nat) (h1 : 1 ≤ n) (h29 : n ≤ 29) (es) :
    FrameOK o n es (step o n (.obj es)) := by
  have : n = 1 ∨ n = 2 ∨ n = 3 ∨ n = 4 ∨ n = 5 ∨ n = 6 ∨ n = 7 ∨ n = 8 ∨ n = 9 ∨ n = 10 ∨ n = 11 ∨
      n = 12 ∨ n = 13 ∨ n = 14 ∨ n = 15 ∨ n = 16 ∨ n = 17 ∨ n = 18 ∨ n = 19 ∨ n = 20 ∨ n = 21 ∨
      n = 22 ∨ n = 23 ∨ n = 24 ∨ n = 25 ∨ n = 26 ∨ n = 27 ∨ n = 28 ∨ n = 29 := by omega
  rcases this with h | h | h | h | h | h | h | h | h | h | h | h | h | h | h | h | h | h | h | h | h | h | h |
    h | h | h | h | h | h <;> subst h <;> simp only [step]
  · exact step1_frame o es
  · exact step2_frame o es
  · exact step3_frame o es
  · exact step4_frame o es
  · exact step5_frame o es
  · exact step6_frame o es
  · exact step7_frame o es
  · exact step8_frame o es
  · exact step9_frame o es
  · exact step10_frame o es
  · exact step11_frame o es
  · exact step12_frame o es
  · exact step13_frame o es
  · exact step14_frame o es
  · exact step15_frame o es
  · exact step16_frame o es
  · exact step17_frame o es
  · exact step18_frame o es
  · exact step19_frame o es
  · exact step20_frame o es
  · exact step21_frame o es
  · exact step22_frame o es
  · exact step23_frame o es
  · exact step24_frame o es
  · exact step25_frame o es
  · exact step26_frame o es
  · exact step27_frame o es
  · exact step28_frame o es
  · exact step29_frame o es

/-- `upgradeConfigSchema` frames its input: what is read back of the result differs from what is
read back of the input only on the paths the executed steps concern. -/
theorem upgrade_frame (o : Oracles) (cnt : Nat) : ∀ (cur : Nat), cur + cnt ≤ 29 → ∀ (es : List (Key × YVal)) (d : YVal),
    upgrade o cnt cur (.obj es) = .ok d →
    frameV (touchedRange cnt cur) [] (er o (.obj es)) (some (er o d)) = true := by
  induction cnt with
  | zero =>
    intro cur _ es d h
    simp [upgrade] at h; subst h
    exact frameV_self _ _ _
  | succ cnt ih =>
    intro cur hle es d h
    have hf := step_frame o (cur + 1) (by omega) (by omega) es
    have ho := step_ok o (cur + 1) (by omega) (by omega) es
    unfold upgrade at h
    cases hs : step o (cur + 1) (.obj es) with
    | error f => simp [hs] at h
    | ok d1 =>
      rw [hs] at hf ho
      obtain ⟨es1, rfl⟩ := ho.1.elim
      simp only [hs] at h
      have h2 := ih (cur + 1) (by omega) es1 d h
      simp only [FrameOK] at hf
      simp only [touchedRange]
      exact frameV_trans hf h2

/-- The observed form: the produced document against the decoded input. -/
theorem migrate_frame (o : Oracles) (es : List (Key × YVal)) (t : Nat) (d : YVal)
    (hst : ReencodeStable o (.obj es) = true) (hf : FmtTotal o) (h : migrate o (some (.obj es)) t = .up d) :
    ∃ cur, versionOf (.obj es) = some cur ∧ cur < t ∧ t ≤ 29 ∧
      frameV (touchedRange (t - cur) cur) [] (.obj es) (some d) = true := by
  have hinv : inv o (.obj es) = true := inv_of_clean o es hst
  unfold migrate at h
  cases hm : migrateMem o (some (.obj es)) t with
  | up dm =>
    rw [hm] at h; dsimp only at h
    obtain ⟨cur, hv, hlt, h29, _, _, _⟩ := migrateMem_up o es t dm hm
    have hrun := migrateMem_run o es cur t hv hlt h29
    rw [hm] at hrun
    cases hu : upgrade o (t - cur) cur (.obj es) with
    | error fs => obtain ⟨f, s⟩ := fs; rw [hu] at hrun; cases f <;> simp [upgradeOutcome] at hrun
    | ok dm' =>
      rw [hu] at hrun; simp [upgradeOutcome] at hrun; subst hrun
      have hi := upgrade_inv o (t - cur) cur (by omega) es hinv _ hu
      rw [reparse_inv o hf _ hi] at h
      simp at h; subst h
      have hfr := upgrade_frame o (t - cur) cur (by omega) es _ hu
      rw [er_of_clean o _ hst] at hfr
      exact ⟨cur, hv, hlt, h29, hfr⟩
  | err k s => rw [hm] at h; simp at h
  | same => rw [hm] at h; simp at h
  | panic p s => rw [hm] at h; simp at h
  | oracle => rw [hm] at h; simp at h

/-! ### every unconcerned path reads the same -/

/-- The value at a path of keys. -/
def getKeys : YVal → List Key → Option YVal
  | v, [] => some v
  | .obj es, k :: ks => (lookup k es).bind (fun v => getKeys v ks)
  | _, _ :: _ => none

/-- `q` and `p` lie on one branch: one is a prefix of the other. -/
def onBranch (q p : Path) : Bool := q.isPrefixOf p || p.isPrefixOf q

theorem isPrefixOf_append_self (l m : Path) : l.isPrefixOf (l ++ m) = true := by
  rw [List.isPrefixOf_iff_prefix]; exact List.prefix_append l m

theorem isPrefixOf_self (l : Path) : l.isPrefixOf l = true := by
  have := isPrefixOf_append_self l []; simpa using this

theorem isPrefixOf_snoc (l : Path) (x : PC) (m : Path) : (l ++ [x]).isPrefixOf (l ++ x :: m) = true := by
  have := isPrefixOf_append_self (l ++ [x]) m; simpa using this

theorem frameV_getKeys_aux (fp : List Path) : ∀ (ks : List Key) (rp : Path) (a b : YVal),
    frameV fp rp a (some b) = true →
    (∀ q ∈ fp, onBranch q (rp.reverse ++ ks.map pk) = false) → getKeys b ks = getKeys a ks := by
  intro ks
  induction ks with
  | nil =>
    intro rp a b h hd
    -- the path itself is unconcerned and nothing concerned lies below it
    rw [frameV_eq] at h
    have ht : isTouched fp rp.reverse = false := by
      cases hc : isTouched fp rp.reverse with
      | false => rfl
      | true =>
        simp only [isTouched, List.any_eq_true] at hc
        obtain ⟨q, hq, he⟩ := hc
        have := hd q hq
        simp at he; subst he
        simp [onBranch, isPrefixOf_self] at this
    have hr : reaches fp rp.reverse = false := by
      cases hc : reaches fp rp.reverse with
      | false => rfl
      | true =>
        simp only [reaches, List.any_eq_true, Bool.and_eq_true] at hc
        obtain ⟨q, hq, he, _⟩ := hc
        have := hd q hq
        simp [onBranch, he] at this
    simp only [ht, hr, Bool.false_eq_true, if_false, Bool.not_false, if_true] at h
    have := (optBeq_iff _ _).1 h
    simp at this; subst this; rfl
  | cons k ks ih =>
    intro rp a b h hd
    have hd' : ∀ q ∈ fp, onBranch q ((pk k :: rp).reverse ++ ks.map pk) = false := by
      intro q hq; simpa using hd q hq
    -- the path down to here is a proper prefix: not concerned as a whole
    have ht : isTouched fp rp.reverse = false := by
      cases hc : isTouched fp rp.reverse with
      | false => rfl
      | true =>
        simp only [isTouched, List.any_eq_true] at hc
        obtain ⟨q, hq, he⟩ := hc
        have := hd q hq
        simp at he; subst he
        simp [onBranch, isPrefixOf_append_self] at this
    rw [frameV_eq] at h
    simp only [ht, Bool.false_eq_true, if_false] at h
    by_cases hr : reaches fp rp.reverse = true
    · simp only [hr, Bool.not_true, Bool.false_eq_true, if_false] at h
      rcases frameShape_cases h with hb | ⟨es, fs, rfl, hb, he, hn⟩ | ⟨xs, ys, rfl, hb, _⟩
      · cases hb; rfl
      · cases hb
        simp only [getKeys]
        cases hl : lookup k es with
        | none =>
          cases hl' : lookup k fs with
          | none => rfl
          | some w =>
            rcases newKeysOK_elim fp rp es fs hn k (by simp [hl']) with h' | h'
            · simp [hl] at h'
            · exfalso
              simp only [isTouched, List.any_eq_true] at h'
              obtain ⟨q, hq, he'⟩ := h'
              have := hd' q hq
              simp at he'; subst he'
              simp [onBranch, isPrefixOf_snoc] at this
        | some v =>
          have hv := (frameEs_iff fp rp es [] fs).1 he k v (by simp) hl
          cases hl' : lookup k fs with
          | none =>
            exfalso
            rw [hl'] at hv
            have h' := frameV_none hv
            simp only [isTouched, List.any_eq_true] at h'
            obtain ⟨q, hq, he'⟩ := h'
            have := hd' q hq
            simp at he'; subst he'
            simp [onBranch, isPrefixOf_snoc] at this
          | some w =>
            rw [hl'] at hv
            simp only [Option.bind]
            exact ih (pk k :: rp) v w hv hd'
      · cases hb; rfl
    · simp only [hr, Bool.not_false, if_true] at h
      have := (optBeq_iff _ _).1 h
      simp at this; subst this; rfl

/-- A frame makes every path that is not on a branch with a concerned path read the same. -/
theorem frameV_getKeys (fp : List Path) (a b : YVal) (h : frameV fp [] a (some b) = true) (ks : List Key)
    (hd : ∀ q ∈ fp, onBranch q (ks.map pk) = false) : getKeys b ks = getKeys a ks :=
  frameV_getKeys_aux fp ks [] a b h (by simpa using hd)

end AGH.C13
