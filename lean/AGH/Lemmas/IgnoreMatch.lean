/-
C08 lemmas: what the modelled rule matcher does for the commonest ignore rule,
`||domain^`, stated declaratively.
-/
import AGH.Model.Ignore
set_option linter.unusedSimpArgs false
set_option linter.unusedVariables false
namespace AGH.Ignore
open AGH AGH.Bytes

/-- The literal tokens of a byte string. -/
def lits (d : Bytes) : List Tok := d.map Tok.lit

theorem hostChar_not_sep {c : Nat} (h : isHostCharB c = true) : isSepB c = false := by
  simp only [isHostCharB, isSepB, Bool.or_eq_true] at h ⊢
  rcases h with ((h | h) | h) | h <;> simp [h]

/-- `d^` matched at the start of `s`: `s` begins with `d` (letter case aside) and
what follows is the end or a separator character. -/
theorem matchHere_lits_sep (d s : Bytes) :
    matchHere (lits d ++ [.sep]) false s = true ↔
      ∃ s1 rest, s = s1 ++ rest ∧ lower s1 = lower d ∧
        (rest = [] ∨ ∃ c r, rest = c :: r ∧ isSepB c = true) := by
  induction d generalizing s with
  | nil =>
    cases s with
    | nil =>
      simp only [lits, List.map_nil, List.nil_append, matchHere]
      constructor
      · intro _; exact ⟨[], [], rfl, rfl, Or.inl rfl⟩
      · intro _; rfl
    | cons c r =>
      simp only [lits, List.map_nil, List.nil_append, matchHere]
      constructor
      · intro h
        simp at h
        exact ⟨[], c :: r, rfl, rfl, Or.inr ⟨c, r, rfl, h⟩⟩
      · rintro ⟨s1, rest, hs, hl, hr⟩
        have : s1 = [] := by
          cases s1 with
          | nil => rfl
          | cons _ _ => simp [lower] at hl
        subst this
        simp at hs
        subst hs
        rcases hr with hr | ⟨c', r', hr, hsep⟩
        · cases hr
        · cases hr; simp [hsep]
  | cons b d ih =>
    cases s with
    | nil =>
      simp only [lits, List.map_cons, List.cons_append, matchHere]
      constructor
      · intro h; cases h
      · rintro ⟨s1, rest, hs, hl, _⟩
        have h1 : s1 = [] := by
          cases s1 with
          | nil => rfl
          | cons _ _ => simp at hs
        subst h1
        simp [lower] at hl
    | cons c r =>
      simp only [lits, List.map_cons, List.cons_append, matchHere, Bool.and_eq_true, beq_iff_eq]
      have ih' := ih r
      simp only [lits] at ih'
      rw [ih']
      constructor
      · rintro ⟨hc, s1, rest, hs, hl, hr⟩
        refine ⟨c :: s1, rest, by simp [hs], ?_, hr⟩
        simp only [lower, List.map_cons] at hl ⊢
        rw [hc, hl]
      · rintro ⟨s1, rest, hs, hl, hr⟩
        cases s1 with
        | nil => simp [lower] at hl
        | cons c1 s1' =>
          simp only [List.cons_append, List.cons.injEq] at hs
          obtain ⟨rfl, hs⟩ := hs
          simp only [lower, List.map_cons, List.cons.injEq] at hl
          exact ⟨hl.1, s1', rest, hs, by simpa [lower] using hl.2, hr⟩

/-- On a string of host-name characters `d^` can only end at the end. -/
theorem matchHere_lits_sep_host (d s : Bytes) (hs : s.all isHostCharB = true) :
    matchHere (lits d ++ [.sep]) false s = true ↔ lower s = lower d := by
  rw [matchHere_lits_sep]
  constructor
  · rintro ⟨s1, rest, rfl, hl, hr⟩
    rcases hr with rfl | ⟨c, r, rfl, hsep⟩
    · simpa using hl
    · exfalso
      have : isHostCharB c = true := by
        have := List.all_eq_true.mp hs c (by simp)
        exact this
      rw [hostChar_not_sep this] at hsep
      cases hsep
  · intro hl
    exact ⟨s, [], by simp, hl, Or.inl rfl⟩

/-- The optional subdomain prefix of `||`: a non-empty run of host characters
and a dot, then `f`. -/
theorem afterSubdomain_iff (f : Bytes → Bool) (s : Bytes) (n : Nat) :
    afterSubdomain f s n = true ↔
      ∃ p t, s = p ++ dot :: t ∧ p.all isHostCharB = true ∧ n + p.length ≥ 1 ∧ f t = true := by
  induction s generalizing n with
  | nil =>
    simp only [afterSubdomain]
    constructor
    · intro h; cases h
    · rintro ⟨p, t, h, _⟩
      cases p <;> simp at h
  | cons c rest ih =>
    simp only [afterSubdomain, Bool.and_eq_true, Bool.or_eq_true, beq_iff_eq, decide_eq_true_eq]
    rw [ih (n + 1)]
    constructor
    · rintro ⟨hc, (⟨⟨rfl, hn⟩, hf⟩ | ⟨p, t, rfl, hp, hn, hf⟩)⟩
      · exact ⟨[], rest, rfl, rfl, by simpa using hn, hf⟩
      · refine ⟨c :: p, t, rfl, ?_, ?_, hf⟩
        · simp [hc, hp]
        · simp; omega
    · rintro ⟨p, t, hs, hp, hn, hf⟩
      cases p with
      | nil =>
        simp only [List.nil_append, List.cons.injEq] at hs
        obtain ⟨rfl, rfl⟩ := hs
        refine ⟨by decide, Or.inl ⟨⟨rfl, by simpa using hn⟩, hf⟩⟩
      | cons c' p' =>
        simp only [List.cons_append, List.cons.injEq] at hs
        obtain ⟨rfl, rfl⟩ := hs
        simp only [List.all_cons, Bool.and_eq_true] at hp
        refine ⟨hp.1, Or.inr ⟨p', t, rfl, hp.2, ?_, hf⟩⟩
        simp at hn ⊢
        omega

/-- The compiled form of `||d^`. -/
def domainPat (d : Bytes) : Pat :=
  { startURL := true, startStr := false, endStr := false, body := lits d ++ [.sep] }

/-- `||d^` ignores exactly the domain `d` and its subdomains (on names made of
host-name characters, letter case aside). -/
theorem matchPat_domain (d host : Bytes) (hh : host.all isHostCharB = true) :
    matchPat (domainPat d) host = true ↔
      lower host = lower d ∨ ∃ p t, host = p ++ dot :: t ∧ p ≠ [] ∧ lower t = lower d := by
  simp only [matchPat, domainPat, if_true, Bool.or_eq_true]
  rw [matchHere_lits_sep_host d host hh, afterSubdomain_iff]
  constructor
  · rintro (h | ⟨p, t, rfl, hp, hn, hf⟩)
    · exact Or.inl h
    · right
      have ht : t.all isHostCharB = true := by
        simp only [List.all_append, List.all_cons, Bool.and_eq_true] at hh
        exact hh.2.2
      refine ⟨p, t, rfl, ?_, (matchHere_lits_sep_host d t ht).mp hf⟩
      intro hp0; subst hp0; simp at hn
  · rintro (h | ⟨p, t, rfl, hp, hl⟩)
    · exact Or.inl h
    · right
      have hh' := hh
      simp only [List.all_append, List.all_cons, Bool.and_eq_true] at hh'
      refine ⟨p, t, rfl, hh'.1, ?_, (matchHere_lits_sep_host d t hh'.2.2).mpr hl⟩
      cases p with
      | nil => exact absurd rfl hp
      | cons _ _ => simp

end AGH.Ignore

namespace AGH.Ignore
open AGH AGH.Bytes

/-- The text of the rule `||d^`. -/
def domainRule (d : Bytes) : Bytes := pipe :: pipe :: (d ++ [caret])

theorem hostChar_facts {c : Nat} (h : isHostCharB c = true) :
    c ≠ nl ∧ c ≠ star ∧ c ≠ caret ∧ c ≠ pipe ∧ isSpaceB c = false := by
  simp only [isHostCharB, isAlnumB, isLowerB, isUpperB, isDigitB, Bool.or_eq_true, Bool.and_eq_true,
    decide_eq_true_eq, beq_iff_eq, dash, dot] at h
  simp only [nl, star, caret, pipe, isSpaceB]
  refine ⟨?_, ?_, ?_, ?_, ?_⟩ <;> simp <;> omega

theorem hostChar_lowerB {c : Nat} (h : isHostCharB c = true) : isHostCharB (lowerB c) = true := by
  unfold lowerB
  by_cases hu : isUpperB c = true
  · rw [if_pos hu]
    simp only [isUpperB, Bool.and_eq_true, decide_eq_true_eq] at hu
    have : isLowerB (c + 32) = true := by
      simp only [isLowerB, Bool.and_eq_true, decide_eq_true_eq]; omega
    simp [isHostCharB, isAlnumB, this]
  · rw [if_neg hu]; exact h

theorem splitOn_no_nl (s : Bytes) (h : ∀ c ∈ s, c ≠ nl) : splitOn nl s = [s] := by
  induction s with
  | nil => rfl
  | cons b rest ih =>
    have hb : b ≠ nl := h b (by simp)
    have := ih (fun c hc => h c (by simp [hc]))
    simp [splitOn, hb, this]

theorem tokOf_hostChar {c : Nat} (h : isHostCharB c = true) : tokOf c = .lit c := by
  obtain ⟨_, h1, h2, _, _⟩ := hostChar_facts h
  simp [tokOf, h1, h2]

theorem map_tokOf_host (d : Bytes) (h : d.all isHostCharB = true) : d.map tokOf = lits d := by
  induction d with
  | nil => rfl
  | cons c rest ih =>
    simp only [List.all_cons, Bool.and_eq_true] at h
    simp [lits, tokOf_hostChar h.1]
    have := ih h.2
    simpa [lits] using this

theorem compilePattern_domain (d : Bytes) (h : d.all isHostCharB = true) :
    compilePattern (domainRule d) = domainPat d := by
  have hlast : (d ++ [caret]).getLast? = some caret := by simp
  simp only [compilePattern, domainRule, hasPrefix, domainPat]
  simp [hlast, pipe, caret, map_tokOf_host d h, tokOf, star]

theorem trim_domainRule (d : Bytes) : trim (domainRule d) = domainRule d := by
  have h1 : trimLeft (domainRule d) = domainRule d := by
    simp [trimLeft, domainRule, pipe, isSpaceB]
  have h2 : trimRight (domainRule d) = domainRule d := by
    simp [trimRight, domainRule, pipe, caret, isSpaceB, List.reverse_append]
  simp [trim, h1, h2]

theorem isDomainName_domainRule (d : Bytes) : isDomainName (domainRule d) = false := by
  unfold isDomainName
  by_cases hl : (domainRule d).length > 253
  · simp [hl]
  · simp [hl, domainRule, dnRun, dnStep, pipe, isLetterB, isLowerB, isUpperB, isDigitB]

theorem parseRule_domainRule (d : Bytes) (hne : d ≠ []) (h : d.all isHostCharB = true) :
    parseRule (domainRule d) = some (.net (domainPat d)) := by
  have hlen : ¬ (domainRule d).length < 3 := by
    cases d with
    | nil => exact absurd rfl hne
    | cons _ _ => simp [domainRule]
  have ht := trim_domainRule d
  have hd := isDomainName_domainRule d
  have hc := compilePattern_domain d h
  simp only [parseRule, ht]
  simp only [domainRule] at hlen hd hc ⊢
  simp only [pipe] at hd hc hlen
  have hlen' : ¬ (d.length + 1 + 1 + 1 < 3) := by omega
  simp [pipe, atSign, hasPrefix, hd, hc, hlen']

/-- The ignore list consisting of the single rule `||d^` (any letter case in the
rule) ignores exactly `d` and its subdomains. -/
theorem has_domainRule (d host : Bytes) (hne : d ≠ []) (hd : d.all isHostCharB = true)
    (hh : host.all isHostCharB = true) :
    has [domainRule d] host = true ↔
      host ≠ [] ∧ (lower host = lower d ∨ ∃ p t, host = p ++ dot :: t ∧ p ≠ [] ∧ lower t = lower d) := by
  have hld : (lower d).all isHostCharB = true := by
    simp only [lower, List.all_map, List.all_eq_true] at hd ⊢
    intro c hc
    exact hostChar_lowerB (hd c hc)
  have hlne : lower d ≠ [] := by
    cases d with
    | nil => exact absurd rfl hne
    | cons _ _ => simp [lower]
  have hlow : lower (domainRule d) = domainRule (lower d) := by
    simp [lower, domainRule, lowerB, isUpperB, pipe, caret]
  have hnl : ∀ c ∈ domainRule (lower d), c ≠ nl := by
    intro c hc
    simp only [domainRule, List.mem_cons, List.mem_append, List.mem_nil_iff, or_false] at hc
    rcases hc with rfl | rfl | hc | rfl
    · decide
    · decide
    · exact (hostChar_facts (List.all_eq_true.mp hld c hc)).1
    · decide
  have hcomp : compile [domainRule d] = [.net (domainPat (lower d))] := by
    simp only [compile, joinWith, hlow, splitOn_no_nl _ hnl, List.filterMap_cons, List.filterMap_nil,
      parseRule_domainRule (lower d) hlne hld]
  simp only [has, hcomp, List.any_cons, List.any_nil, Bool.or_false, matchRule, Bool.and_eq_true,
    bne_iff_ne, ne_eq]
  rw [matchPat_domain (lower d) host hh, lower_idem]

end AGH.Ignore
