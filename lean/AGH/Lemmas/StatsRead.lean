/-
C09 helper lemmas about the read path (state-universal): `accum`,
`fillSeries`, `dataFromUnits`, `loadUnits`, `getData` never fail and relate
series to totals.
-/
import AGH.Lemmas.StatsBasic
namespace AGH.C09

theorem addAt_ok (acc : List Nat) (k x : Nat) (h : k < acc.length) :
    ∃ a, addAt acc k x = some a ∧ a.length = acc.length ∧ a.sum = acc.sum + x := by
  induction acc generalizing k with
  | nil => simp at h
  | cons b rest ih =>
    cases k with
    | zero => exact ⟨(b + x) :: rest, by simp [addAt], by simp, by simp; omega⟩
    | succ k =>
      have hk : k < rest.length := by simpa using h
      obtain ⟨a, h1, h2, h3⟩ := ih k hk
      exact ⟨b :: a, by simp [addAt, h1], by simp [h2], by simp [h3]; omega⟩

theorem addAt_append (pre rest : List Nat) (a x : Nat) :
    addAt (pre ++ a :: rest) pre.length x = some (pre ++ (a + x) :: rest) := by
  induction pre with
  | nil => simp [addAt]
  | cons b pre ih => simp [addAt, ih]

/-- Every slot in range ⇒ the loop finishes and adds exactly the values. -/
theorem accum_ok (f : UnitDB → Nat) (slot : Nat → Nat) (us : List UnitDB) (i : Nat) (acc : List Nat)
    (h : ∀ j, i ≤ j → j < i + us.length → slot j < acc.length) :
    ∃ a, accum f slot us i acc = .ok a ∧ a.length = acc.length ∧ a.sum = acc.sum + (us.map f).sum := by
  induction us generalizing i acc with
  | nil => exact ⟨acc, by simp [accum], rfl, by simp⟩
  | cons u us ih =>
    have h0 : slot i < acc.length := h i (Nat.le_refl _) (by simp)
    obtain ⟨a1, e1, l1, s1⟩ := addAt_ok acc (slot i) (f u) h0
    have h' : ∀ j, i + 1 ≤ j → j < i + 1 + us.length → slot j < a1.length := by
      intro j hj1 hj2
      rw [l1]
      exact h j (by omega) (by simp; omega)
    obtain ⟨a, e2, l2, s2⟩ := ih (i + 1) a1 h'
    refine ⟨a, by simp [accum, e1, e2], by omega, ?_⟩
    simp [s2, s1]; omega

/-- The hourly loop writes `f u` into consecutive slots. -/
theorem accum_id (f : UnitDB → Nat) (us : List UnitDB) (pre : List Nat) :
    accum f id us pre.length (pre ++ List.replicate us.length 0) = .ok (pre ++ us.map f) := by
  induction us generalizing pre with
  | nil => simp [accum]
  | cons u us ih =>
    have := ih (pre ++ [f u])
    simp only [List.length_cons, List.replicate_succ, accum, id, addAt_append]
    simp only [List.length_append, List.length_cons, List.length_nil, List.append_assoc,
      List.cons_append, List.nil_append] at this
    simpa using this

theorem sum_replicate_zero (n : Nat) : (List.replicate n 0).sum = 0 := by
  induction n with
  | zero => rfl
  | succ n ih => simp [List.replicate_succ, ih]

theorem sum_drop_le (l : List Nat) (k : Nat) : (l.drop k).sum ≤ l.sum := by
  induction l generalizing k with
  | nil => simp
  | cons a l ih =>
    cases k with
    | zero => simp
    | succ k => have := ih k; simp; omega

theorem countHours_le (cur d : Nat) (hd : 1 ≤ d) : countHours cur d ≤ d * 24 := by
  simp only [countHours]
  split <;> omega

theorem fillSeries_hours (f : UnitDB → Nat) (units : List UnitDB) (cur : Nat) (h : ¬ units.length / 24 > 7) :
    fillSeries f units cur = .ok (false, units.map f) := by
  have := accum_id f units []
  simp only [List.length_nil, List.nil_append] at this
  simp [fillSeries, h, this]

theorem fillSeries_days (f : UnitDB → Nat) (units : List UnitDB) (cur : Nat) (h : units.length / 24 > 7) :
    ∃ a, fillSeries f units cur = .ok (true, a) ∧ a.length = units.length / 24 ∧
      a.sum ≤ (units.map f).sum := by
  have hc := countHours_le cur (units.length / 24) (by omega)
  have hlen : ¬ countHours cur (units.length / 24) > units.length := by
    have : units.length / 24 * 24 ≤ units.length := Nat.div_mul_le_self ..
    omega
  have hslot : ∀ j, 0 ≤ j →
      j < 0 + (units.drop (units.length - countHours cur (units.length / 24))).length →
      j / 24 < (List.replicate (units.length / 24) 0).length := by
    intro j _ hj
    simp only [List.length_drop, List.length_replicate] at *
    omega
  obtain ⟨a, e, l, s⟩ := accum_ok f (· / 24) _ 0 (List.replicate (units.length / 24) 0) hslot
  refine ⟨a, ?_, by simpa using l, ?_⟩
  · simp only [fillSeries, h, if_true, hlen, if_false, e]
  · rw [s, sum_replicate_zero, List.map_drop]
    have := sum_drop_le (units.map f) (units.length - countHours cur (units.length / 24))
    omega

/-- What the loop adds into slot `j`: the values of the units whose position
(counted from `i`) is mapped to `j`. -/
def slotSum (f : UnitDB → Nat) (slot : Nat → Nat) : List UnitDB → Nat → Nat → Nat
  | [], _, _ => 0
  | u :: us, i, j => (if slot i = j then f u else 0) + slotSum f slot us (i + 1) j

theorem addAt_getD (acc : List Nat) (k x : Nat) (a : List Nat) (h : addAt acc k x = some a) (j : Nat) :
    a.getD j 0 = acc.getD j 0 + (if k = j then x else 0) := by
  induction acc generalizing k j a with
  | nil => simp [addAt] at h
  | cons b rest ih =>
    cases k with
    | zero =>
      simp only [addAt, Option.some.injEq] at h
      subst h
      cases j <;> simp
    | succ k =>
      simp only [addAt, Option.map_eq_some_iff] at h
      obtain ⟨a', ha', rfl⟩ := h
      cases j with
      | zero => simp
      | succ j =>
        have := ih k a' ha' j
        simp only [List.getD_cons_succ, this]
        by_cases hkj : k = j <;> simp [hkj]

theorem accum_slots (f : UnitDB → Nat) (slot : Nat → Nat) (us : List UnitDB) (i : Nat) (acc a : List Nat)
    (h : accum f slot us i acc = .ok a) (j : Nat) :
    a.getD j 0 = acc.getD j 0 + slotSum f slot us i j := by
  induction us generalizing i acc with
  | nil => simp only [accum, Except.ok.injEq] at h; subst h; simp [slotSum]
  | cons u us ih =>
    simp only [accum] at h
    cases h1 : addAt acc (slot i) (f u) with
    | none => simp [h1] at h
    | some a1 =>
      simp only [h1] at h
      rw [ih (i + 1) a1 h, addAt_getD acc (slot i) (f u) a1 h1 j]
      simp only [slotSum]
      omega

theorem getD_replicate_zero (n j : Nat) : (List.replicate n 0).getD j 0 = 0 := by
  induction n generalizing j with
  | zero => simp
  | succ n ih =>
    cases j with
    | zero => simp [List.replicate_succ]
    | succ j => have := ih j; simpa [List.replicate_succ] using this

theorem sum_take_drop (l : List Nat) (k : Nat) : (l.take k).sum + (l.drop k).sum = l.sum := by
  induction l generalizing k with
  | nil => simp
  | cons a l ih =>
    cases k with
    | zero => simp
    | succ k => have := ih k; simp; omega

/-- The daily series, exactly: it is filled from the last `countHours` units
(the day-aligned tail), position `p` of the tail goes to day `p / 24`; what is
missing from the total is exactly the head that was skipped. -/
theorem fillSeries_days_exact (f : UnitDB → Nat) (units : List UnitDB) (cur : Nat) (h : units.length / 24 > 7) :
    ∃ a, fillSeries f units cur = .ok (true, a) ∧ a.length = units.length / 24 ∧
      a.sum + ((units.take (units.length - countHours cur (units.length / 24))).map f).sum = (units.map f).sum ∧
      ∀ j, a.getD j 0 =
        slotSum f (· / 24) (units.drop (units.length - countHours cur (units.length / 24))) 0 j := by
  have hc := countHours_le cur (units.length / 24) (by omega)
  have hlen : ¬ countHours cur (units.length / 24) > units.length := by
    have : units.length / 24 * 24 ≤ units.length := Nat.div_mul_le_self ..
    omega
  have hslot : ∀ j, 0 ≤ j →
      j < 0 + (units.drop (units.length - countHours cur (units.length / 24))).length →
      j / 24 < (List.replicate (units.length / 24) 0).length := by
    intro j _ hj
    simp only [List.length_drop, List.length_replicate] at *
    omega
  obtain ⟨a, e, l, s⟩ := accum_ok f (· / 24) _ 0 (List.replicate (units.length / 24) 0) hslot
  refine ⟨a, ?_, by simpa using l, ?_, ?_⟩
  · simp only [fillSeries, h, if_true, hlen, if_false, e]
  · rw [s, sum_replicate_zero, List.map_drop, List.map_take]
    have := sum_take_drop (units.map f) (units.length - countHours cur (units.length / 24))
    omega
  · intro j
    rw [accum_slots f (· / 24) _ 0 _ a e j, getD_replicate_zero]
    omega

/-- The series of an answer are the results of `fillSeries`. -/
theorem dataFromUnits_series (units : List UnitDB) (cur : Nat) (r : Resp) (h : dataFromUnits units cur = .ok r) :
    fillSeries (·.nTotal) units cur = .ok (r.days, r.dnsQueries) ∧
    (∃ d, fillSeries (·.nResult 2) units cur = .ok (d, r.blockedFiltering)) ∧
    (∃ d, fillSeries (·.nResult 3) units cur = .ok (d, r.replacedSafebrowsing)) ∧
    (∃ d, fillSeries (·.nResult 5) units cur = .ok (d, r.replacedParental)) := by
  simp only [dataFromUnits, bind, Except.bind, pure, Except.pure] at h
  cases h1 : fillSeries (·.nTotal) units cur with
  | error e => simp [h1] at h
  | ok p1 =>
    cases h2 : fillSeries (·.nResult 2) units cur with
    | error e => simp [h1, h2] at h
    | ok p2 =>
      cases h3 : fillSeries (·.nResult 3) units cur with
      | error e => simp [h1, h2, h3] at h
      | ok p3 =>
        cases h4 : fillSeries (·.nResult 5) units cur with
        | error e => simp [h1, h2, h3, h4] at h
        | ok p4 =>
          simp only [h1, h2, h3, h4, Except.ok.injEq] at h
          subst h
          exact ⟨rfl, ⟨_, rfl⟩, ⟨_, rfl⟩, ⟨_, rfl⟩⟩

/-- `dataFromUnits` never fails; totals are the sums over the units; hourly
series are the per-unit values in order; daily series never exceed the totals. -/
theorem dataFromUnits_spec (units : List UnitDB) (cur : Nat) :
    ∃ r, dataFromUnits units cur = .ok r ∧
      r.numDNSQueries = sumBy (·.nTotal) units ∧
      r.numBlockedFiltering = sumBy (·.nResult 2) units ∧
      r.numReplacedSafebrowsing = sumBy (·.nResult 3) units ∧
      r.numReplacedSafesearch = sumBy (·.nResult 4) units ∧
      r.numReplacedParental = sumBy (·.nResult 5) units ∧
      (r.days = (decide (units.length / 24 > 7))) ∧
      (r.days = false →
        r.dnsQueries = units.map (·.nTotal) ∧ r.blockedFiltering = units.map (·.nResult 2) ∧
        r.replacedSafebrowsing = units.map (·.nResult 3) ∧ r.replacedParental = units.map (·.nResult 5)) ∧
      (r.days = true →
        r.dnsQueries.sum ≤ r.numDNSQueries ∧ r.blockedFiltering.sum ≤ r.numBlockedFiltering ∧
        r.replacedSafebrowsing.sum ≤ r.numReplacedSafebrowsing ∧ r.replacedParental.sum ≤ r.numReplacedParental ∧
        r.dnsQueries.length = units.length / 24) := by
  by_cases h : units.length / 24 > 7
  · obtain ⟨a1, e1, l1, s1⟩ := fillSeries_days (·.nTotal) units cur h
    obtain ⟨a2, e2, _, s2⟩ := fillSeries_days (·.nResult 2) units cur h
    obtain ⟨a3, e3, _, s3⟩ := fillSeries_days (·.nResult 3) units cur h
    obtain ⟨a4, e4, _, s4⟩ := fillSeries_days (·.nResult 5) units cur h
    refine ⟨_, by simp only [dataFromUnits, e1, e2, e3, e4, bind, Except.bind, pure, Except.pure]; rfl,
      rfl, rfl, rfl, rfl, rfl, by simp [h], by simp, ?_⟩
    intro _
    exact ⟨s1, s2, s3, s4, l1⟩
  · refine ⟨_, by simp only [dataFromUnits, fillSeries_hours _ units cur h, bind, Except.bind, pure, Except.pure]; rfl,
      rfl, rfl, rfl, rfl, rfl, by simp [h], ?_, by simp⟩
    intro _
    exact ⟨rfl, rfl, rfl, rfl⟩

/-- The `limit - 1` stored units that `loadUnits` reads, oldest first. -/
def storedUnits (s : State) (limit : Nat) : List UnitDB :=
  (List.range (sub32 s.curr.id (add32 (sub32 s.curr.id limit) 1))).map
    fun k => (s.db.get (add32 (add32 (sub32 s.curr.id limit) 1) k)).getD UnitDB.empty

/-- `loadUnits` returns exactly `limit` units for every current hour and limit
(including ids where `curID - limit + 1` wraps): the "should not happen" panic
is unreachable. -/
theorem loadUnits_ok (s : State) (limit : Nat) (hid : s.curr.id < U32) (hl1 : 1 ≤ limit) (hl2 : limit < U32) :
    loadUnits s limit = .ok (storedUnits s limit ++ [s.curr.serialize], s.curr.id) ∧
    (storedUnits s limit ++ [s.curr.serialize]).length = limit := by
  have hcount : sub32 s.curr.id (add32 (sub32 s.curr.id limit) 1) = limit - 1 := by
    simp only [sub32, add32, U32] at *; omega
  have hlen : (storedUnits s limit ++ [s.curr.serialize]).length = limit := by
    simp only [storedUnits, List.length_append, List.length_map, List.length_range, hcount,
      List.length_cons, List.length_nil]
    omega
  refine ⟨?_, hlen⟩
  unfold loadUnits
  simp only [storedUnits] at hlen ⊢
  simp [hlen]

/-- `loadUnits` only looks at the current unit and at the buckets of the hours
`cur+1-L … cur-1` (no wrap: `L + 1 ≤ cur`). -/
theorem loadUnits_congr (s1 s2 : State) (L : Nat) (hc : s1.curr = s2.curr) (hid : s1.curr.id < U32)
    (hL1 : 1 ≤ L) (hL2 : L + 1 ≤ s1.curr.id)
    (hget : ∀ h, s1.curr.id + 1 - L ≤ h → h < s1.curr.id → s1.db.get h = s2.db.get h) :
    loadUnits s1 L = loadUnits s2 L := by
  unfold loadUnits
  rw [← hc]
  have hs : sub32 s1.curr.id L = s1.curr.id - L := sub32_eq (by omega) hid
  have ha : add32 (s1.curr.id - L) 1 = s1.curr.id + 1 - L := by
    rw [add32_eq (by simp only [U32] at *; omega)]; omega
  have hn : sub32 s1.curr.id (s1.curr.id + 1 - L) = L - 1 := by
    rw [sub32_eq (by omega) hid]; omega
  simp only [hs, ha, hn]
  have : (List.range (L - 1)).map (fun k => (s1.db.get (add32 (s1.curr.id + 1 - L) k)).getD UnitDB.empty) =
      (List.range (L - 1)).map (fun k => (s2.db.get (add32 (s1.curr.id + 1 - L) k)).getD UnitDB.empty) := by
    apply List.map_congr_left
    intro k hk
    have hk' : k < L - 1 := List.mem_range.mp hk
    have hadd : add32 (s1.curr.id + 1 - L) k = s1.curr.id + 1 - L + k := by
      rw [add32_eq (by simp only [U32] at *; omega)]
    rw [hadd, hget _ (by omega) (by omega)]
  rw [this]

theorem getData_congr (s1 s2 : State) (hl : s1.limitHours = s2.limitHours)
    (hload : loadUnits s1 s1.limitHours = loadUnits s2 s1.limitHours) : getData s1 = getData s2 := by
  unfold getData
  simp only [← hl, hload]

end AGH.C09
