/-
C09: preservation of the invariant by updates, hour advances and restarts,
and the invariant of a fresh start.
-/
import AGH.Lemmas.StatsInv
namespace AGH.C09

/-! ### updates -/

theorem update_acc (s : State) (e : Entry) (hen : s.enabled = true) (hl : s.limit ≠ 0)
    (hv : e.valid = true) (hr : 0 ≤ e.result) :
    ∃ s', update s e = .ok s' ∧ s'.db = s.db ∧ s'.limit = s.limit ∧ s'.enabled = s.enabled ∧
      s'.clock = s.clock ∧ s'.curr.id = s.curr.id ∧ s'.curr.nTotal = s.curr.nTotal + 1 ∧
      ∀ i, s'.curr.nResult i = s.curr.nResult i + (if i = e.result.toNat then 1 else 0) := by
  have hr6 : ¬ e.result ≥ 6 := by
    intro h6
    simp only [Entry.valid] at hv
    split at hv
    · cases hv
    · simp at hv
  have hadd : ¬ (e.result < 0 ∨ e.result ≥ 6) := by omega
  refine ⟨{ s with curr := { s.curr with
      nResult := fun i => if i = e.result.toNat then s.curr.nResult i + 1 else s.curr.nResult i
      nTotal := s.curr.nTotal + 1 } }, ?_, rfl, rfl, rfl, rfl, rfl, rfl, ?_⟩
  · simp only [update, hen, hv, MemUnit.add, hadd]
    simp [hl]
  · intro i
    by_cases hi : i = e.result.toNat <;> simp [hi]

theorem updateN_acc (s : State) (e : Entry) (n : Nat) (hen : s.enabled = true) (hl : s.limit ≠ 0)
    (hv : e.valid = true) (hr : 0 ≤ e.result) :
    ∃ s', updateN s e n = (s', 0) ∧ s'.db = s.db ∧ s'.limit = s.limit ∧ s'.enabled = s.enabled ∧
      s'.clock = s.clock ∧ s'.curr.id = s.curr.id ∧ s'.curr.nTotal = s.curr.nTotal + n ∧
      ∀ i, s'.curr.nResult i = s.curr.nResult i + (if i = e.result.toNat then n else 0) := by
  induction n generalizing s with
  | zero => exact ⟨s, rfl, rfl, rfl, rfl, rfl, rfl, rfl, by simp⟩
  | succ n ih =>
    obtain ⟨s1, e1, d1, l1, en1, c1, i1, t1, r1⟩ := update_acc s e hen hl hv hr
    obtain ⟨s2, e2, d2, l2, en2, c2, i2, t2, r2⟩ := ih s1 (by rw [en1]; exact hen) (by rw [l1]; exact hl)
    refine ⟨s2, by simp [updateN, e1, e2], by rw [d2, d1], by rw [l2, l1], by rw [en2, en1], by rw [c2, c1],
      by rw [i2, i1], by rw [t2, t1]; omega, ?_⟩
    intro i
    rw [r2, r1]
    by_cases hi : i = e.result.toNat <;> simp [hi]; omega

/-- An update the property does not count leaves the state alone (it may panic). -/
theorem update_not_counted (s : State) (e : Entry)
    (h : (s.enabled && decide (1 ≤ e.result) && decide (e.result ≤ 5) && !e.domainEmpty && !e.clientEmpty) = false) :
    update s e = .ok s ∨ ∃ f, update s e = .error f := by
  unfold update
  by_cases hen : s.enabled = true
  · by_cases hl : s.limit = 0
    · left; simp [hl]
    · by_cases hv : e.valid = true
      · -- valid but not counted: the result is negative
        have hneg : e.result < 0 := by
          simp only [Entry.valid] at hv
          split at hv
          · cases hv
          · split at hv
            · cases hv
            · split at hv
              · cases hv
              · split at hv
                · cases hv
                · rename_i h0 h6 hd hc
                  simp only [hen, Bool.true_and, hd, hc] at h
                  simp at h0 h6 h
                  omega
        right
        simp [hen, hl, hv, MemUnit.add, hneg]
      · left
        have : e.valid = false := by simpa using hv
        simp [hen, hl, this]
  · left
    have : s.enabled = false := by simpa using hen
    simp [this]

theorem updateN_not_counted (s : State) (e : Entry) (n : Nat)
    (h : (s.enabled && decide (1 ≤ e.result) && decide (e.result ≤ 5) && !e.domainEmpty && !e.clientEmpty) = false) :
    (updateN s e n).1 = s := by
  induction n with
  | zero => rfl
  | succ n ih =>
    rcases update_not_counted s e h with h1 | ⟨f, h1⟩
    · simp [updateN, h1, ih]
    · simp [updateN, h1, ih]

theorem counted_valid {g : Ghost} {e : Entry} (h : counted g e = true) :
    g.enabled = true ∧ e.valid = true ∧ 1 ≤ e.result ∧ e.result ≤ 5 := by
  simp only [counted, Bool.and_eq_true, decide_eq_true_eq, Bool.not_eq_true'] at h
  obtain ⟨⟨⟨⟨h1, h2⟩, h3⟩, h4⟩, h5⟩ := h
  refine ⟨h1, ?_, h2, h3⟩
  have h0 : ¬ e.result = 0 := by omega
  have h6 : ¬ e.result ≥ 6 := by omega
  simp [Entry.valid, h0, h6, h4, h5]

theorem upperAt_cons (g : Ghost) (e : Ev) (h : Nat) (sel : Sel) :
    upperAt { g with evs := e :: g.evs } h sel =
      (if (e.hour == h && sel.sees e) = true then e.n else 0) + upperAt g h sel := rfl

theorem lowerAt_cons (g : Ghost) (e : Ev) (h : Nat) (sel : Sel) :
    lowerAt { g with evs := e :: g.evs } h sel =
      (if (e.kept && e.hour == h && sel.sees e) = true then e.n else 0) + lowerAt g h sel := rfl

theorem inv_upd {g : Ghost} {s : State} (hi : Inv g s) (e : Entry) (n : Nat) :
    Inv (ghostStep g (.upd e n)) (updateN s e n).1 := by
  by_cases hc : counted g e = true
  · obtain ⟨hen, hv, h1, h5⟩ := counted_valid hc
    have hl : s.limit ≠ 0 := by
      have := (validIvl_iff s.limit).mp hi.ivl
      omega
    obtain ⟨s', e1, d1, l1, en1, c1, i1, t1, r1⟩ :=
      updateN_acc s e n (by rw [hi.en]; exact hen) hl hv (by omega)
    simp only [ghostStep, hc, if_true, e1]
    have hlim := hi.limit_range
    have hval : ∀ sel : Sel, sel.val s'.curr.serialize =
        sel.val s.curr.serialize + (if sel.sees ⟨g.now, e.result.toNat, n, true⟩ = true then n else 0) := by
      intro sel
      cases sel with
      | total => simp [Sel.val, MemUnit.serialize, Sel.sees, t1]
      | cat c =>
        simp only [Sel.val, MemUnit.serialize, Sel.sees, r1]
        by_cases hcc : c = e.result.toNat
        · simp [hcc]
        · have : ¬ e.result.toNat = c := fun h => hcc h.symm
          simp [hcc, this]
    refine { clock := by rw [c1]; exact hi.clock, nowClock := hi.nowClock, chi := hi.chi, cur := by rw [i1]; exact hi.cur,
             lim := by simp only [State.limitHours, l1]; exact hi.lim, ivl := by rw [l1]; exact hi.ivl,
             en := by rw [en1]; exact hi.en, lo := hi.lo, hi := hi.hi,
             evHour := ?_, evKept := ?_, dbUp := ?_, curUp := ?_, curLo := ?_, dbLo := ?_ }
    · intro e' he'
      rcases List.mem_cons.mp he' with rfl | he'
      · exact Nat.le_refl _
      · exact hi.evHour e' he'
    · intro e' he' hk
      rcases List.mem_cons.mp he' with rfl | he'
      · simp only [inWindow, Bool.and_eq_true, decide_eq_true_eq]
        exact ⟨Nat.le_refl _, by omega⟩
      · exact hi.evKept e' he' hk
    · intro k v hkv
      rw [d1] at hkv
      refine ⟨(hi.dbUp k v hkv).1, fun sel => ?_⟩
      rw [upperAt_cons]
      have := (hi.dbUp k v hkv).2 sel
      omega
    · intro sel
      rw [upperAt_cons, hval]
      have := hi.curUp sel
      simp only [beq_self_eq_true, Bool.true_and]
      omega
    · intro sel
      rw [lowerAt_cons, hval]
      have := hi.curLo sel
      simp only [beq_self_eq_true, Bool.true_and]
      omega
    · intro h hh sel
      rw [lowerAt_cons, d1]
      have := hi.dbLo h hh sel
      have hne : (g.now == h) = false := by simpa using fun h' => hh h'.symm
      simp only [hne, Bool.and_false, Bool.false_and]
      simpa using this
  · have hc' : counted g e = false := by simpa using hc
    have : (updateN s e n).1 = s := by
      apply updateN_not_counted
      rw [hi.en]
      exact hc'
    simp only [ghostStep, hc', this]
    exact hi

/-! ### the clock moves (tick, restart) -/

/-- Common part of `tick` and `restart`: the clock shows `id ≥ now`, the limit
may change, the new file contains nothing but old buckets and the old current
unit, and still has everything inside the new window. -/
theorem inv_move {g : Ghost} {s s' : State} (hi : Inv g s) (id ms : Nat) (en d : Bool)
    (hid : g.now ≤ id) (hid2 : id < U32) (hv : validIvl ms = true)
    (hclock : s'.clock = id) (hcur : s'.curr.id = id) (hlim : s'.limit = ms) (hen : s'.enabled = en)
    (hM : ∀ k v, (k, v) ∈ s'.db → (k, v) ∈ s.db ∨ (k, v) = (g.now, s.curr.serialize))
    (hC : s'.curr.serialize = if id = g.now then s.curr.serialize else UnitDB.empty)
    (hG : ∀ h, h ≠ id → inWindow id (ms / msPerHour) h = true →
      s'.db.get h = if h = g.now then some s.curr.serialize else s.db.get h) :
    Inv { evs := rekeep (inWindow id (ms / msPerHour)) g.evs, now := id, clock := id, limit := ms / msPerHour,
          enabled := en, dom := d } s' := by
  have hup : ∀ (h : Nat) (sel : Sel),
      upperAt { evs := rekeep (inWindow id (ms / msPerHour)) g.evs, now := id, clock := id, limit := ms / msPerHour,
                enabled := en, dom := d } h sel = upperAt g h sel := by
    intro h sel; simp only [upperAt]; exact upAt_rekeep ..
  have hlo : ∀ (h : Nat) (sel : Sel),
      lowerAt { evs := rekeep (inWindow id (ms / msPerHour)) g.evs, now := id, clock := id, limit := ms / msPerHour,
                enabled := en, dom := d } h sel ≤ lowerAt g h sel := by
    intro h sel; simp only [lowerAt]; exact loAt_rekeep_le ..
  refine { clock := hclock, nowClock := Nat.le_refl _, chi := hid2, cur := hcur,
           lim := by simp only [State.limitHours, hlim], ivl := by rw [hlim]; exact hv,
           en := hen, lo := Nat.le_trans hi.lo hid, hi := hid2,
           evHour := ?_, evKept := ?_, dbUp := ?_, curUp := ?_, curLo := ?_, dbLo := ?_ }
  · intro e' he'
    obtain ⟨e, he, h1, _⟩ := mem_rekeep he'
    rw [h1]; exact Nat.le_trans (hi.evHour e he) hid
  · intro e' he' hk
    obtain ⟨e, he, h1, h2⟩ := mem_rekeep he'
    rw [h2, Bool.and_eq_true] at hk
    rw [h1]; exact hk.2
  · intro k v hkv
    rcases hM k v hkv with hm | hm
    · refine ⟨Nat.le_trans (hi.dbUp k v hm).1 hid, fun sel => ?_⟩
      rw [hup]; exact (hi.dbUp k v hm).2 sel
    · simp only [Prod.mk.injEq] at hm
      obtain ⟨rfl, rfl⟩ := hm
      refine ⟨hid, fun sel => ?_⟩
      rw [hup]; exact hi.curUp sel
  · intro sel
    rw [hup, hC]
    by_cases hsame : id = g.now
    · simp only [hsame, if_true]; exact hi.curUp sel
    · simp only [hsame, if_false]
      cases sel <;> simp [Sel.val, UnitDB.empty]
  · intro sel
    rw [hC]
    by_cases hsame : id = g.now
    · simp only [hsame, if_true]
      have := hlo g.now sel
      rw [hsame] at this
      exact Nat.le_trans (hsame ▸ hlo id sel) (hsame ▸ hi.curLo sel)
    · simp only [hsame, if_false]
      have : lowerAt { evs := rekeep (inWindow id (ms / msPerHour)) g.evs, now := id, clock := id, limit := ms / msPerHour,
                       enabled := en, dom := d } id sel = 0 := by
        apply Nat.eq_zero_of_le_zero
        refine Nat.le_trans (hlo id sel) ?_
        apply Nat.le_of_eq
        unfold lowerAt
        apply cnt_false
        intro e he
        have := hi.evHour e he
        have hne : ¬ e.hour = id := by omega
        simp [hne]
      rw [this]; exact Nat.zero_le _
  · intro h hh sel
    by_cases hw : inWindow id (ms / msPerHour) h = true
    · rw [hG h hh hw]
      refine Nat.le_trans (hlo h sel) ?_
      by_cases hn : h = g.now
      · simp only [hn, if_true, optVal]; exact hi.curLo sel
      · simp only [hn, if_false]; exact hi.dbLo h hn sel
    · have hw' : inWindow id (ms / msPerHour) h = false := by simpa using hw
      have : lowerAt { evs := rekeep (inWindow id (ms / msPerHour)) g.evs, now := id, clock := id, limit := ms / msPerHour,
                       enabled := en, dom := d } h sel = 0 := by
        simp only [lowerAt]; exact loAt_rekeep_zero _ _ _ _ hw'
      rw [this]; exact Nat.zero_le _

end AGH.C09
