/-
C06: the set of results the code can produce (over all tie-breakings of the
sort) depends only on the entries as a multiset, not on their order; and every
address returned comes from a most specific applicable entry.
-/
import AGH.Lemmas.RewritesTable
namespace AGH.C06
open AGH AGH.Bytes

/-- A sorter that answers like `s` did on `ref` whenever it is handed a
permutation of `ref`, and sorts stably otherwise. -/
def transportSort (s : Sorter) (ref : List Entry) (l : List Entry) : List Entry :=
  if l.Perm ref then s.sort ref else stableSort l

theorem transportSort_perm (s : Sorter) (ref l : List Entry) : (transportSort s ref l).Perm l := by
  unfold transportSort
  split
  · next h => exact (s.perm ref).trans h.symm
  · exact stableSort_perm l

theorem transportSort_sorted (s : Sorter) (ref l : List Entry) :
    (transportSort s ref l).Pairwise (fun a b => cmp a b ≤ 0) := by
  unfold transportSort
  split
  · exact s.sorted ref
  · exact stableSort_sorted l

def transport (s : Sorter) (ref : List Entry) : Sorter :=
  ⟨transportSort s ref, transportSort_perm s ref, transportSort_sorted s ref⟩

/-- If the two sides see the same `findRewrites` result at every name, the
loops run identically. -/
theorem chase_congr (s₁ s₂ : Bytes → Sorter) (t₁ t₂ : List Entry) (qt : Nat) (orig : Bytes)
    (hfind : ∀ host, findRewritesWith (s₁ host) t₁ host qt = findRewritesWith (s₂ host) t₂ host qt) :
    ∀ (fuel : Nat) (host : Bytes) (visited : List Bytes) (canon : Bytes),
      unvisited t₁ visited < fuel →
      chase s₁ t₁ qt orig host visited canon = chase s₂ t₂ qt orig host visited canon := by
  intro fuel
  induction fuel with
  | zero => intro _ _ _ h; omega
  | succ n ih =>
    intro host visited canon hf
    cases hl : (findRewritesWith (s₁ host) t₁ host qt).1 with
    | nil =>
      have hl₂ : (findRewritesWith (s₂ host) t₂ host qt).1 = [] := by rw [← hfind]; exact hl
      rw [chase_nil _ _ _ _ _ _ _ hl, chase_nil _ _ _ _ _ _ _ hl₂]
    | cons rw tl =>
      have hl₂ : (findRewritesWith (s₂ host) t₂ host qt).1 = rw :: tl := by rw [← hfind]; exact hl
      rw [chase_cons _ _ _ _ _ _ _ rw tl hl, chase_cons _ _ _ _ _ _ _ rw tl hl₂, ← hfind]
      by_cases hc : (findRewritesWith (s₁ host) t₁ host qt).2 = true ∧ rw.typ = .CNAME
      · rw [if_pos hc, if_pos hc]
        by_cases h1 : orig = rw.answer ∨ rw.domain = rw.answer
        · rw [if_pos h1, if_pos h1]
        · rw [if_neg h1, if_neg h1]
          by_cases h2 : host = rw.answer ∧ isWildcard rw.domain = true
          · rw [if_pos h2, if_pos h2]
          · rw [if_neg h2, if_neg h2]
            by_cases h3 : visited.contains rw.answer = true
            · rw [if_pos h3, if_pos h3]
            · rw [if_neg h3, if_neg h3]
              apply ih
              have hmem : rw ∈ t₁ :=
                findRewritesWith_subset (s₁ host) t₁ host qt rw (by rw [hl]; simp)
              have hvf : visited.contains rw.answer = false := by simpa using h3
              have := unvisited_lt t₁ visited rw hmem hvf
              omega
      · rw [if_neg hc, if_neg hc]

/-- Whatever the sort does on one order of the table, some sort does exactly
the same on any other order: the possible results do not depend on the order of
the entries. -/
theorem outcome_set_perm (s₁ : Bytes → Sorter) (t₁ t₂ : List Entry) (h : Bytes) (qt : Nat)
    (hp : t₁.Perm t₂) :
    ∃ s₂ : Bytes → Sorter, processRun s₂ t₂ h qt = processRun s₁ t₁ h qt := by
  refine ⟨fun host => transport (s₁ host) (candidates t₁ host qt), ?_⟩
  have hfind : ∀ host,
      findRewritesWith (s₁ host) t₁ host qt =
        findRewritesWith (transport (s₁ host) (candidates t₁ host qt)) t₂ host qt := by
    intro host
    have hcp : (candidates t₂ host qt).Perm (candidates t₁ host qt) := by
      unfold candidates; exact ((hp.filter _).filter _).symm
    have hany : t₁.any (matchesHost · host) = t₂.any (matchesHost · host) := any_eq_of_perm _ hp
    have hemp : (candidates t₁ host qt).isEmpty = (candidates t₂ host qt).isEmpty := by
      have := hcp.length_eq
      cases h1 : candidates t₁ host qt <;> cases h2 : candidates t₂ host qt <;> simp_all
    unfold findRewritesWith
    simp only [hany, hemp]
    split
    · rfl
    · simp [transport, transportSort, hcp]
  unfold processRun
  rw [← hfind h]
  split
  · rfl
  · exact (chase_congr s₁ _ t₁ t₂ qt h hfind (t₁.length + 1) h [] []
      (by have := unvisited_le t₁ []; omega)).symm

/-- Every address in the result is the address of one of the MOST SPECIFIC
address-kind entries that bear on the query at the finally resolved name. -/
theorem chase_ips_most_specific (srt : Bytes → Sorter) (tbl : List Entry) (qt : Nat) (orig : Bytes)
    (host : Bytes) (visited : List Bytes) (canon : Bytes) (ip : Bytes) :
    ip ∈ (chase srt tbl qt orig host visited canon).out.ips →
      ∃ e ∈ Spec.mostSpecific (specAddrs tbl (chase srt tbl qt orig host visited canon).final qt),
        Spec.value e qt = some ip := by
  -- at a name where an address-kind entry is first
  have key : ∀ (host canon' : Bytes) (rw : Entry) (tl : List Entry),
      (findRewritesWith (srt host) tbl host qt).1 = rw :: tl → rw.typ ≠ .CNAME →
      ip ∈ (setRewriteResult ⟨true, canon', []⟩ (rw :: tl) qt).ips →
      ∃ e ∈ Spec.mostSpecific (specAddrs tbl host qt), Spec.value e qt = some ip := by
    intro host canon' rw tl heq hne hip
    rcases setRewriteResult_ips _ _ qt ip hip with h | ⟨e, he, h1, h2, _⟩
    · cases h
    · have hval : Spec.value e qt = some ip := by simp [Spec.value, h2, h1]
      refine ⟨e, ?_, hval⟩
      rcases (find_view (srt host) tbl host qt).2 with ⟨_, hfr⟩ | ⟨a, rest, hsort, hfr, hamem, hmin⟩
      · rw [hfr] at heq; cases heq
      · obtain ⟨tl', htl⟩ := cut_cons_head a rest
        have hrw : rw = a := by
          rw [hfr, htl] at heq; exact (List.cons.inj heq).1.symm
        subst hrw
        have hno := no_cname_of_head (qt := qt) (host := host) hne hmin
        have hA : specAddrs tbl host qt = candidates tbl host qt := specAddrs_eq_candidates qt hno
        rw [hA]
        have hnoc : ∀ x ∈ tbl, matchesHost x host = true → x.typ ≠ .CNAME := by
          intro x hx hm hc
          have : x ∈ specCnames tbl host := mem_specCnames.mpr ⟨hx, hm, hc⟩
          rw [hno] at this; cases this
        have hein : e ∈ (findRewritesWith (srt host) tbl host qt).1 := by rw [heq]; exact he
        cases hw : isWildcard rw.domain
        · -- exact entries
          have hp := find_exact_perm (srt host) tbl host qt hnoc ⟨rw, hamem, hw⟩
          have hmem := hp.subset hein
          unfold Spec.mostSpecific
          simp only
          have hfe : (fun e => !Spec.isWild e) = (fun r : Entry => !isWildcard r.domain) := by
            funext x; rw [isWild_eq]
          rw [hfe]
          cases hl : (candidates tbl host qt).filter (fun r => !isWildcard r.domain) with
          | nil => rw [hl] at hmem; cases hmem
          | cons y ys => simp only [List.isEmpty_cons, Bool.false_eq_true, if_false]; rw [← hl]; exact hmem
        · -- the single most specific wildcard
          have hall : ∀ x ∈ candidates tbl host qt, isWildcard x.domain = true := by
            intro x hx
            cases hwx : isWildcard x.domain
            · have hk : (rw.typ = .CNAME ↔ x.typ = .CNAME) := by
                obtain ⟨m1, m2, _⟩ := mem_candidates.mp hx
                exact ⟨fun h => absurd h hne, fun h => absurd h (hnoc x m1 m2)⟩
              have := not_wild_of_le_not_wild (hmin x hx) hk hwx
              rw [hw] at this; cases this
            · rfl
          obtain ⟨w, hw1, hw2, hw3⟩ := find_wild_single (srt host) tbl host qt hnoc hall
            (by intro h; rw [h] at hamem; cases hamem)
          rw [hw1] at hein
          have : e = w := by simpa using hein
          subst this
          unfold Spec.mostSpecific
          simp only
          have hex : (candidates tbl host qt).filter (fun e => !Spec.isWild e) = [] := by
            rw [List.filter_eq_nil_iff]
            intro x hx
            simp [isWild_eq, hall x hx]
          rw [hex]
          simp only [List.isEmpty_nil, if_true, List.mem_filter, List.all_eq_true]
          exact ⟨hw2, fun f hf => by simpa using hw3 f hf⟩
  induction host, visited, canon using chase.induct srt tbl qt orig with
  | case1 host visited canon fr hnil =>
    rw [chase_nil _ _ _ _ _ _ _ hnil]; intro h; cases h
  | case2 host visited canon fr rw tl heq hc hexc =>
    rw [chase_cons _ _ _ _ _ _ _ rw tl heq, if_pos hc, if_pos hexc]; intro h; cases h
  | case3 host visited canon fr rw tl heq hc hexc hself =>
    rw [chase_cons _ _ _ _ _ _ _ rw tl heq, if_pos hc, if_neg hexc, if_pos hself]
    intro h
    -- the list is the single wildcard CNAME entry: no address
    have hcut : tl = [] := by
      rcases (find_view (srt host) tbl host qt).2 with ⟨_, hfr⟩ | ⟨a, rest, _, hfr, _, _⟩
      · rw [hfr] at heq; cases heq
      · have hh : cut (a :: rest) = rw :: tl := by rw [← hfr]; exact heq
        have ha : a = rw := by
          obtain ⟨tl', htl⟩ := cut_cons_head a rest
          rw [htl] at hh; exact (List.cons.inj hh).1
        subst ha
        simp [cut, hself.2] at hh
        exact hh
    subst hcut
    rcases setRewriteResult_ips _ _ qt ip h with h' | ⟨e, he, _, h2, h3⟩
    · cases h'
    · have : e = rw := by simpa using he
      subst this
      rw [hc.2] at h2
      simp [RType.code, qA, qAAAA] at h2 h3
      omega
  | case4 host visited canon fr rw tl heq hc hexc hself hv =>
    rw [chase_cons _ _ _ _ _ _ _ rw tl heq, if_pos hc, if_neg hexc, if_neg hself, if_pos hv]
    intro h; cases h
  | case5 host visited canon fr rw tl heq hc hexc hself hv ih =>
    rw [chase_cons _ _ _ _ _ _ _ rw tl heq, if_pos hc, if_neg hexc, if_neg hself, if_neg hv]
    exact ih
  | case6 host visited canon fr rw tl heq hc =>
    rw [chase_cons _ _ _ _ _ _ _ rw tl heq, if_neg hc]
    intro h
    have hm : (findRewritesWith (srt host) tbl host qt).2 = true := by
      rw [(find_view (srt host) tbl host qt).1, List.any_eq_true]
      have : rw ∈ candidates tbl host qt := find_mem_candidates _ _ _ _ rw (by rw [heq]; simp)
      obtain ⟨m1, m2, _⟩ := mem_candidates.mp this
      exact ⟨rw, m1, m2⟩
    have hne : rw.typ ≠ .CNAME := fun h' => hc ⟨hm, h'⟩
    exact key host canon rw tl heq hne h

/-- Pigeonhole: a duplicate-free list inside `m` is no longer than `m`. -/
theorem nodup_length_le {l m : List Bytes} (hn : l.Nodup) (hs : ∀ v ∈ l, v ∈ m) :
    l.length ≤ m.length := by
  induction l generalizing m with
  | nil => simp
  | cons x xs ih =>
    have hx : x ∈ m := hs x (by simp)
    have hnd := List.nodup_cons.mp hn
    have hsub : ∀ v ∈ xs, v ∈ m.erase x := by
      intro v hv
      have hne : v ≠ x := fun h => hnd.1 (h ▸ hv)
      exact (List.mem_erase_of_ne hne).mpr (hs v (List.mem_cons_of_mem _ hv))
    have := ih hnd.2 hsub
    rw [List.length_erase_of_mem hx] at this
    have hpos : 0 < m.length := List.length_pos_of_mem hx
    simp only [List.length_cons]
    omega

end AGH.C06
