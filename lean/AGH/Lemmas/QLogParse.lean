/-
Lemmas for C07: request parsing (`parseSearchParams` never lets a value
through that could fault; it accepts every well-formed request with the
meaning the spec gives it) and the criteria.  Core Lean only.
-/
import AGH.Lemmas.QLogSearch
import AGH.Spec.QLog
namespace AGH.C07
open AGH AGH.Bytes

def statusCrit (r : Req) : Option Criterion :=
  match parseStatus r with
  | some (some c) => some c
  | _ => none

theorem parseParams_inv (sd : Int) (r : Req) (p : Params) (h : parseParams sd r = some p) :
    parseOlder r = some p.olderThan ∧ parseLimit r = some p.limit ∧
    parseOffset sd r p.limit = some (p.offset, p.scan) ∧ parseStatus r ≠ some none ∧
    p.criteria = critList (parseTerm r) (statusCrit r) := by
  unfold parseParams at h
  cases ho : parseOlder r with
  | none => simp [ho] at h
  | some ot =>
    cases hl : parseLimit r with
    | none => simp [ho, hl] at h
    | some limit =>
      cases hf : parseOffset sd r limit with
      | none => simp [ho, hl, hf] at h
      | some os =>
        obtain ⟨off, scan⟩ := os
        cases hs : parseStatus r with
        | none =>
          simp only [ho, hl, hf, hs, Option.some.injEq] at h
          subst h
          simp [hf, statusCrit, hs]
        | some st =>
          cases st with
          | none => simp [ho, hl, hf, hs] at h
          | some c =>
            simp only [ho, hl, hf, hs, Option.some.injEq] at h
            subst h
            simp [hf, statusCrit, hs]

theorem parseLimit_range (r : Req) (l : Int) (h : parseLimit r = some l) : 0 ≤ l ∧ l ≤ maxInt := by
  unfold parseLimit at h
  split at h
  · split at h
    · cases h
    · simp only [Option.some.injEq] at h; subst h; omega
  · simp only [Option.some.injEq] at h; subst h; unfold maxInt; omega

theorem parseOffset_range (sd : Int) (r : Req) (l o sc : Int) (h : parseOffset sd r l = some (o, sc)) :
    0 ≤ o ∧ o + l ≤ maxInt ∨ (o = 0 ∧ sc = sd) := by
  unfold parseOffset at h
  split at h
  · split at h
    · cases h
    · simp only [Option.some.injEq, Prod.mk.injEq] at h
      obtain ⟨h1, h2⟩ := h
      subst h1; left; omega
  · simp only [Option.some.injEq, Prod.mk.injEq] at h
    right; exact ⟨h.1.symm, h.2.symm⟩

theorem validP_of_parse (sd : Int) (r : Req) (p : Params) (h : parseParams sd r = some p)
    (hl : p.limit ≠ 0) : ValidP p := by
  obtain ⟨_, h2, h3, _⟩ := parseParams_inv sd r p h
  have hr := parseLimit_range r p.limit h2
  rcases parseOffset_range sd r p.limit p.offset p.scan h3 with ⟨h4, h5⟩ | ⟨h4, _⟩
  · exact ⟨h4, by omega, h5⟩
  · exact ⟨by omega, by omega, by omega⟩

/-- NO CRASH: whatever the query string, the handler does not panic. -/
theorem handle_no_fault (sd : Int) (s : State) (r : Req) : ∃ resp, handle sd s r = .ok resp := by
  unfold handle
  cases hp : parseParams sd r with
  | none => exact ⟨_, rfl⟩
  | some p =>
    simp only
    by_cases hl : p.limit = 0
    · have : search s p = .ok ([], none) := by unfold search; simp [hl]
      rw [this]; exact ⟨_, rfl⟩
    · rw [search_eq s p (validP_of_parse sd r p hp hl)]
      exact ⟨_, rfl⟩


theorem parseInt64_of_decimal_none (s : Bytes) (h : decimal? s = none) : parseInt64 s = none := by
  unfold decimal? at h
  unfold parseInt64
  simp only at h ⊢
  split at h
  · rename_i hc
    rcases hc with hc | hc
    · simp [hc]
    · by_cases h0 : (signBody s).2 = []
      · simp [h0]
      · simp [h0, hc]
  · cases h

theorem parseInt64_of_decimal_some (s : Bytes) (v : Int) (h : decimal? s = some v) (h0 : 0 ≤ v)
    (h1 : v ≤ maxInt) : parseInt64 s = some v := by
  unfold decimal? at h
  unfold parseInt64
  simp only at h ⊢
  split at h
  · cases h
  · rename_i hc
    have hc1 : ¬ (signBody s).2 = [] := fun hh => hc (Or.inl hh)
    have hc2 : ¬ ((!(signBody s).2.all isDigit) = true) := fun hh => hc (Or.inr hh)
    simp only [hc1, hc2, if_false]
    simp only [Option.some.injEq] at h
    have hnn : (0 : Int) ≤ (digitsVal (signBody s).2 : Int) := Int.natCast_nonneg _
    cases hneg : (signBody s).1 with
    | true =>
      rw [hneg] at h
      simp only [if_true] at h ⊢
      have : (digitsVal (signBody s).2 : Int) = 0 := by omega
      rw [this] at h ⊢
      simp at h ⊢; omega
    | false =>
      rw [hneg] at h
      simp only [Bool.false_eq_true, if_false] at h ⊢
      rw [h]; simp [h1]

theorem parseLimit_of_ask (r : Req) (n : Nat) (h : askLimit r = some n) : parseLimit r = some (n : Int) := by
  unfold askLimit at h
  unfold parseLimit
  cases hd : decimal? r.limitRaw with
  | none =>
    rw [hd] at h
    simp only [Option.some.injEq] at h
    rw [parseInt64_of_decimal_none _ hd, ← h]; rfl
  | some v =>
    rw [hd] at h
    simp only at h
    split at h
    · rename_i hr
      simp only [Option.some.injEq] at h
      rw [parseInt64_of_decimal_some _ v hd hr.1 hr.2]
      have : ¬ (v < 0 ∨ v > maxInt) := by omega
      simp only [this, if_false]
      congr 1; omega
    · cases h

theorem parseOffset_of_ask_none (sd : Int) (r : Req) (n : Nat) (h : askOffset r n = some none) :
    parseOffset sd r n = some (0, sd) := by
  unfold askOffset at h
  unfold parseOffset
  cases hd : decimal? r.offsetRaw with
  | none => rw [parseInt64_of_decimal_none _ hd]
  | some v =>
    rw [hd] at h
    simp only at h
    split at h <;> cases h

theorem parseOffset_of_ask_some (sd : Int) (r : Req) (n o : Nat) (h : askOffset r n = some (some o)) :
    parseOffset sd r n = some ((o : Int), 0) := by
  unfold askOffset at h
  unfold parseOffset
  cases hd : decimal? r.offsetRaw with
  | none => rw [hd] at h; cases h
  | some v =>
    rw [hd] at h
    simp only at h
    split at h
    · rename_i hr
      simp only [Option.some.injEq] at h
      have hm : v ≤ maxInt := by omega
      rw [parseInt64_of_decimal_some _ v hd hr.1 hm]
      have : ¬ (v < 0 ∨ v > maxInt - (n : Int)) := by omega
      simp only [this, if_false]
      congr 2; omega
    · cases h

theorem parseOlder_eq_ask (r : Req) : parseOlder r = askOlder r := by
  unfold parseOlder askOlder; cases r.older <;> rfl

theorem parseStatus_of_ask (r : Req) (st : Option Status) (h : askStatus r = some st) :
    parseStatus r = st.map (fun v => some (.status v)) := by
  unfold askStatus at h
  unfold parseStatus
  by_cases h0 : r.statusRaw = []
  · simp only [h0, if_true, Option.some.injEq] at h ⊢
    subst h; rfl
  · simp only [h0, if_false] at h ⊢
    cases hn : statusOfName (unquote r.statusRaw).1 with
    | none => rw [hn] at h; cases h
    | some v =>
      rw [hn] at h
      simp only [Option.some.injEq] at h
      subst h; rfl

theorem parseTerm_of_ask (r : Req) (t : Option (Bytes × Bytes × Bool)) (h : askTerm r = some t) :
    parseTerm r = t.map (fun x => .term x.1 x.2.1 x.2.2) := by
  unfold askTerm at h
  unfold parseTerm
  by_cases h0 : r.searchRaw = []
  · simp only [h0, if_true, Option.some.injEq] at h ⊢
    subst h; rfl
  · simp only [h0, if_false] at h ⊢
    by_cases he : r.asciiErr = true
    · simp [he] at h
    · simp only [he, Bool.false_eq_true, if_false, Option.some.injEq] at h ⊢
      subst h
      simp

/-! ### the term and status criteria mean what the documentation says -/

theorem hasPrefixFoldR_eq : ∀ (rs ts : List Nat),
    hasPrefixFoldR rs ts = (rs.take ts.length == ts && decide (ts.length ≤ rs.length))
  | _, [] => by simp [hasPrefixFoldR]
  | [], b :: t => by simp [hasPrefixFoldR]
  | a :: s, b :: t => by
    simp only [hasPrefixFoldR, hasPrefixFoldR_eq s t, List.length_cons, List.take_succ_cons]
    rw [Bool.eq_iff_iff]
    simp only [Bool.and_eq_true, beq_iff_eq, decide_eq_true_eq, List.cons.injEq]
    constructor
    · rintro ⟨h1, h2, h3⟩; exact ⟨⟨h1, h2⟩, by omega⟩
    · rintro ⟨⟨h1, h2⟩, h3⟩; exact ⟨h1, h2, by omega⟩

def infixAt (rs ts : List Nat) : Bool :=
  (List.range (rs.length + 1)).any (fun i => (rs.drop i).take ts.length == ts && decide (i + ts.length ≤ rs.length))

theorem infixAt_cons (a : Nat) (rs ts : List Nat) :
    infixAt (a :: rs) ts =
      (((a :: rs).take ts.length == ts && decide (ts.length ≤ (a :: rs).length)) || infixAt rs ts) := by
  unfold infixAt
  rw [show (a :: rs).length + 1 = (rs.length + 1) + 1 from rfl, List.range_succ_eq_map]
  simp only [List.any_cons, List.any_map, List.drop_zero, Nat.zero_add]
  congr 1
  congr 1
  funext i
  simp only [Function.comp, Nat.succ_eq_add_one, List.drop_succ_cons, List.length_cons]
  congr 1
  rw [Bool.eq_iff_iff]; simp; omega

theorem containsRunes_eq (ts : List Nat) (hts : ts ≠ []) : ∀ rs, containsRunes ts rs = infixAt rs ts
  | [] => by
    have : 0 < ts.length := List.length_pos_iff.mpr hts
    simp only [containsRunes, infixAt, List.length_nil, Nat.zero_add, List.range_one, List.any_cons,
      List.any_nil, Bool.or_false]
    symm
    simp only [Bool.and_eq_false_iff, decide_eq_false_iff_not]
    right; omega
  | a :: rs => by
    rw [infixAt_cons, ← containsRunes_eq ts hts rs, containsRunes, hasPrefixFoldR_eq]

theorem decodeRunes_ne_nil (s : Bytes) (h : s ≠ []) : decodeRunes s ≠ [] := by
  cases s with
  | nil => exact absurd rfl h
  | cons b r => simp [decodeRunes, decodeRunesN]

theorem foldRunes_ne_nil (s : Bytes) (h : s ≠ []) : foldRunes s ≠ [] := by
  unfold foldRunes
  intro hh
  exact decodeRunes_ne_nil s h (List.map_eq_nil_iff.mp hh)

theorem containsFold_eq_spec (s sub : Bytes) : containsFold s sub = containsSpec s sub := by
  unfold containsFold containsSpec
  by_cases h : sub.length = 0
  · have hs : sub = [] := List.eq_nil_of_length_eq_zero h
    subst hs
    simp [foldRunes, decodeRunes, decodeRunesN]
    exact ⟨0, by omega, by omega⟩
  · rw [if_neg h]
    exact containsRunes_eq _ (foldRunes_ne_nil sub (fun hh => h (by simp [hh]))) _

/-- The declarative relation: the folded term occurs contiguously in the folded field. -/
theorem infixAt_iff (rs ts : List Nat) : infixAt rs ts = true ↔ ∃ pre post, rs = pre ++ ts ++ post := by
  unfold infixAt
  simp only [List.any_eq_true, List.mem_range, Bool.and_eq_true, beq_iff_eq, decide_eq_true_eq]
  constructor
  · rintro ⟨i, _, h1, h2⟩
    refine ⟨rs.take i, (rs.drop i).drop ts.length, ?_⟩
    have := List.take_append_drop ts.length (rs.drop i)
    rw [h1] at this
    rw [List.append_assoc, this, List.take_append_drop]
  · rintro ⟨pre, post, h⟩
    refine ⟨pre.length, by rw [h]; simp; omega, ?_, by rw [h]; simp⟩
    rw [h]
    simp


theorem termMatch_eq_sat (c : Conf) (strict : Bool) (term ascii : Bytes) (e : Entry) :
    termMatch strict term ascii e.cid (clientName c e.cid e.ip) e.host e.ip = termSat c strict term ascii e := by
  unfold termMatch termSat
  cases strict with
  | true =>
    simp only [if_true, termStrict, List.any_cons, List.any_nil, Bool.or_false]
    generalize equalFold e.host term = a
    generalize equalFold e.cid term = b
    generalize equalFold (clientName c e.cid e.ip) term = d
    generalize equalFold e.ip term = f
    generalize (decide (ascii ≠ []) && equalFold e.host ascii) = g
    cases a <;> cases b <;> cases d <;> cases f <;> cases g <;> rfl
  | false =>
    simp only [Bool.false_eq_true, if_false, termNonStrict, List.any_cons, List.any_nil, Bool.or_false,
      containsFold_eq_spec]
    generalize containsSpec e.host term = a
    generalize containsSpec e.cid term = b
    generalize containsSpec (clientName c e.cid e.ip) term = d
    generalize containsSpec e.ip term = f
    generalize (decide (ascii ≠ []) && containsSpec e.host ascii) = g
    cases a <;> cases b <;> cases d <;> cases f <;> cases g <;> rfl


end AGH.C07
