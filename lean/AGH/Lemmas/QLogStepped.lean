/-
C07: the order of an answer for EVERY state — no hypothesis on the recorded
times, so also when the clock was stepped back between records: `search`
returns its entries newest first (no entry before one with a later time).
Core Lean only.
-/
import AGH.Spec.QLog
namespace AGH.C07
open AGH AGH.Bytes

/-- No entry is followed (anywhere later) by a newer one. -/
def DescLe (l : List Entry) : Prop := l.Pairwise (fun a b => b.ts ≤ a.ts)

theorem mem_insertDesc {e x : Entry} {l : List Entry} : x ∈ insertDesc e l → x = e ∨ x ∈ l := by
  induction l with
  | nil => intro h; simpa [insertDesc] using h
  | cons y ys ih =>
    intro h
    simp only [insertDesc] at h
    split at h
    · simpa using h
    · rcases List.mem_cons.mp h with h | h
      · exact Or.inr (by simp [h])
      · rcases ih h with h | h
        · exact Or.inl h
        · exact Or.inr (List.mem_cons_of_mem _ h)

theorem insertDesc_descLe (e : Entry) (l : List Entry) (h : DescLe l) : DescLe (insertDesc e l) := by
  induction l with
  | nil => simp [insertDesc, DescLe]
  | cons y ys ih =>
    have hy := List.pairwise_cons.mp h
    simp only [insertDesc]
    split
    · rename_i hlt
      refine List.pairwise_cons.mpr ⟨?_, h⟩
      intro z hz
      rcases List.mem_cons.mp hz with hz | hz
      · subst hz; omega
      · have := hy.1 z hz; omega
    · rename_i hnlt
      refine List.pairwise_cons.mpr ⟨?_, ih hy.2⟩
      intro z hz
      rcases mem_insertDesc hz with hz | hz
      · subst hz; omega
      · exact hy.1 z hz

theorem sortDesc_descLe : ∀ l : List Entry, DescLe (sortDesc l)
  | [] => List.Pairwise.nil
  | e :: rest => insertDesc_descLe e _ (sortDesc_descLe rest)

theorem descLe_drop (l : List Entry) (n : Nat) (h : DescLe l) : DescLe (l.drop n) :=
  List.Pairwise.sublist (List.drop_sublist n l) h

theorem newestFirst_of_descLe : ∀ l : List Entry, DescLe l → newestFirst (l.map (·.ts)) = true
  | [], _ => rfl
  | [_], _ => rfl
  | a :: b :: rest, h => by
    have h' := List.pairwise_cons.mp h
    have ih := newestFirst_of_descLe (b :: rest) h'.2
    simp only [List.map] at ih ⊢
    simp only [newestFirst, Bool.and_eq_true, decide_eq_true_eq]
    exact ⟨h'.1 b (by simp), ih⟩

/-- Whatever the state and the parameters: the entries `search` returns are in
newest-first order. -/
theorem search_descLe (s : State) (p : Params) (es : List Entry) (o : Option Int)
    (h : search s p = .ok (es, o)) : DescLe es := by
  unfold search at h
  split at h
  · cases h; exact List.Pairwise.nil
  · rcases hsf : searchFiles s p with ⟨fileE, o0⟩
    simp only [hsf] at h
    split at h
    · cases h
    · generalize hE : sortDesc (if ((searchMemory s p ++ fileE).length : Int) > wrap64 (p.offset + p.limit)
          then (searchMemory s p ++ fileE).take (wrap64 (p.offset + p.limit)).toNat
          else searchMemory s p ++ fileE) = E at h
      have hd : DescLe E := hE ▸ sortDesc_descLe _
      by_cases ho : p.offset > 0
      · by_cases hlen : (E.length : Int) > p.offset
        · simp only [ho, hlen, if_true] at h
          cases h
          exact descLe_drop E _ hd
        · simp only [ho, hlen, if_true, if_false] at h
          cases h
          exact List.Pairwise.nil
      · simp only [ho, if_false] at h
        cases h
        exact hd

end AGH.C07
