/-
C06: the model's CNAME loop satisfies the spec checker, for every sorter.
-/
import AGH.Lemmas.Rewrites
namespace AGH.C06
open AGH AGH.Bytes

theorem any_eq_of_perm {α : Type} {l₁ l₂ : List α} (f : α → Bool) (h : l₁.Perm l₂) :
    l₁.any f = l₂.any f := by
  rw [Bool.eq_iff_iff, List.any_eq_true, List.any_eq_true]
  constructor
  · rintro ⟨x, hx, hf⟩; exact ⟨x, h.mem_iff.mp hx, hf⟩
  · rintro ⟨x, hx, hf⟩; exact ⟨x, h.mem_iff.mpr hx, hf⟩

/-- CNAME entries covering `host`, in the spec's words. -/
def specCnames (tbl : List Entry) (host : Bytes) : List Entry :=
  (tbl.filter (Spec.covers · host)).filter Spec.isCNAME

/-- address-kind entries covering `host` that bear on `qt`, in the spec's words. -/
def specAddrs (tbl : List Entry) (host : Bytes) (qt : Nat) : List Entry :=
  (tbl.filter (Spec.covers · host)).filter (Spec.applies · qt)

theorem mem_specCnames {tbl : List Entry} {host : Bytes} {e : Entry} :
    e ∈ specCnames tbl host ↔ e ∈ tbl ∧ matchesHost e host = true ∧ e.typ = .CNAME := by
  unfold specCnames
  simp only [List.mem_filter, covers_eq, Spec.isCNAME, beq_iff_eq]
  constructor
  · rintro ⟨⟨h1, h2⟩, h3⟩; exact ⟨h1, h2, h3⟩
  · rintro ⟨h1, h2, h3⟩; exact ⟨⟨h1, h2⟩, h3⟩

theorem specCnames_sub_candidates {tbl : List Entry} {host : Bytes} (qt : Nat) {e : Entry}
    (h : e ∈ specCnames tbl host) : e ∈ candidates tbl host qt := by
  obtain ⟨h1, h2, h3⟩ := mem_specCnames.mp h
  exact mem_candidates.mpr ⟨h1, h2, matchesQType_cname h3 qt⟩

/-- If the sort put a CNAME first, it is one of the spec's most specific CNAME
entries for the name. -/
theorem head_cname_mostSpecific {tbl : List Entry} {host : Bytes} {qt : Nat} {a : Entry}
    (ha : a ∈ candidates tbl host qt) (hc : a.typ = .CNAME)
    (hmin : ∀ e ∈ candidates tbl host qt, cmp a e ≤ 0) :
    a ∈ Spec.mostSpecific (specCnames tbl host) := by
  have hmem : a ∈ specCnames tbl host := by
    obtain ⟨h1, h2, _⟩ := mem_candidates.mp ha
    exact mem_specCnames.mpr ⟨h1, h2, hc⟩
  unfold Spec.mostSpecific
  simp only
  split
  · next hex =>
    -- no exact CNAME entry: `a` has maximal length
    rw [List.mem_filter]
    refine ⟨hmem, ?_⟩
    rw [List.all_eq_true]
    intro f hf
    have hfc := (mem_specCnames.mp hf).2.2
    have hle := hmin f (specCnames_sub_candidates qt hf)
    have hk : (a.typ = .CNAME ↔ f.typ = .CNAME) := ⟨fun _ => hfc, fun _ => hc⟩
    have hex' : ∀ x ∈ specCnames tbl host, isWildcard x.domain = true := by
      intro x hx
      have : (specCnames tbl host).filter (fun e => !Spec.isWild e) = [] := by
        simpa using hex
      rw [List.filter_eq_nil_iff] at this
      have := this x hx
      simpa [isWild_eq] using this
    have hw : isWildcard a.domain = isWildcard f.domain := by
      rw [hex' a hmem, hex' f hf]
    simpa using len_le_of_le_same hle hk hw
  · next hex =>
    rw [List.mem_filter]
    refine ⟨hmem, ?_⟩
    -- some exact CNAME entry exists, hence `a` is exact
    have : ∃ x ∈ specCnames tbl host, isWildcard x.domain = false := by
      cases hl : (specCnames tbl host).filter (fun e => !Spec.isWild e) with
      | nil => rw [hl] at hex; simp at hex
      | cons x xs =>
        have hx : x ∈ (specCnames tbl host).filter (fun e => !Spec.isWild e) := by rw [hl]; simp
        rw [List.mem_filter] at hx
        exact ⟨x, hx.1, by simpa [isWild_eq] using hx.2⟩
    obtain ⟨x, hx, hxw⟩ := this
    have hxc := (mem_specCnames.mp hx).2.2
    have hle := hmin x (specCnames_sub_candidates qt hx)
    have hk : (a.typ = .CNAME ↔ x.typ = .CNAME) := ⟨fun _ => hxc, fun _ => hc⟩
    have := not_wild_of_le_not_wild hle hk hxw
    simp [isWild_eq, this]

/-- If the sort put an address-kind entry first, no CNAME entry covers the name. -/
theorem no_cname_of_head {tbl : List Entry} {host : Bytes} {qt : Nat} {a : Entry}
    (hc : a.typ ≠ .CNAME) (hmin : ∀ e ∈ candidates tbl host qt, cmp a e ≤ 0) :
    specCnames tbl host = [] := by
  rw [List.eq_nil_iff_forall_not_mem]
  intro e he
  have := cname_of_le_cname (hmin e (specCnames_sub_candidates qt he)) (mem_specCnames.mp he).2.2
  exact hc this

theorem no_cname_of_no_candidates {tbl : List Entry} {host : Bytes} {qt : Nat}
    (h : candidates tbl host qt = []) : specCnames tbl host = [] := by
  rw [List.eq_nil_iff_forall_not_mem]
  intro e he
  have := specCnames_sub_candidates qt he
  rw [h] at this
  cases this

/-- Without a covering CNAME the candidates are the spec's applicable entries. -/
theorem specAddrs_eq_candidates {tbl : List Entry} {host : Bytes} (qt : Nat)
    (h : specCnames tbl host = []) : specAddrs tbl host qt = candidates tbl host qt := by
  unfold specAddrs candidates
  rw [covers_fun_eq]
  apply List.filter_congr
  intro e he
  have hne : e.typ ≠ .CNAME := by
    intro hc
    have : e ∈ specCnames tbl host := by
      rw [List.mem_filter] at he
      exact mem_specCnames.mpr ⟨he.1, he.2, hc⟩
    rw [h] at this; cases this
  exact (matchesQType_eq_applies hne qt).symm

theorem mostSpecific_nil : Spec.mostSpecific [] = [] := by
  simp [Spec.mostSpecific]

/-- The final stage: the name is covered, no CNAME covers it; the result the
code computes from the cut list is acceptable. -/
theorem final_stage (srt : Sorter) (tbl : List Entry) (host : Bytes) (qt : Nat) (hopped : Bool)
    (hm : tbl.any (matchesHost · host) = true)
    (hno : specCnames tbl host = [])
    (canon : Bytes) (hcanon : canon = if hopped then host else []) :
    Spec.finalOK tbl qt host hopped
      (setRewriteResult ⟨true, canon, []⟩ (findRewritesWith srt tbl host qt).1 qt) = true := by
  have hcov : tbl.any (Spec.covers · host) = true := by rw [covers_fun_eq]; exact hm
  have hA := specAddrs_eq_candidates qt hno
  unfold specAddrs at hA
  unfold Spec.finalOK
  simp only [hcov, Bool.not_true, Bool.false_eq_true, if_false, hA, ← hcanon]
  have hcn : ∀ e ∈ candidates tbl host qt, e.typ ≠ .CNAME := by
    intro e he hc
    obtain ⟨h1, h2, _⟩ := mem_candidates.mp he
    have : e ∈ specCnames tbl host := mem_specCnames.mpr ⟨h1, h2, hc⟩
    rw [hno] at this; cases this
  rcases (find_view srt tbl host qt).2 with ⟨hnil, hfr⟩ | ⟨a, rest, hsort, hfr, hamem, hmin⟩
  · rw [hfr, hnil, mostSpecific_nil]
    simp [setRewriteResult, Spec.sameMultiset, Spec.subMultiset]
  · rw [hfr]
    have hperm : (a :: rest).Perm (candidates tbl host qt) := by rw [← hsort]; exact srt.perm _
    have hsorted : (a :: rest).Pairwise (fun x y => cmp x y ≤ 0) := by
      rw [← hsort]; exact srt.sorted _
    have hcn' : ∀ e ∈ a :: rest, e.typ ≠ .CNAME := fun e he => hcn e (hperm.subset he)
    cases hwa : isWildcard a.domain
    · -- exact entries answer together
      have hcut : cut (a :: rest) = (a :: rest).filter (fun r => !isWildcard r.domain) := by
        rw [← takeWhile_eq_filter_of_sorted _ hsorted hcn']
        simp [cut, hwa, List.takeWhile_cons]
      have hW : Spec.mostSpecific (candidates tbl host qt) =
          (candidates tbl host qt).filter (fun r => !isWildcard r.domain) := by
        unfold Spec.mostSpecific
        simp only
        have hfe : (fun e => !Spec.isWild e) = (fun r : Entry => !isWildcard r.domain) := by
          funext e; rw [isWild_eq]
        rw [hfe]
        have : a ∈ (candidates tbl host qt).filter (fun r => !isWildcard r.domain) := by
          rw [List.mem_filter]; exact ⟨hamem, by simp [hwa]⟩
        cases hl : (candidates tbl host qt).filter (fun r => !isWildcard r.domain) with
        | nil => rw [hl] at this; cases this
        | cons _ _ => simp
      have hpermW : (cut (a :: rest)).Perm (Spec.mostSpecific (candidates tbl host qt)) := by
        rw [hcut, hW]; exact hperm.filter _
      have hcutcn : ∀ e ∈ cut (a :: rest), e.typ ≠ .CNAME :=
        fun e he => hcn' e (cut_subset _ e he)
      have hallex : (Spec.mostSpecific (candidates tbl host qt)).all (fun e => !Spec.isWild e) = true := by
        rw [hW, List.all_eq_true]
        intro e he
        rw [List.mem_filter] at he
        simpa [isWild_eq] using he.2
      rw [hallex]
      simp only [if_true]
      have hview := setRewriteResult_view ⟨true, canon, []⟩ (cut (a :: rest)) qt hcutcn
      rw [← any_eq_of_perm (Spec.passesFamily · qt) hpermW]
      cases hany : (cut (a :: rest)).any (Spec.passesFamily · qt)
      · rw [hview.2 hany]
        simp only [Bool.false_eq_true, if_false, List.nil_append, beq_self_eq_true, Bool.and_true,
          Bool.true_and]
        exact sameMultiset_of_perm (hpermW.filterMap _)
      · simp [hview.1 hany]
    · -- a single most specific wildcard entry answers
      have hcut : cut (a :: rest) = [a] := by simp [cut, hwa]
      have hallw : ∀ e ∈ candidates tbl host qt, isWildcard e.domain = true := by
        intro e he
        cases hwe : isWildcard e.domain
        · have hk : (a.typ = .CNAME ↔ e.typ = .CNAME) :=
            ⟨fun h => absurd h (hcn a hamem), fun h => absurd h (hcn e he)⟩
          have := not_wild_of_le_not_wild (hmin e he) hk hwe
          rw [hwa] at this; cases this
        · rfl
      have haW : a ∈ Spec.mostSpecific (candidates tbl host qt) := by
        unfold Spec.mostSpecific
        simp only
        have hex : (candidates tbl host qt).filter (fun e => !Spec.isWild e) = [] := by
          rw [List.filter_eq_nil_iff]
          intro e he
          simp [isWild_eq, hallw e he]
        rw [hex]
        simp only [List.isEmpty_nil, if_true, List.mem_filter, List.all_eq_true]
        refine ⟨hamem, ?_⟩
        intro f hf
        have hk : (a.typ = .CNAME ↔ f.typ = .CNAME) :=
          ⟨fun h => absurd h (hcn a hamem), fun h => absurd h (hcn f hf)⟩
        have hw : isWildcard a.domain = isWildcard f.domain := by rw [hwa, hallw f hf]
        simpa using len_le_of_le_same (hmin f hf) hk hw
      have hnotall : (Spec.mostSpecific (candidates tbl host qt)).all (fun e => !Spec.isWild e) = false := by
        rw [Bool.eq_false_iff]
        intro hall
        rw [List.all_eq_true] at hall
        have := hall a haW
        simp [isWild_eq, hwa] at this
      rw [hnotall, hcut]
      simp only [Bool.false_eq_true, if_false]
      have hane : a.typ ≠ .CNAME := hcn a hamem
      have hview := setRewriteResult_view ⟨true, canon, []⟩ [a] qt (by simpa using hane)
      cases hpa : Spec.passesFamily a qt
      · have hany : [a].any (Spec.passesFamily · qt) = false := by simp [hpa]
        rw [hview.2 hany]
        simp only [List.nil_append, Bool.not_true, Bool.false_and, Bool.false_or, Bool.true_and,
          beq_self_eq_true, List.filterMap_cons, List.filterMap_nil]
        cases hv : Spec.value a qt with
        | none =>
          simp only [Spec.subMultiset, List.isEmpty_nil, Bool.not_true, Bool.false_or, Bool.true_and]
          rw [List.any_eq_true]
          refine ⟨a, haW, ?_⟩
          -- applicable, no value: an exception entry of the other family
          have happ : matchesQType a qt = true := (mem_candidates.mp hamem).2.2
          rw [matchesQType_eq_applies hane] at happ
          unfold Spec.value at hv
          unfold Spec.passesFamily at hpa
          unfold Spec.applies at happ
          unfold Spec.noValue
          by_cases hc : a.typ.code = qt
          · simp [hc] at hv hpa
            rw [hv] at hpa; simp at hpa
          · have hfam : ∀ f, Spec.family qt = some f → ¬ a.typ = f := by
              intro f hf hat
              unfold Spec.family at hf
              by_cases h1 : qt = 1
              · simp [h1] at hf; subst hf; rw [hat] at hc; simp [RType.code, h1] at hc
              · by_cases h28 : qt = 28
                · simp [h1, h28] at hf; subst hf; rw [hat] at hc; simp [RType.code, h28] at hc
                · simp [h1, h28] at hf
            cases hf : Spec.family qt with
            | none => rw [hf] at happ; simp at happ
            | some f =>
              rw [hf] at happ
              have hnf := hfam f hf
              simp [hnf] at happ
              simp [happ.2, hc]
        | some v =>
          simp only [List.isEmpty_cons, Bool.not_false, Bool.true_or, Bool.and_true]
          have : v ∈ (Spec.mostSpecific (candidates tbl host qt)).filterMap (Spec.value · qt) := by
            rw [List.mem_filterMap]; exact ⟨a, haW, hv⟩
          simp [Spec.subMultiset, this]
      · have hany : [a].any (Spec.passesFamily · qt) = true := by simp [hpa]
        have hW : (Spec.mostSpecific (candidates tbl host qt)).any (Spec.passesFamily · qt) = true := by
          rw [List.any_eq_true]; exact ⟨a, haW, hpa⟩
        simp [hview.1 hany, hW]

end AGH.C06

namespace AGH.C06
open AGH AGH.Bytes

/-- One iteration of the loop, `rewrites` empty. -/
theorem chase_nil (srt : Bytes → Sorter) (tbl : List Entry) (qt : Nat) (orig host : Bytes)
    (visited : List Bytes) (canon : Bytes)
    (h : (findRewritesWith (srt host) tbl host qt).1 = []) :
    chase srt tbl qt orig host visited canon = ⟨⟨true, canon, []⟩, host, visited⟩ := by
  rw [chase]
  split
  · simp [setRewriteResult]
  · next rw tl heq => rw [h] at heq; cases heq

/-- One iteration of the loop, `rewrites[0] = rw`. -/
theorem chase_cons (srt : Bytes → Sorter) (tbl : List Entry) (qt : Nat) (orig host : Bytes)
    (visited : List Bytes) (canon : Bytes) (rw : Entry) (tl : List Entry)
    (h : (findRewritesWith (srt host) tbl host qt).1 = rw :: tl) :
    chase srt tbl qt orig host visited canon =
      if (findRewritesWith (srt host) tbl host qt).2 = true ∧ rw.typ = .CNAME then
        if orig = rw.answer ∨ rw.domain = rw.answer then ⟨Out.empty, host, visited⟩
        else if host = rw.answer ∧ isWildcard rw.domain = true then
          ⟨setRewriteResult ⟨true, host, []⟩ (rw :: tl) qt, host, visited⟩
        else if visited.contains rw.answer = true then ⟨⟨true, canon, []⟩, rw.answer, visited⟩
        else chase srt tbl qt orig rw.answer (rw.answer :: visited) rw.answer
      else ⟨setRewriteResult ⟨true, canon, []⟩ (rw :: tl) qt, host, visited⟩ := by
  rw [chase]
  split
  · next heq => rw [h] at heq; cases heq
  · next rw' tl' heq =>
    have hh := h.symm.trans heq
    have h1 : rw = rw' := (List.cons.inj hh).1
    subst h1
    rw [h]
    by_cases hc : (findRewritesWith (srt host) tbl host qt).2 = true ∧ rw.typ = .CNAME
    · rw [if_pos hc, if_pos hc]
      by_cases h2 : orig = rw.answer ∨ rw.domain = rw.answer
      · rw [if_pos h2, if_pos h2]
      · rw [if_neg h2, if_neg h2]
        by_cases h3 : host = rw.answer ∧ isWildcard rw.domain = true
        · rw [if_pos h3, if_pos h3]
        · rw [if_neg h3, if_neg h3]
          by_cases h4 : visited.contains rw.answer = true
          · rw [dif_pos h4, if_pos h4]
          · rw [dif_neg h4, if_neg h4]
    · rw [if_neg hc, if_neg hc]

/-- Invariant of the loop variables `host`, `cnames`, `res.CanonName`. -/
def LoopInv (tbl : List Entry) (orig host : Bytes) (visited : List Bytes) (canon : Bytes) : Prop :=
  (visited = [] ∧ canon = [] ∧ host = orig ∧ tbl.any (matchesHost · host) = true) ∨
  (∃ t, visited = host :: t ∧ canon = host)

theorem chase_allowed (srt : Bytes → Sorter) (tbl : List Entry) (qt : Nat) (orig : Bytes) :
    ∀ (fuel : Nat) (host : Bytes) (visited : List Bytes) (canon : Bytes),
      unvisited tbl visited < fuel → LoopInv tbl orig host visited canon →
      Spec.allowedFrom tbl qt orig fuel host visited
        (chase srt tbl qt orig host visited canon).out = true := by
  intro fuel
  induction fuel with
  | zero => intro _ _ _ h; omega
  | succ n ih =>
    intro host visited canon hf hinv
    have hcanon : canon = if (!visited.isEmpty) then host else [] := by
      rcases hinv with ⟨h1, h2, _, _⟩ | ⟨t, h1, h2⟩
      · simp [h1, h2]
      · simp [h1, h2]
    have hview := find_view (srt host) tbl host qt
    simp only [Spec.allowedFrom]
    change (if (Spec.mostSpecific (specCnames tbl host)).isEmpty = true then _ else _) = true
    rcases hview.2 with ⟨hcands, hfr⟩ | ⟨rw, rest, hsort, hfr, hamem, hmin⟩
    · -- rewrites is empty
      rw [chase_nil srt tbl qt orig host visited canon hfr]
      have hno := no_cname_of_no_candidates hcands
      rw [hno, mostSpecific_nil]
      simp only [List.isEmpty_nil, if_true]
      cases hm : tbl.any (matchesHost · host)
      · -- the chain left the table
        have hcov : tbl.any (Spec.covers · host) = false := by rw [covers_fun_eq]; exact hm
        rcases hinv with ⟨_, _, _, h4⟩ | ⟨t, h1, h2⟩
        · rw [hm] at h4; cases h4
        · simp [Spec.finalOK, hcov, h1, h2]
      · have := final_stage (srt host) tbl host qt (!visited.isEmpty) hm hno canon hcanon
        rw [hfr] at this
        simpa [setRewriteResult] using this
    · obtain ⟨tl, htl⟩ := cut_cons_head rw rest
      have heq : (findRewritesWith (srt host) tbl host qt).1 = rw :: tl := by rw [hfr, htl]
      have hch := chase_cons srt tbl qt orig host visited canon rw tl heq
      have hmatched : (findRewritesWith (srt host) tbl host qt).2 = true := by
        rw [hview.1, List.any_eq_true]
        obtain ⟨h1, h2, _⟩ := mem_candidates.mp hamem
        exact ⟨rw, h1, h2⟩
      by_cases hc : rw.typ = .CNAME
      · -- a CNAME entry is followed
        rw [if_pos (And.intro hmatched hc)] at hch
        have haC := head_cname_mostSpecific hamem hc hmin
        have hne : (Spec.mostSpecific (specCnames tbl host)).isEmpty = false := by
          cases hl : Spec.mostSpecific (specCnames tbl host) with
          | nil => rw [hl] at haC; cases haC
          | cons _ _ => rfl
        rw [hne]
        simp only [Bool.false_eq_true, if_false]
        rw [List.any_eq_true]
        refine ⟨rw, haC, ?_⟩
        by_cases hexc : orig = rw.answer ∨ rw.domain = rw.answer
        · have hexc' : rw.answer = orig ∨ rw.answer = rw.domain := by
            rcases hexc with h | h
            · exact Or.inl h.symm
            · exact Or.inr h.symm
          rw [if_pos hexc] at hch
          rw [hch, if_pos hexc']
          rfl
        · have hexc' : ¬ (rw.answer = orig ∨ rw.answer = rw.domain) := by
            rintro (h | h)
            · exact hexc (Or.inl h.symm)
            · exact hexc (Or.inr h.symm)
          rw [if_neg hexc] at hch
          rw [if_neg hexc']
          by_cases hself : host = rw.answer
          · -- only a wildcard can point at the current name without being `pattern → itself`
            have hw : isWildcard rw.domain = true := by
              cases hw : isWildcard rw.domain
              · have := domain_eq_of_matches_not_wild (mem_candidates.mp hamem).2.1 hw
                exact absurd (this.trans hself) (fun h => hexc (Or.inr h))
              · rfl
            rw [if_pos (And.intro hself hw)] at hch
            rw [hch, if_pos hself.symm]
            have hcut : cut (rw :: rest) = [rw] := by simp [cut, hw]
            have htl' : tl = [] := by
              rw [hcut] at htl
              exact (List.cons.inj htl).2.symm
            subst htl'
            have hcode : ¬ (rw.typ.code = qt ∧ (qt = qA ∨ qt = qAAAA)) := by
              rintro ⟨h1, h2⟩
              rw [hc] at h1
              simp [RType.code, qA, qAAAA] at h1 h2
              omega
            simp [setRewriteResult, hcode]
          · have hself' : ¬ (host = rw.answer ∧ isWildcard rw.domain = true) := fun h => hself h.1
            have hself'' : ¬ rw.answer = host := fun h => hself h.symm
            rw [if_neg hself'] at hch
            rw [if_neg hself'']
            by_cases hv : visited.contains rw.answer = true
            · rw [if_pos hv] at hch
              rw [hch, if_pos hv]
              -- cname loop: canon is the current name, which is in `visited`
              rcases hinv with ⟨h1, _, _, _⟩ | ⟨t, h1, h2⟩
              · rw [h1] at hv; simp at hv
              · simp [h1, h2]
            · rw [if_neg hv] at hch
              rw [hch, if_neg hv]
              have hvf : visited.contains rw.answer = false := by simpa using hv
              apply ih
              · have := unvisited_lt tbl visited rw (candidates_subset _ _ _ _ hamem) hvf
                omega
              · right; exact ⟨visited, rfl, rfl⟩
      · -- an address-kind entry is first: final stage
        have hno := no_cname_of_head (qt := qt) (host := host) hc hmin
        rw [hno, mostSpecific_nil]
        simp only [List.isEmpty_nil, if_true]
        have hcond : ¬ ((findRewritesWith (srt host) tbl host qt).2 = true ∧ rw.typ = .CNAME) :=
          fun h => hc h.2
        rw [if_neg hcond] at hch
        rw [hch]
        have hm : tbl.any (matchesHost · host) = true := by rw [← hview.1]; exact hmatched
        have := final_stage (srt host) tbl host qt (!visited.isEmpty) hm hno canon hcanon
        rw [heq] at this
        exact this

end AGH.C06
