/-
C14: the executable monitor (`visibleOK`, `crashOK`, `firstBad`) says exactly
what the Prop-level spec `OKAt` says, and how a replayed trace relates to a
program run with abort-at-first-error.
-/
import AGH.Lemmas.FS
namespace AGH.C14
open AGH

theorem isVersion_iff (old : Option Content) (new : Content) (c : Option Content) :
    isVersion old new c = true ↔ IsVersion old new c := by
  simp [isVersion, IsVersion]

theorem prefixesAll_iff (ok : Content → Bool) (pre l : Content) :
    prefixesAll ok pre l = true ↔ ∀ q, q <+: l → ok (pre ++ q) = true := by
  induction l generalizing pre with
  | nil =>
    simp only [prefixesAll, List.prefix_nil]
    constructor
    · intro h q hq; subst hq; simpa using h
    · intro h; simpa using h [] rfl
  | cons x xs ih =>
    simp only [prefixesAll, Bool.and_eq_true, ih]
    constructor
    · rintro ⟨h0, h1⟩ q hq
      rcases List.prefix_cons_iff.mp hq with rfl | ⟨t, rfl, ht⟩
      · simpa using h0
      · have := h1 t ht
        simpa [List.append_assoc] using this
    · intro h
      refine ⟨by simpa using h [] (List.nil_prefix), ?_⟩
      intro q hq
      have := h (x :: q) (List.prefix_cons_iff.mpr (Or.inr ⟨q, rfl, hq⟩))
      simpa [List.append_assoc] using this

theorem visibleOK_iff (s : FS) (dest : Path) (old : Option Content) (new : Content) :
    visibleOK s dest old new = true ↔ IsVersion old new (visible s dest) :=
  isVersion_iff _ _ _

theorem crashOK_iff (s : FS) (dest : Path) (old : Option Content) (new : Content) :
    crashOK s dest old new = true ↔ ∀ c, AfterCrash s dest c → IsVersion old new c := by
  unfold crashOK
  cases hn : s.names dest with
  | none =>
    simp only [isVersion_iff]
    constructor
    · intro h c hc
      cases c with
      | none => exact h
      | some x => obtain ⟨i, hi, _⟩ := hc; simp [hn] at hi
    · intro h; exact h none hn
  | some i =>
    simp only
    cases hd : s.dirty i with
    | true =>
      simp only [if_true, Bool.and_eq_true, isVersion_iff, prefixesAll_iff, List.nil_append]
      constructor
      · rintro ⟨h0, h1⟩ c hc
        cases c with
        | none => simp [AfterCrash, hn] at hc
        | some x =>
          obtain ⟨j, hj, hs⟩ := hc
          rw [hn] at hj; cases hj
          simp only [Survives, hd, if_true] at hs
          rcases hs with rfl | hp
          · exact h0
          · exact h1 x hp
      · intro h
        refine ⟨h (some (s.disk i)) ⟨i, hn, by simp [Survives, hd]⟩, ?_⟩
        intro q hq
        exact h (some q) ⟨i, hn, by simp [Survives, hd, hq]⟩
    | false =>
      simp only [Bool.false_eq_true, if_false, isVersion_iff]
      constructor
      · intro h c hc
        cases c with
        | none => simp [AfterCrash, hn] at hc
        | some x =>
          obtain ⟨j, hj, hs⟩ := hc
          rw [hn] at hj; cases hj
          simp only [Survives, hd, Bool.false_eq_true, if_false] at hs
          subst hs; exact h
      · intro h
        exact h (some (s.cache i)) ⟨i, hn, by simp [Survives, hd]⟩

/-- The two Boolean checks together are the spec at that instant. -/
theorem instant_iff (s : FS) (dest : Path) (old : Option Content) (new : Content) :
    (visibleOK s dest old new = true ∧ crashOK s dest old new = true) ↔ OKAt s dest old new := by
  rw [visibleOK_iff, crashOK_iff]; rfl

theorem run_cons (s : FS) (e : Sys) (es : List Sys) : run s (e :: es) = run (exec s e) es := rfl

/-- `firstBad` finds nothing iff the spec holds at every instant of the replay. -/
theorem firstBad_none_iff (dest : Path) (old : Option Content) (new : Content) (s : FS)
    (es : List Sys) :
    firstBad dest old new s es = none ↔ ∀ j, OKAt (run s (es.take j)) dest old new := by
  induction es generalizing s with
  | nil =>
    unfold firstBad
    simp only [List.take_nil, run, List.foldl_nil, ← instant_iff]
    cases visibleOK s dest old new <;> cases crashOK s dest old new <;> simp
  | cons e es ih =>
    unfold firstBad
    constructor
    · intro h j
      cases hv : visibleOK s dest old new with
      | false => simp [hv] at h
      | true =>
        cases hc : crashOK s dest old new with
        | false => simp [hv, hc] at h
        | true =>
          simp only [hv, hc, Bool.not_true, Bool.false_eq_true, if_false] at h
          cases j with
          | zero => exact (instant_iff s dest old new).mp ⟨hv, hc⟩
          | succ j => simpa [List.take_succ_cons, run_cons] using (ih (exec s e)).mp h j
    · intro h
      have h0 := (instant_iff s dest old new).mpr (by simpa [run] using h 0)
      simp only [h0.1, h0.2, Bool.not_true, Bool.false_eq_true, if_false]
      apply (ih (exec s e)).mpr
      intro j
      simpa [List.take_succ_cons, run_cons] using h (j + 1)

/-! ## The same for a set of allowed contents; arbitrary interleavings -/

theorem crashOKP_iff (ok : Option Content → Bool) (s : FS) (dest : Path) :
    crashOKP ok s dest = true ↔ ∀ c, AfterCrash s dest c → ok c = true := by
  unfold crashOKP
  cases hn : s.names dest with
  | none =>
    constructor
    · intro h c hc
      cases c with
      | none => exact h
      | some x => obtain ⟨i, hi, _⟩ := hc; simp [hn] at hi
    · intro h; exact h none hn
  | some i =>
    simp only
    cases hd : s.dirty i with
    | true =>
      simp only [if_true, Bool.and_eq_true, prefixesAll_iff, List.nil_append]
      constructor
      · rintro ⟨h0, h1⟩ c hc
        cases c with
        | none => simp [AfterCrash, hn] at hc
        | some x =>
          obtain ⟨j, hj, hs⟩ := hc
          rw [hn] at hj; cases hj
          simp only [Survives, hd, if_true] at hs
          rcases hs with rfl | hp
          · exact h0
          · exact h1 x hp
      · intro h
        refine ⟨h (some (s.disk i)) ⟨i, hn, by simp [Survives, hd]⟩, ?_⟩
        intro q hq
        exact h (some q) ⟨i, hn, by simp [Survives, hd, hq]⟩
    | false =>
      simp only [Bool.false_eq_true, if_false]
      constructor
      · intro h c hc
        cases c with
        | none => simp [AfterCrash, hn] at hc
        | some x =>
          obtain ⟨j, hj, hs⟩ := hc
          rw [hn] at hj; cases hj
          simp only [Survives, hd, Bool.false_eq_true, if_false] at hs
          subst hs; exact h
      · intro h
        exact h (some (s.cache i)) ⟨i, hn, by simp [Survives, hd]⟩

theorem firstBadP_none_iff (ok : Option Content → Bool) (dest : Path) (s : FS) (es : List Sys) :
    firstBadP ok dest s es = none ↔ ∀ j, OKAtP ok (run s (es.take j)) dest := by
  have inst : ∀ s : FS, (visibleOKP ok s dest = true ∧ crashOKP ok s dest = true) ↔ OKAtP ok s dest := by
    intro s; rw [crashOKP_iff]; rfl
  induction es generalizing s with
  | nil =>
    unfold firstBadP
    simp only [List.take_nil, run, List.foldl_nil, ← inst]
    cases visibleOKP ok s dest <;> cases crashOKP ok s dest <;> simp
  | cons e es ih =>
    unfold firstBadP
    constructor
    · intro h j
      cases hv : visibleOKP ok s dest with
      | false => simp [hv] at h
      | true =>
        cases hc : crashOKP ok s dest with
        | false => simp [hv, hc] at h
        | true =>
          simp only [hv, hc, Bool.not_true, Bool.false_eq_true, if_false] at h
          cases j with
          | zero => exact (inst s).mp ⟨hv, hc⟩
          | succ j => simpa [List.take_succ_cons, run_cons] using (ih (exec s e)).mp h j
    · intro h
      have h0 := (inst s).mpr (by simpa [run] using h 0)
      simp only [h0.1, h0.2, Bool.not_true, Bool.false_eq_true, if_false]
      apply (ih (exec s e)).mpr
      intro j
      simpa [List.take_succ_cons, run_cons] using h (j + 1)

/-- Any interleaving of anything whose steps are all good keeps `dest` settled at
the version it had or at one of the complete versions `V`, at every instant. -/
theorem goodTrace_settled (dest : Path) (V : List Content) (es : List Sys) :
    ∀ (s : FS) (v : Option Content), WF s → Settled s dest v → GoodTrace dest V s es →
      ∀ j, ∃ w, (w = v ∨ ∃ c ∈ V, w = some c) ∧ Settled (run s (es.take j)) dest w := by
  induction es with
  | nil => intro s v _ h _ j; exact ⟨v, Or.inl rfl, by simpa [run] using h⟩
  | cons e es ih =>
    intro s v hwf h hg j
    cases j with
    | zero => exact ⟨v, Or.inl rfl, by simpa [run] using h⟩
    | succ j =>
      simp only [List.take_succ_cons, run_cons]
      obtain ⟨hstep, hrest⟩ := hg
      unfold exec at hrest ⊢
      cases hs : step s e with
      | error er =>
        simp only [hs] at hrest ⊢
        exact ih s v hwf h hrest j
      | ok s' =>
        simp only [hs] at hrest ⊢
        have hwf' := step_wf hwf hs
        rcases hstep with hsafe | ⟨tmp, c, rfl, hne, hready, hc⟩
        · exact ih s' v hwf' (step_safe hwf h hsafe hs) hrest j
        · obtain ⟨w, hw, hset⟩ := ih s' (some c) hwf' (rename_settles hready hne hs) hrest j
          refine ⟨w, ?_, hset⟩
          rcases hw with rfl | hw
          · exact Or.inr ⟨c, hc, rfl⟩
          · exact Or.inr hw

/-! ## Replay of what a program performed -/

/-- The syscalls of a program that were actually performed (up to the first error). -/
def performed (s : FS) : List Sys → List Sys
  | [] => []
  | e :: es =>
    match step s e with
    | .ok s' => e :: performed s' es
    | .error _ => []

theorem run_performed_take (s : FS) (es : List Sys) (j : Nat) :
    run s ((performed s es).take j) = (runAbort s (es.take j)).1 := by
  induction es generalizing s j with
  | nil => simp [performed, run, runAbort]
  | cons e es ih =>
    cases j with
    | zero => simp [run, runAbort]
    | succ j =>
      simp only [performed, List.take_succ_cons, runAbort]
      cases hstep : step s e with
      | error er => simp [run]
      | ok s' =>
        simp only [List.take_succ_cons, run_cons, exec, hstep]
        exact ih s' j

theorem run_performed (s : FS) (es : List Sys) :
    run s (performed s es) = (runAbort s es).1 := by
  have := run_performed_take s es (es.length + (performed s es).length)
  rw [List.take_of_length_le (by omega), List.take_of_length_le (by omega)] at this
  exact this

end AGH.C14
