/-
C06, DNS level: the reply rendered from a `CheckHost` result is read back by the
spec as that result.
-/
import AGH.Lemmas.RewritesRun
namespace AGH.C06
open AGH AGH.Bytes

theorem splitCname_cons (h c : Bytes) (rest : List RR) (hc : c ≠ []) :
    Spec.splitCname h (⟨5, h, c⟩ :: rest) = (c, rest) := by
  simp [Spec.splitCname, hc]

theorem splitCname_addrs (h owner : Bytes) (q : Nat) (ips : List Bytes) (hq : q = qA ∨ q = qAAAA) :
    Spec.splitCname h (ips.map (fun ip => (⟨q, owner, ip⟩ : RR))) =
      ([], ips.map (fun ip => (⟨q, owner, ip⟩ : RR))) := by
  cases ips with
  | nil => rfl
  | cons ip rest =>
    rcases hq with rfl | rfl <;> rfl

theorem obsToOut_render (o : Out) (h : Bytes) (q : Nat) (rc : Nat)
    (h2 : o.rewritten = false → o = Out.empty)
    (h3 : o.ips ≠ [] → q = qA ∨ q = qAAAA) :
    Spec.obsToOut (render o h q rc) h q rc = some o := by
  obtain ⟨rw, c, ips⟩ := o
  cases rw
  · -- pass
    have := h2 rfl
    simp only [Out.empty, Out.mk.injEq, true_and] at this
    obtain ⟨rfl, rfl⟩ := this
    simp [render, dispatch, Spec.obsToOut, Out.empty]
  · have hmapdata : ∀ (owner : Bytes),
        List.map (fun x => x.data) (List.map (fun ip => (⟨q, owner, ip⟩ : RR)) ips) = ips := by
      intro owner; simp [List.map_map, Function.comp_def]
    by_cases hips : ips = []
    · subst hips
      by_cases hc : c = []
      · subst hc
        simp [render, dispatch, Spec.obsToOut, Spec.splitCname]
      · -- CNAME resolved upstream
        simp [render, dispatch, Spec.obsToOut, hc]
    · have hq := h3 hips
      by_cases hc : c = []
      · subst hc
        simp only [render, dispatch, if_true, ne_eq, not_true_eq_false, false_and, if_false, hq,
          List.nil_append]
        unfold Spec.obsToOut
        simp only [ne_eq, not_true_eq_false, false_or, if_false, splitCname_addrs h h q ips hq,
          if_true, hmapdata]
        have hall : (List.map (fun ip => (⟨q, h, ip⟩ : RR)) ips).all
            (fun rr => rr.typ == q && (q == 1 || q == 28) && rr.owner == h) = true := by
          rw [List.all_eq_true]
          intro rr hrr
          obtain ⟨ip, _, rfl⟩ := List.mem_map.mp hrr
          rcases hq with rfl | rfl <;> simp [qA, qAAAA]
        simp [hall]
      · simp only [render, dispatch, if_true, ne_eq, hc, not_false_eq_true, true_and, hips, if_false, hq]
        unfold Spec.obsToOut
        simp only [ne_eq, not_true_eq_false, false_or, if_false, List.singleton_append,
          splitCname_cons h c _ hc, hc, if_false, hmapdata]
        have hall : (List.map (fun ip => (⟨q, c, ip⟩ : RR)) ips).all
            (fun rr => rr.typ == q && (q == 1 || q == 28) && rr.owner == c) = true := by
          rw [List.all_eq_true]
          intro rr hrr
          obtain ⟨ip, _, rfl⟩ := List.mem_map.mp hrr
          rcases hq with rfl | rfl <;> simp [qA, qAAAA]
        simp [hall, hips]

theorem checkHost_not_rewritten (srt : Bytes → Sorter) (tbl : List Entry) (h : Bytes) (q : Nat) :
    (checkHostWith srt tbl h q).rewritten = false → checkHostWith srt tbl h q = Out.empty := by
  unfold checkHostWith
  split
  · intro _; rfl
  · simp only
    split
    · next hr => intro h'; rw [hr] at h'; cases h'
    · intro _; rfl

theorem checkHost_ips_family (srt : Bytes → Sorter) (tbl : List Entry) (h : Bytes) (q : Nat) :
    (checkHostWith srt tbl h q).ips ≠ [] → q = qA ∨ q = qAAAA := by
  unfold checkHostWith
  split
  · intro h'; exact absurd rfl h'
  · simp only
    split
    · intro hne
      cases hl : (processRewritesWith srt tbl (lower h) q).ips with
      | nil => exact absurd hl hne
      | cons ip rest =>
        have hip : ip ∈ (processRewritesWith srt tbl (lower h) q).ips := by rw [hl]; simp
        unfold processRewritesWith processRun at hip
        split at hip
        · cases hip
        · obtain ⟨_, _, _, _, hq, _⟩ := chase_ips srt tbl q (lower h) (lower h) [] [] ip hip
          exact hq
    · intro h'; exact absurd rfl h'

end AGH.C06
