/-
C12: behaviour at the uint32 time horizon, and with failing sessions.db writes.
-/
import AGH.Lemmas.AuthRun
namespace AGH.C12

/-- every stored copy of the token's session has expiry ≤ `B` -/
def Stale (st : St) (tok B : Nat) : Prop :=
  tok < st.nextTok ∧ (∀ s, st.mem tok = some s → s.expire ≤ B) ∧ (∀ s, st.db tok = some s → s.expire ≤ B)

/-- every operation of the history happens when the uint32 clock reads ≥ `B` -/
def timesGE (B : Nat) : Nat → List Ev → Prop
  | _, [] => True
  | now, .advance d :: evs => timesGE B (now + d) evs
  | now, .op _ :: evs => B ≤ now32 now ∧ timesGE B now evs

theorem login_tables (st : St) (now addr : Nat) (good : Bool) (user : Nat) :
    ((login st now addr good user).2.nextTok = st.nextTok ∧
      (login st now addr good user).2.mem = st.mem ∧ (login st now addr good user).2.db = st.db) ∨
    ((login st now addr good user).2.nextTok = st.nextTok + 1 ∧
      (login st now addr good user).2.mem = st.mem.set st.nextTok ⟨user, (now32 now + st.ttl) % u32⟩ ∧
      (login st now addr good user).2.db = st.db.set st.nextTok ⟨user, (now32 now + st.ttl) % u32⟩) := by
  cases hrl : st.rl with
  | none =>
    rw [login_none hrl]
    cases good with
    | true => right; rw [evalLogin_good]; exact ⟨rfl, rfl, rfl⟩
    | false => left; rw [evalLogin_bad]; exact ⟨rfl, rfl, rfl⟩
  | some l =>
    by_cases hleft : (l.check addr now).1 > 0
    · left; rw [login_blocked hrl hleft]; exact ⟨rfl, rfl, rfl⟩
    · rw [login_pass hrl hleft]
      cases good with
      | true => right; rw [evalLogin_good]; exact ⟨rfl, rfl, rfl⟩
      | false => left; rw [evalLogin_bad]; exact ⟨rfl, rfl, rfl⟩

theorem basic_tables (fixB : Bool) (st : St) (now : Nat) (r : Req) (good : Bool) :
    (basicAuthX fixB st now r good).2.mem = st.mem ∧ (basicAuthX fixB st now r good).2.db = st.db ∧
    (basicAuthX fixB st now r good).2.nextTok = st.nextTok := by
  unfold basicAuthX
  cases fixB with
  | false => exact ⟨rfl, rfl, rfl⟩
  | true =>
    simp only [Bool.not_true, Bool.false_eq_true, if_false]
    cases st.rl with
    | none => exact ⟨rfl, rfl, rfl⟩
    | some l =>
      simp only
      split
      · exact ⟨rfl, rfl, rfl⟩
      · split <;> exact ⟨rfl, rfl, rfl⟩

theorem stale_step {st : St} {tok B now : Nat} (h : Stale st tok B) (hB : B ≤ now32 now) (o : Op) :
    Stale (step st now o).2 tok B ∧ (o = .request tok → (step st now o).1 = .auth false) := by
  obtain ⟨hlt, hm, hd⟩ := h
  cases o with
  | login req good user =>
    refine ⟨?_, fun e => by cases e⟩
    simp only [step, handleLogin_eq]
    rcases login_tables st now req.peer good user with ⟨e1, e2, e3⟩ | ⟨e1, e2, e3⟩
    · exact ⟨by rw [e1]; exact hlt, by rw [e2]; exact hm, by rw [e3]; exact hd⟩
    · have hne : tok ≠ st.nextTok := by omega
      refine ⟨by rw [e1]; omega, ?_, ?_⟩
      · intro s hs; rw [e2] at hs; simp [FMap.set, hne] at hs; exact hm s hs
      · intro s hs; rw [e3] at hs; simp [FMap.set, hne] at hs; exact hd s hs
  | basic req good =>
    refine ⟨?_, fun e => by cases e⟩
    obtain ⟨e1, e2, e3⟩ := basic_tables true st now req good
    simp only [step]
    exact ⟨by rw [e3]; exact hlt, by rw [e1]; exact hm, by rw [e2]; exact hd⟩
  | request t =>
    simp only [step]
    unfold checkSession
    cases hmt : st.mem t with
    | none =>
      refine ⟨⟨hlt, hm, hd⟩, fun _ => by simp⟩
    | some s =>
      simp only
      by_cases ht : t = tok
      · subst ht
        have hexp : s.expire ≤ now32 now := Nat.le_trans (hm s hmt) hB
        simp only [hexp, if_true]
        refine ⟨⟨hlt, ?_, ?_⟩, fun _ => by simp⟩
        · intro s' hs'; simp [FMap.erase] at hs'
        · intro s' hs'; simp [FMap.erase] at hs'
      · have hne : tok ≠ t := fun e => ht e.symm
        refine ⟨?_, fun e => by cases e; exact absurd rfl ht⟩
        by_cases hexp : s.expire ≤ now32 now
        · simp only [hexp, if_true]
          refine ⟨hlt, ?_, ?_⟩
          · intro s' hs'; simp [FMap.erase, hne] at hs'; exact hm s' hs'
          · intro s' hs'; simp [FMap.erase, hne] at hs'; exact hd s' hs'
        · simp only [hexp, if_false]
          split
          · refine ⟨hlt, ?_, ?_⟩
            · intro s' hs'; simp [FMap.set, hne] at hs'; exact hm s' hs'
            · intro s' hs'; simp [FMap.set, hne] at hs'; exact hd s' hs'
          · exact ⟨hlt, hm, hd⟩
  | logout t =>
    refine ⟨⟨hlt, ?_, ?_⟩, fun e => by cases e⟩
    · intro s hs
      simp only [step, logout, FMap.erase] at hs
      split at hs
      · cases hs
      · exact hm s hs
    · intro s hs
      simp only [step, logout, FMap.erase] at hs
      split at hs
      · cases hs
      · exact hd s hs
  | restart =>
    refine ⟨⟨hlt, ?_, ?_⟩, fun e => by cases e⟩ <;>
    · intro s hs
      simp only [step, restart] at hs
      cases hdb : st.db tok with
      | none => rw [hdb] at hs; cases hs
      | some s0 =>
        rw [hdb] at hs
        simp only [Option.filter] at hs
        split at hs
        · cases hs; exact hd s hdb
        · cases hs

/-- A token all of whose stored copies carry an expiry `≤ B` is never
authenticated while the uint32 clock reads `≥ B` — over any history, restarts
included. -/
theorem stale_never_auth (tok B : Nat) : ∀ (evs : List Ev) (st : St) (now : Nat),
    Stale st tok B → timesGE B now evs →
    ∀ e ∈ traceM st now evs, e.2.1 = .request tok → e.2.2 = .auth false
  | [], _, _, _, _, e, he, _ => by simp [traceM] at he
  | .advance d :: evs, st, now, h, ht, e, he, hr => stale_never_auth tok B evs st (now + d) h ht e he hr
  | .op o :: evs, st, now, h, ht, e, he, hr => by
    obtain ⟨h1, h2⟩ := stale_step h ht.1 o
    simp only [traceM, List.mem_cons] at he
    rcases he with rfl | he
    · exact h2 hr
    · exact stale_never_auth tok B evs _ now h1 ht.2 e he hr

theorem timesGE_mono {B B' : Nat} (h : B' ≤ B) : ∀ (evs : List Ev) (now : Nat), timesGE B now evs → timesGE B' now evs
  | [], _, _ => trivial
  | .advance d :: evs, now, ht => timesGE_mono h evs (now + d) ht
  | .op _ :: evs, now, ht => ⟨Nat.le_trans h ht.1, timesGE_mono h evs now ht.2⟩

theorem login_ok_tables {st : St} {now addr : Nat} {good : Bool} {user t : Nat}
    (hok : (login st now addr good user).1 = .ok t) :
    t = st.nextTok ∧ (login st now addr good user).2.nextTok = st.nextTok + 1 ∧
    (login st now addr good user).2.mem = st.mem.set st.nextTok ⟨user, (now32 now + st.ttl) % u32⟩ ∧
    (login st now addr good user).2.db = st.db.set st.nextTok ⟨user, (now32 now + st.ttl) % u32⟩ := by
  cases hrl : st.rl with
  | none =>
    rw [login_none hrl] at hok ⊢
    cases good with
    | true => rw [evalLogin_good] at hok ⊢; simp at hok; exact ⟨hok.symm, rfl, rfl, rfl⟩
    | false => rw [evalLogin_bad] at hok; cases hok
  | some l =>
    by_cases hleft : (l.check addr now).1 > 0
    · rw [login_blocked hrl hleft] at hok; cases hok
    · rw [login_pass hrl hleft] at hok ⊢
      cases good with
      | true => rw [evalLogin_good] at hok ⊢; simp at hok; exact ⟨hok.symm, rfl, rfl, rfl⟩
      | false => rw [evalLogin_bad] at hok; cases hok

/-! ### failing writes -/

theorem stepF_true (st : St) (now : Nat) (o : Op) : stepF st now true o = step st now o := by
  cases o with
  | login req good user =>
    simp only [stepF, step, handleLoginF, handleLogin, loginAt, evalLoginF, evalLogin, if_true]
  | basic req good => rfl
  | request tok => simp only [stepF, step, checkSessionF, checkSession, if_true]
  | logout tok => simp only [stepF, step, logoutF, logout, if_true]
  | restart => rfl


theorem handleLoginF_false_db (st : St) (now : Nat) (req : Req) (good : Bool) (user : Nat) :
    (handleLoginF st now req good user false).2.db = st.db := by
  unfold handleLoginF
  cases st.rl with
  | none => simp only [evalLoginF]; split <;> rfl
  | some l =>
    simp only
    split
    · rfl
    · simp only [evalLoginF]; split <;> rfl


/-! ### the two steps of logout, interleaved with other goroutines -/

theorem logout_two_steps (st : St) (tok : Nat) : logout st tok = logoutFile (logoutMem st tok) tok := rfl

/-- no restart among the events -/
def noRestartEv : List Ev → Bool
  | [] => true
  | .op .restart :: _ => false
  | _ :: evs => noRestartEv evs

/-- the token is issued and absent from the memory map -/
def MemGone (st : St) (tok : Nat) : Prop := tok < st.nextTok ∧ st.mem tok = none

theorem memGone_step {st : St} {tok now : Nat} (h : MemGone st tok) (o : Op) (ho : o ≠ .restart) :
    MemGone (step st now o).2 tok ∧ (o = .request tok → (step st now o).1 = .auth false) := by
  obtain ⟨hlt, hm⟩ := h
  cases o with
  | login req good user =>
    refine ⟨?_, fun e => by cases e⟩
    simp only [step, handleLogin_eq]
    rcases login_tables st now req.peer good user with ⟨e1, e2, _⟩ | ⟨e1, e2, _⟩
    · exact ⟨by rw [e1]; exact hlt, by rw [e2]; exact hm⟩
    · have hne : tok ≠ st.nextTok := by omega
      exact ⟨by rw [e1]; omega, by rw [e2]; simp [FMap.set, hne, hm]⟩
  | basic req good =>
    refine ⟨?_, fun e => by cases e⟩
    obtain ⟨e1, _, e3⟩ := basic_tables true st now req good
    simp only [step]
    exact ⟨by rw [e3]; exact hlt, by rw [e1]; exact hm⟩
  | request t =>
    simp only [step]
    by_cases ht : t = tok
    · subst ht
      have : checkSession st now t = (.notFound, st) := by simp [checkSession, hm]
      rw [this]
      exact ⟨⟨hlt, hm⟩, fun _ => by simp⟩
    · have hne : tok ≠ t := fun e => ht e.symm
      refine ⟨?_, fun e => by cases e; exact absurd rfl ht⟩
      unfold checkSession
      cases hmt : st.mem t with
      | none => exact ⟨hlt, hm⟩
      | some s =>
        simp only
        by_cases hexp : s.expire ≤ now32 now
        · simp only [hexp, if_true]
          exact ⟨hlt, by simp [FMap.erase, hne, hm]⟩
        · simp only [hexp, if_false]
          split
          · exact ⟨hlt, by simp [FMap.set, hne, hm]⟩
          · exact ⟨hlt, hm⟩
  | logout t =>
    refine ⟨⟨hlt, ?_⟩, fun e => by cases e⟩
    simp only [step, logout, FMap.erase]
    split
    · rfl
    · exact hm
  | restart => exact absurd rfl ho

theorem memGone_run (tok : Nat) : ∀ (evs : List Ev) (st : St) (now : Nat),
    MemGone st tok → noRestartEv evs = true →
    MemGone (runM st now evs).1 tok ∧
    ∀ e ∈ traceM st now evs, e.2.1 = .request tok → e.2.2 = .auth false
  | [], _, _, h, _ => ⟨h, fun e he => by simp [traceM] at he⟩
  | .advance d :: evs, st, now, h, hn => memGone_run tok evs st (now + d) h (by simpa [noRestartEv] using hn)
  | .op o :: evs, st, now, h, hn => by
    have ho : o ≠ .restart := by
      rintro rfl; simp [noRestartEv] at hn
    have hn' : noRestartEv evs = true := by
      cases o <;> first | simpa [noRestartEv] using hn | exact absurd rfl ho
    obtain ⟨h1, h2⟩ := memGone_step (now := now) h o ho
    obtain ⟨r1, r2⟩ := memGone_run tok evs _ now h1 hn'
    refine ⟨r1, ?_⟩
    intro e he hr
    simp only [traceM, List.mem_cons] at he
    rcases he with rfl | he
    · exact h2 hr
    · exact r2 e he hr

theorem timesGE_zero : ∀ (evs : List Ev) (now : Nat), timesGE 0 now evs
  | [], _ => trivial
  | .advance d :: evs, now => timesGE_zero evs (now + d)
  | .op _ :: evs, now => ⟨Nat.zero_le _, timesGE_zero evs now⟩

end AGH.C12
