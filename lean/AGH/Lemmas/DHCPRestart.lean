/-
C10 — helper lemmas, part 8: concrete witnesses (for the counterexamples and
the non-vacuity examples) and the restart of a table whose leases all carry
distinct, normalised names.
-/
import AGH.Lemmas.DHCPObs
namespace AGH.C10
open AGH

/-! ### witnesses -/

/-- An oracle that accepts every name as it is. -/
def O0 : Oracle := { norm := fun b => some b, valid := fun _ => true }
/-- Gateway 0.0.0.1/24, pool 0.0.0.10–0.0.0.12, lease time 60 s; the tree as it is. -/
def c0 : Conf := { gw := 1, maskLen := 24, start := 10, stop := 12, leaseTime := 60, sid := 2 }
/-- The same configuration on the code before the repairs of R3 and R4. -/
def c0old : Conf := { c0 with fixR3 := false, fixR4 := false }
def mA : Bytes := [2, 0, 0, 0, 0, 1]
def mB : Bytes := [2, 0, 0, 0, 0, 2]
def mC : Bytes := [2, 0, 0, 0, 0, 3]
/-- `0-0-0-10`, the name `GenerateHostname` gives 0.0.0.10. -/
def name10 : Bytes := [48, 45, 48, 45, 48, 45, 49, 48]
def alpha : Bytes := [97, 108, 112, 104, 97]

theorem c0_valid : validate c0 = true := by decide
theorem c0old_valid : validate c0old = true := by decide

/-- R3: a reservation named `0-0-0-10`; a client is offered 0.0.0.10 and requests it without a hostname. -/
def opsR3 : List Op := [.addStatic mA 20 name10, .discover mB, .request mB 2 true 10 0 []]
/-- R4: one DISCOVER that is never followed by a REQUEST. -/
def opsR4 : List Op := [.discover mB]
/-- R4 with the generated name taken: a reservation named `0-0-0-10`, then the DISCOVER. -/
def opsR4b : List Op := [.addStatic mA 20 name10, .discover mB]
/-- A busy, healthy table: reservation, two acknowledged clients, one offer. -/
def opsOK : List Op :=
  [.addStatic mA 20 alpha, .discover mB, .request mB 2 true 10 0 [98], .discover mC, .request mC 2 true 11 0 [99],
   .sleep 5, .discover [2, 0, 0, 0, 0, 4]]

/-- Mixed hardware-address lengths: three 8-byte clients fill the pool, then a
6-byte client whose address is the prefix of the second one's sends DISCOVER
(the pattern of R5, repaired by a691f53). -/
def opsMixed : List Op :=
  [.discover [2, 0, 0, 0, 0, 1, 7, 7], .discover [2, 0, 0, 0, 0, 2, 7, 7], .discover [2, 0, 0, 0, 0, 3, 7, 7],
   .discover mB]

/-! ### restart of a fully named table -/

/-- What `resetLoop` needs of the records to re-add every one of them unchanged. -/
structure Loadable (O : Oracle) (c : Conf) (d : List DLease) : Prop where
  subnet : ∀ x ∈ d, x.static = true → inSubnet c x.ip = true
  pool : ∀ x ∈ d, x.static = false → c.start ≤ x.ip ∧ x.ip ≤ c.stop
  named : ∀ x ∈ d, loadHost O c x = x.host
  exp0 : ∀ x ∈ d, x.static = true → x.exp = 0
  distinct : d.Pairwise (fun x y => x.host = [] ∨ x.host ≠ y.host)

theorem Loadable.tail {O : Oracle} {c : Conf} {x : DLease} {rest : List DLease} (hl : Loadable O c (x :: rest)) :
    Loadable O c rest :=
  { subnet := fun y hy => hl.subnet y (List.mem_cons_of_mem _ hy)
    pool := fun y hy => hl.pool y (List.mem_cons_of_mem _ hy)
    named := fun y hy => hl.named y (List.mem_cons_of_mem _ hy)
    exp0 := fun y hy => hl.exp0 y (List.mem_cons_of_mem _ hy)
    distinct := (List.pairwise_cons.1 hl.distinct).2 }

theorem validHost_idem {O : Oracle} {h : Bytes} {ip : Nat} (h1 : h ≠ []) (h2 : O.norm h = some h) (h3 : O.valid h = true) :
    validHost O h ip = h := by
  unfold validHost
  simp [h2, h1, h3]

/-- Loading a loadable file into a table whose index has none of its names re-creates every record. -/
theorem resetLoop_loadable (O : Oracle) (c : Conf) : ∀ (d : List DLease) (s : State), Loadable O c d →
    (∀ x ∈ d, x.host ≠ [] → s.hosts x.host = none) →
    (resetLoop O c d s).leases.map Lease.toDisk = s.leases.map Lease.toDisk ++ d := by
  intro d
  induction d with
  | nil => intro s _ _; simp [resetLoop]
  | cons x rest ih =>
    intro s hl hfree
    have hhost : loadHost O c x = x.host := hl.named x List.mem_cons_self
    have hlease : loadLease O c x s.nextId =
        { id := s.nextId, mac := x.mac, ip := x.ip, host := x.host, static := x.static, exp := x.exp } := by
      unfold loadLease; rw [hhost]
    unfold resetLoop
    rw [hlease]
    have hadd : addLease c { id := s.nextId, mac := x.mac, ip := x.ip, host := x.host, static := x.static, exp := x.exp } s.fresh.2 =
        .ok (addLeaseOK c { id := s.nextId, mac := x.mac, ip := x.ip, host := x.host, static := x.static, exp := x.exp } s.fresh.2) := by
      unfold addLease
      have h1 : (x.static && !inSubnet c x.ip) = false := by
        cases hs : x.static
        · rfl
        · simp [hl.subnet x List.mem_cons_self hs]
      have h2 : (!x.static && (offset c x.ip).isNone) = false := by
        cases hs : x.static
        · obtain ⟨p1, p2⟩ := hl.pool x List.mem_cons_self hs
          simp [offset_eq_some.2 ⟨p1, p2, rfl⟩]
        · rfl
      have h3 : ¬ (x.host ≠ [] ∧ (s.fresh.2.hosts x.host).isSome = true) := by
        rintro ⟨hne, hsome⟩
        have := hfree x List.mem_cons_self hne
        simp only [State.fresh] at hsome
        rw [this] at hsome; cases hsome
      simp only [h1, h2, Bool.false_eq_true, if_false]
      rw [if_neg h3]
    rw [hadd]
    simp only []
    rw [ih _ hl.tail]
    · have : Lease.toDisk { id := s.nextId, mac := x.mac, ip := x.ip, host := x.host, static := x.static, exp := x.exp } = x := by
        unfold Lease.toDisk
        cases hs : x.static
        · cases x; simp_all
        · have := hl.exp0 x List.mem_cons_self hs
          cases x; simp_all
      simp [addLeaseOK, State.fresh, this]
    · intro y hy hne
      have hxy := (List.pairwise_cons.1 hl.distinct).1 y hy
      simp only [addLeaseOK, State.fresh]
      by_cases hx : x.host ≠ []
      · rw [if_pos hx]
        have : y.host ≠ x.host := by
          rcases hxy with h | h
          · exact absurd h hx
          · exact fun e => h e.symm
        rw [setFn_other _ _ _ this]
        exact hfree y (List.mem_cons_of_mem _ hy) hne
      · rw [if_neg hx]
        exact hfree y (List.mem_cons_of_mem _ hy) hne

theorem resetLoop_disk (O : Oracle) (c : Conf) : ∀ (d : List DLease) (s : State),
    (resetLoop O c d s).disk = s.disk ∧ (resetLoop O c d s).now = s.now := by
  intro d
  induction d with
  | nil => intro s; exact ⟨rfl, rfl⟩
  | cons x rest ih =>
    intro s
    unfold resetLoop
    cases hadd : addLease c (loadLease O c x s.nextId) s.fresh.2 with
    | error e => exact ih _
    | ok s' =>
      obtain ⟨_, _, h3, h4⟩ := addLease_leases hadd
      have := ih s'
      simp only []
      rw [this.1, this.2, h3, h4]; exact ⟨rfl, rfl⟩

/-- A restart restores the table exactly as the file lists it — whatever order
the file is in — when the file mirrors the table, reservations lie in the
subnet, loading leaves every dynamic name alone, and no two leases share a name. -/
theorem restart_restores {O : Oracle} {c : Conf} {s : State} (h : Inv c s) (hm : Mirror s)
    (hsub : ∀ l ∈ s.leases, l.static = true → inSubnet c l.ip = true)
    (hnamed : ∀ l ∈ s.leases, l.static = false → loadHost O c l.toDisk = l.host)
    (huniq : ∀ l₁ ∈ s.leases, ∀ l₂ ∈ s.leases, l₁.host = l₂.host → l₁.host ≠ [] → l₁ = l₂) :
    ((restart O c s).leases.map Lease.toDisk).Perm (s.leases.map Lease.toDisk) ∧
    (restart O c s).disk = s.disk ∧
    (∀ d, s.disk = some d → (restart O c s).leases.map Lease.toDisk = d) := by
  unfold restart
  simp only []
  rcases hm with ⟨d, hd, hp⟩ | ⟨hd, hl⟩
  · rw [hd]
    simp only []
    have hmem : ∀ x ∈ d, ∃ l ∈ s.leases, x = l.toDisk := by
      intro x hx
      obtain ⟨l, hl, rfl⟩ := List.mem_map.1 (hp.mem_iff.1 hx)
      exact ⟨l, hl, rfl⟩
    have hload : Loadable O c d := by
      refine ⟨?_, ?_, ?_, ?_, ?_⟩
      · intro x hx hs
        obtain ⟨l, hl, rfl⟩ := hmem x hx
        exact hsub l hl (by simpa [Lease.toDisk] using hs)
      · intro x hx hs
        obtain ⟨l, hl, rfl⟩ := hmem x hx
        exact h.dynPool l hl (by simpa [Lease.toDisk] using hs)
      · intro x hx
        obtain ⟨l, hl, rfl⟩ := hmem x hx
        cases hs : l.static
        · exact hnamed l hl hs
        · unfold loadHost; simp [Lease.toDisk, hs]
      · intro x hx hs
        obtain ⟨l, hl, rfl⟩ := hmem x hx
        have : l.static = true := by simpa [Lease.toDisk] using hs
        simp [Lease.toDisk, this]
      · refine hp.symm.pairwise ?_ ?_
        · rw [List.pairwise_map]
          have hpw : s.leases.Pairwise (fun a b => a.ip ≠ b.ip) := by
            have := List.nodup_iff_pairwise_ne.1 h.ipNodup
            exact List.pairwise_map.1 this
          refine hpw.imp_of_mem ?_
          intro a b ha hb hab
          by_cases hh : a.host = []
          · exact .inl (by simpa [Lease.toDisk] using hh)
          · refine .inr ?_
            intro e
            have : a = b := huniq a ha b hb (by simpa [Lease.toDisk] using e) hh
            exact hab (by rw [this])
        · intro x y hxy
          rcases hxy with h1 | h1
          · by_cases hy : y.host = []
            · exact .inl hy
            · exact .inr (fun e => hy (by rw [e, h1]))
          · exact .inr (fun e => h1 e.symm)
    have hres := resetLoop_loadable O c d { State.init with nextId := s.nextId, now := s.now, disk := s.disk } hload
      (by intro x _ _; rfl)
    rw [hd] at hres
    have hres' : (resetLoop O c d { State.init with nextId := s.nextId, now := s.now, disk := some d }).leases.map Lease.toDisk = d := by
      simpa [State.init] using hres
    refine ⟨by rw [hres']; exact hp, ?_, ?_⟩
    · exact (resetLoop_disk O c d _).1
    · intro d' hd'
      cases hd'
      exact hres'
  · rw [hd, hl]
    refine ⟨by simp [State.init], rfl, ?_⟩
    intro d hd'
    cases hd'

end AGH.C10
