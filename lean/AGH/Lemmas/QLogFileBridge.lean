/-
C20 ↔ C07 at FILE level: the byte-level `qLogFile` of C20 over
`concat (map encodeLine es)` is C07's list-level file (`fileSeek`, "ReadNext =
previous element", `SeekStart`).  C07's file (`AGH/Model/QLog.lean`) is imported
read-only.
-/
import AGH.Lemmas.QLogCompose
namespace AGH.C20
open AGH

section
variable (P : Params) (enc : C07.Entry → Bytes) (tsOf : Bytes → Int) (es : List C07.Entry)

/-- The report C07's `fileSeek` uses for an absent timestamp, as C20's error. -/
def classErr : C07.SeekRes → Err
  | .found _ => .other
  | .tooEarly => .tooEarly
  | .tooLate => .tooLate
  | .notFound => .notFound

theorem fileSeek_found (t : Int) (k : Nat) (h : ∀ e ∈ es, tsOf (enc e) = e.ts)
    (hf : C07.fileSeek es t = .found k) : findStampIdx ((es.map enc).map tsOf) t = some k := by
  have := lineSeekFile_fileSeek enc tsOf es t h
  rw [hf] at this
  unfold lineSeekFile at this
  cases hx : findStampIdx ((es.map enc).map tsOf) t with
  | some k' => rw [hx] at this; simp only [Except.ok.injEq] at this; rw [this]
  | none => rw [hx] at this; cases this

theorem fileSeek_absent (t : Int) (h : ∀ e ∈ es, tsOf (enc e) = e.ts)
    (hf : ∀ k, C07.fileSeek es t ≠ .found k) :
    findStampIdx ((es.map enc).map tsOf) t = none ∧
      absentErr tsOf t (es.map enc) = classErr (C07.fileSeek es t) := by
  have := lineSeekFile_fileSeek enc tsOf es t h
  unfold lineSeekFile at this
  cases hx : findStampIdx ((es.map enc).map tsOf) t with
  | some k' =>
    rw [hx] at this
    cases hfs : C07.fileSeek es t with
    | found k => exact absurd hfs (hf k)
    | tooEarly => rw [hfs] at this; cases this
    | tooLate => rw [hfs] at this; cases this
    | notFound => rw [hfs] at this; cases this
  | none =>
    rw [hx] at this
    refine ⟨rfl, ?_⟩
    cases hfs : C07.fileSeek es t with
    | found k => exact absurd hfs (hf k)
    | tooEarly => rw [hfs] at this; simp only [Except.error.injEq] at this; rw [this]; rfl
    | tooLate => rw [hfs] at this; simp only [Except.error.injEq] at this; rw [this]; rfl
    | notFound => rw [hfs] at this; simp only [Except.error.injEq] at this; rw [this]; rfl

end
end AGH.C20
