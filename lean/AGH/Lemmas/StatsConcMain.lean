/-
C09: the interleaving theorem instantiated with the programs of the statistics
context under lock facts that satisfy `okFor`.
-/
import AGH.Lemmas.StatsConcInst
namespace AGH.C09

/-- The critical section of an operation under the facts (`none`: rejected
before locking, or — outside `okFor` — no `confMu` at all). -/
def progOf (F : LockFacts) (op : COp) : Option (CProg Loc) :=
  if rejected op then none else (confOf F op).map fun m => ⟨m, bodyOf F op⟩

def setupOf (F : LockFacts) (ops : Nat → Option COp) (s0 : State) : Setup Loc :=
  { progs := fun t => (ops t).bind (progOf F), loc0 := fun _ => Loc.init, init := s0 }

/-- The sequential operation thread `t` stands for (`read` for an unused thread id). -/
def opOf (ops : Nat → Option COp) (t : Nat) : Op :=
  match ops t with
  | some op => op.toOp
  | none => .read

theorem okFor_conf {F : LockFacts} {op : COp} (h : okFor F op = true) (hr : rejected op = false) :
    ∃ m, confOf F op = some m ∧ (op.writes = true → m = .W) := by
  simp only [okFor, hr, Bool.false_or] at h
  cases hw : op.writes with
  | true =>
    simp only [hw, if_true, beq_iff_eq] at h
    exact ⟨.W, h, fun _ => rfl⟩
  | false =>
    simp only [hw, Bool.false_eq_true, if_false, Option.isSome_iff_exists] at h
    obtain ⟨m, hm⟩ := h
    exact ⟨m, hm, fun h => by cases h⟩

theorem concInit_eq (F : LockFacts) (ops : Nat → Option COp) (s0 : State)
    (hok : ∀ t op, ops t = some op → okFor F op = true) :
    concInit F ops s0 = (setupOf F ops s0).initSys := by
  simp only [concInit, Setup.initSys, setupOf]
  congr 1
  funext t
  simp only [Setup.code]
  cases hop : ops t with
  | none => rfl
  | some op =>
    simp only [Option.bind_some, progOf, codeOf]
    cases hr : rejected op with
    | true => simp
    | false =>
      obtain ⟨m, hm, _⟩ := okFor_conf (hok t op hop) hr
      simp [hm, optLock, optUnlock, CProg.code]

theorem bodyOf_noConf (F : LockFacts) (op : COp) : ∀ i ∈ bodyOf F op, i.isConf = false := by
  have key : (bodyOf F op).all (fun i => !i.isConf) = true := by
    cases op with
    | upd e => cases h : F.updCurr <;> simp [bodyOf, updBody, h, optLock, optUnlock, Instr.isConf]
    | flush id => cases h : F.flushCurr <;> simp [bodyOf, flushBody, h, optLock, optUnlock, Instr.isConf]
    | read => cases h : F.loadCurr <;> simp [bodyOf, readBody, h, optLock, optUnlock, Instr.isConf]
    | setDays d =>
      by_cases hz : d * 24 * msPerHour ≠ 0
      · simp [bodyOf, setDaysBody, hz, Instr.isConf]
      · cases h : F.clearCurr <;> simp [bodyOf, setDaysBody, hz, clearSteps, h, optLock, optUnlock, Instr.isConf]
    | putConf ms en => simp [bodyOf, putConfBody, Instr.isConf]
    | reset => cases h : F.clearCurr <;> simp [bodyOf, clearSteps, h, optLock, optUnlock, Instr.isConf]
  intro i hi
  have := List.all_eq_true.mp key i hi
  simpa using this

theorem readBody_ro (F : LockFacts) : ∀ i ∈ readBody F, i.readOnly := by
  intro i hi
  cases h : F.loadCurr <;>
  · simp only [readBody, h, optLock, optUnlock, List.cons_append, List.nil_append, List.append_nil,
      List.mem_cons, List.not_mem_nil, or_false] at hi
    rcases hi with rfl | rfl | rfl | rfl | rfl | rfl | rfl | rfl | rfl <;>
      first
        | trivial
        | (intro s l; dsimp only; split <;> rfl)
        | (intro s l; rfl)

theorem progOf_wf (F : LockFacts) (op : COp) (p : CProg Loc) (hp : progOf F op = some p)
    (hok : okFor F op = true) : p.WF := by
  simp only [progOf] at hp
  cases hr : rejected op with
  | true => simp [hr] at hp
  | false =>
    obtain ⟨m, hm, hw⟩ := okFor_conf hok hr
    simp only [hr, Bool.false_eq_true, if_false, hm, Option.map_some, Option.some.injEq] at hp
    subst hp
    refine ⟨bodyOf_noConf F op, ?_⟩
    intro hmode
    simp only at hmode
    cases op with
    | read => exact readBody_ro F
    | upd e => have := hw rfl; rw [this] at hmode; cases hmode
    | flush id => have := hw rfl; rw [this] at hmode; cases hmode
    | setDays d => have := hw rfl; rw [this] at hmode; cases hmode
    | putConf ms en => have := hw rfl; rw [this] at hmode; cases hmode
    | reset => have := hw rfl; rw [this] at hmode; cases hmode

theorem setupOf_wf (F : LockFacts) (ops : Nat → Option COp) (s0 : State)
    (hok : ∀ t op, ops t = some op → okFor F op = true) :
    ∀ t p, (setupOf F ops s0).progs t = some p → p.WF := by
  intro t p hp
  simp only [setupOf] at hp
  cases hop : ops t with
  | none => simp [hop] at hp
  | some op =>
    simp only [hop, Option.bind_some] at hp
    exact progOf_wf F op p hp (hok t op hop)

/-- What thread `t`'s operation does alone is one step of the sequential model. -/
theorem step_effect (F : LockFacts) (ops : Nat → Option COp) (s0 : State)
    (hok : ∀ t op, ops t = some op → okFor F op = true) (t : Nat) (s : State) :
    step s (opOf ops t) = some ((setupOf F ops s0).effect t s).1 := by
  simp only [opOf, Setup.effect, setupOf]
  cases hop : ops t with
  | none => simp [step]
  | some op =>
    simp only [Option.bind_some, progOf]
    cases hr : rejected op with
    | true => simp [rejected_step op s hr]
    | false =>
      obtain ⟨m, hm, _⟩ := okFor_conf (hok t op hop) hr
      simp [hm, bodyOf_effect F op s hr]

theorem runOps_seq (F : LockFacts) (ops : Nat → Option COp) (s0 : State)
    (hok : ∀ t op, ops t = some op → okFor F op = true) (hist : List Nat) (s : State) :
    runOps s (hist.map (opOf ops)) = some (hist.foldl (fun s t => ((setupOf F ops s0).effect t s).1) s) := by
  induction hist generalizing s with
  | nil => rfl
  | cons t hist ih =>
    simp only [List.map_cons, runOps, step_effect F ops s0 hok t s, List.foldl_cons]
    exact ih _

/-- A finished read returns `getData` of the state it ran on. -/
theorem read_effect (F : LockFacts) (ops : Nat → Option COp) (s0 : State)
    (hok : ∀ t op, ops t = some op → okFor F op = true) (t : Nat) (hop : ops t = some .read) (s : State) :
    ((setupOf F ops s0).effect t s).2.result = some (getData s) := by
  have hr : rejected COp.read = false := rfl
  obtain ⟨m, hm, _⟩ := okFor_conf (hok t _ hop) hr
  simp only [Setup.effect, setupOf, hop, Option.bind_some, progOf, hr, Bool.false_eq_true, if_false, hm,
    Option.map_some, bodyOf]
  exact (readBody_effect F s).2

end AGH.C09
