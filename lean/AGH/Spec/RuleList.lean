/-
C15 declarative spec, from the property text:

  * a refresh that fails (connection error, non-200, body cut short, HTML or
    binary content, unreadable local file) leaves the list's file, its rule
    count (and checksum) and the rules in force exactly as they were;
  * a successful refresh stores the list in a normal form — comments and blank
    lines dropped, lines trimmed — whose re-parse yields the same rule count
    and checksum;
  * content whose checksum is unchanged is not rewritten.

`bytes.TrimSpace` (`trimSpace`) and CRC-32 (`crcUpdate`) are library
functions shared with the model; everything else here is independent of the
parser's code.
-/
import AGH.Model.RuleList
namespace AGH.C15
open AGH AGH.Bytes

/-- A line that is kept: not blank, not a `#`/`!` comment (after trimming). -/
def isContent (l : Bytes) : Bool :=
  match l with
  | [] => false
  | c :: _ => c != 35 && c != 33

/-- The rule lines of a text: split at `\n`, trim, drop blanks and comments. -/
def specLines (src : Bytes) : List Bytes :=
  ((splitOn nl src).map trimSpace).filter isContent

/-- The normal form: every rule line followed by `\n`. -/
def joinLines : List Bytes → Bytes
  | [] => []
  | l :: ls => l ++ nl :: joinLines ls

def normalForm (src : Bytes) : Bytes := joinLines (specLines src)

def crcLines : Nat → List Bytes → Nat
  | c, [] => c
  | c, l :: ls => crcLines (crcUpdate c l) ls

/-- "HTML content": the first kept line starts like an HTML document. -/
def htmlDoc (src : Bytes) : Bool :=
  match specLines src with
  | [] => false
  | l :: _ => isHTMLLine l

/-- "binary content": a kept line has a control byte other than TAB. -/
def binaryDoc (src : Bytes) : Bool := (specLines src).any (·.any likelyBinary)

/-- What the harness observes of one `Parse`. -/
structure ParseObs where
  ok : Bool            -- err == nil
  count : Nat
  crc : Nat
  out : Bytes          -- bytes written to dst
  /-- re-parse of `out` by the real parser: (ok, count, checksum, output == out) -/
  reOk : Bool
  reCount : Nat
  reCrc : Nat
  reSame : Bool

def parseSpecWhy (src : Bytes) (complete : Bool) (o : ParseObs) : Option String :=
  if !o.ok then none            -- a failed parse stores nothing (the refresh spec covers it)
  else if !complete then some "cut-body-accepted"
  else if htmlDoc src then some "html-accepted"
  else if binaryDoc src then some "binary-accepted"
  else if o.out != normalForm src then some "stored-form-not-normal"
  else if o.count != (specLines src).length then some "count-is-not-number-of-rule-lines"
  else if o.crc != crcLines 0 (specLines src) then some "checksum-is-not-crc-of-rule-lines"
  else if !o.reOk || o.reCount != o.count || o.reCrc != o.crc || !o.reSame then some "reparse-unstable"
  else none

/-- What the parser harness observes when the implementation behaves like the model. -/
def parseObsOf (src : Bytes) (complete : Bool) : ParseObs :=
  ⟨(parse src complete).err.isNone, (parse src complete).st.count, (parse src complete).st.crc,
   (parse src complete).out, (parse (parse src complete).out true).err.isNone,
   (parse (parse src complete).out true).st.count, (parse (parse src complete).out true).st.crc,
   (parse (parse src complete).out true).out == (parse src complete).out⟩

/-! ### Refresh -/

/-- The download is one of the enumerated failures. -/
def fetchBad (f : Fetch) : Bool :=
  match f with
  | .fail => true
  | .body data complete => !complete || htmlDoc data || binaryDoc data

def digits (n : Nat) : Bytes := (toString n).toUTF8.toList.map (·.toNat)

/-- The probe rule `||w<k>.l<i>.example^` of list `i`. -/
def probeRule (i k : Nat) : Bytes :=
  [124, 124, 119] ++ digits k ++ [46, 108] ++ digits i ++ [46, 101, 120, 97, 109, 112, 108, 101, 94]

/-- Which of the four probe names of list `i` a list content blocks/allows
(bit mask) — what `CheckHost` is asked after every refresh. -/
def maskOf (i : Nat) (content : Option Bytes) : Nat :=
  match content with
  | none => 0
  | some c =>
    let ls := splitOn nl c
    (List.range 4).foldl (fun acc k => if ls.contains (probeRule i k) then acc + 2 ^ k else acc) 0

/-- Observation of one list before/after a refresh. -/
structure ListObs where
  count : Nat
  checksum : Nat
  file : Option Bytes     -- content of data/filters/<id>.txt
  inForce : Nat           -- bit mask: which probe names the engine blocks/allows through this list
  rewritten : Bool        -- the file was replaced (new inode) during this refresh
  /-- what a restart computes: `DNSFilter.load` (re-parse of the stored file) -/
  reCount : Nat
  reCrc : Nat
  deriving DecidableEq, Repr

def refreshSpecWhy (i : Nat) (before : ListObs) (f : Fetch) (attempted : Bool) (after : ListObs) : Option String :=
  if !attempted then
    (if after.count != before.count || after.checksum != before.checksum || after.file != before.file ||
        after.rewritten then some "untouched-list-changed" else none)
  else if fetchBad f then
    (if after.file != before.file then some "failed-refresh-changed-file"
     else if after.rewritten then some "failed-refresh-rewrote-file"
     else if after.count != before.count then some "failed-refresh-changed-count"
     else if after.checksum != before.checksum then some "failed-refresh-changed-checksum"
     else if after.inForce != before.inForce then
       -- narrower class: what came into force is the content already on disk, stored by an
       -- earlier successful refresh that was never activated
       (if after.inForce == maskOf i before.file then some "failed-refresh-activated-earlier-stored-content"
        else some "failed-refresh-changed-rules-in-force")
     else none)
  else
    match f with
    | .fail => none
    | .body data _ =>
      if after.checksum == before.checksum then
        (if after.rewritten || after.file != before.file then some "unchanged-checksum-rewritten"
         else if after.count != before.count then some "unchanged-checksum-count-moved"
         -- the server's CURRENT body is acceptable and is not the version that is stored: a
         -- refresh that went through must not leave the old version in place (e.g. by trusting
         -- a "not modified" answer it provoked itself)
         else if (splitOn nl data).all (fun l => decide (l.length < maxToken)) &&
             crcLines 0 (specLines data) != before.checksum then
           some "successful-refresh-kept-stale-version"
         else none)
      else if after.file != some (normalForm data) then
        -- a refresh may still fail for a reason the property does not list (e.g. a line too
        -- long); then nothing may change
        (if after.file == before.file && after.count == before.count && !after.rewritten then none
         else some "stored-form-not-normal")
      else if after.count != (specLines data).length then some "count-is-not-number-of-rule-lines"
      else if after.checksum != crcLines 0 (specLines data) then some "checksum-is-not-crc-of-rule-lines"
      -- "a normal form whose re-parse yields the same rule count and checksum"
      else if after.reCount != after.count || after.reCrc != after.checksum then
        some "restart-reparse-differs-from-recorded"
      else none

/-- Monitor of one `set_url` request on list `i` (not a refresh, so the
property text covers it only by analogy; the checksum is deliberately not
constrained on failure — observation O1): a refused request changes neither
URL, file, count nor the rules in force; an accepted one leaves the old file
or stores the normal form of the complete body fetched for it. -/
def setSpecWhy (before : ListObs) (ok : Bool) (urlChanged : Bool) (f : Fetch) (after : ListObs) : Option String :=
  if !ok then
    (if urlChanged then some "failed-seturl-changed-url"
     else if after.file != before.file || after.rewritten then some "failed-seturl-changed-file"
     else if after.count != before.count then some "failed-seturl-changed-count"
     else if after.inForce != before.inForce then some "failed-seturl-changed-rules-in-force"
     else none)
  else if after.file != before.file || after.rewritten then
    match f with
    | .body data true =>
      if after.file != some (normalForm data) then some "seturl-stored-form-not-normal"
      else if after.count != (specLines data).length then some "seturl-count-is-not-number-of-rule-lines"
      else if after.checksum != crcLines 0 (specLines data) then some "seturl-checksum-is-not-crc-of-rule-lines"
      else none
    | _ => some "seturl-stored-without-complete-body"
  else none

/-- One operation on a single list: a refresh attempt or a set_url request. -/
inductive LOp where
  | refresh (f : Fetch)
  | setURL (rq : SetReq) (f : Fetch)

def applyOp (flt : Flt) : LOp → Flt
  | .refresh f => refreshOne flt f
  | .setURL rq f => (setProps flt rq f).flt

/-- What holds of a list at every moment of every history of refreshes and
set_url requests: there is no file and the metadata are zero, or the file is
exactly the stored form of ONE complete successful download and count and
checksum are each either zero or those of that download. -/
def WeakConsistent (flt : Flt) : Prop :=
  (flt.file = none ∧ flt.count = 0 ∧ flt.checksum = 0) ∨
  ∃ data, (parse data true).err = none ∧ flt.file = some (parse data true).out ∧
    (flt.count = 0 ∨ flt.count = (parse data true).st.count) ∧
    (flt.checksum = 0 ∨ flt.checksum = (parse data true).st.crc)

/-- The engine's view of a list agrees with its file. -/
def InSync (l : LState) : Prop := l.inForce = (if l.flt.enabled then l.flt.file else none)

/-- One call that changes the lists: `tryRefreshFilters` or a set_url request. -/
inductive HOp where
  | refresh (rq : Req) (ins : List (Bool × Fetch))
  | setURL (i : Nat) (rq : SetReq) (f : Fetch)

def stepH (ls : List LState) : HOp → List LState
  | .refresh rq ins => refreshStep rq ls ins
  | .setURL i rq f => (setURLStep ls i rq f).1

/-- A history of refreshes and set_url requests. -/
def runHist (h : List HOp) (ls : List LState) : List LState := h.foldl stepH ls

/-- One event of a history with bursts of handler calls. -/
inductive BOp where
  | refresh (rq : Req) (ins : List (Bool × Fetch))
  | setURL (i : Nat) (rq : SetReq) (f : Fetch)
  | enqueue
  | remove (i : Nat)
  | loop

def stepB (s : BState) : BOp → BState
  | .refresh rq ins => refreshB s rq ins
  | .setURL i rq f => (setURLAsync s i rq f).1
  | .enqueue => enqueue s
  | .remove i => removeAsync s i
  | .loop => drain s

def runB (ops : List BOp) (s : BState) : BState := ops.foldl stepB s

/-- The waiting task, if any, is about the list set as it is now; and when
nothing is waiting the engine's view agrees with the files. -/
def BInv (s : BState) : Prop :=
  (∀ snap, s.pending = some snap → snap = enabledFlags s.ls) ∧
  (s.pending = none → ∀ l ∈ s.ls, InSync l)

/-- Monitor of the loop step: after `updatesLoop` has taken the waiting task
the engine's view of every list is the file of that list if it is enabled in
the configuration accepted last, nothing otherwise. -/
def loopSpecWhy (i : Nat) (enabled : Bool) (after : ListObs) : Option String :=
  if after.inForce != maskOf i (if enabled then after.file else none) then
    some "engine-not-in-sync-after-reload"
  else none

/-- What the harness observes of list `i` in model state `l`. -/
def obsOf (i : Nat) (l : LState) (rew : Bool) : ListObs :=
  ⟨l.flt.count, l.flt.checksum, l.flt.file, maskOf i l.inForce, rew,
   match l.flt.file with | some out => (parse out true).st.count | none => 0,
   match l.flt.file with | some out => (parse out true).st.crc | none => 0⟩

end AGH.C15
