/-
C09, top-N part: what must hold between the per-name maps of a unit, its
counters, and what serialisation keeps.
-/
import AGH.Model.StatsTop
namespace AGH.C09

/-- What one `C09.top` case observes on a unit after a burst of accepted
entries, on its serialised form and on the unit deserialised from it. -/
structure TopObs where
  nTotal : Nat
  nResult : List Nat          -- indices 0 … 5
  clientsLen : Nat
  clientsSum : Nat
  domainsLen : Nat
  domainsSum : Nat
  blockedLen : Nat
  blockedSum : Nat
  serClientsLen : Nat
  serClientsSum : Nat
  serClientsMin : Nat          -- smallest kept count (0 if none)
  serDomainsLen : Nat
  serDomainsSum : Nat
  serBlockedLen : Nat
  serBlockedSum : Nat
  backClientsSum : Nat         -- sum of the clients map after deserialize
  deriving DecidableEq, Repr

/-- Every counted query is in the clients map once and in exactly one of the
two domain maps; serialisation keeps at most 100 names per list, never invents
counts, and keeps everything when there are at most 100 names. -/
def topSpecOK (o : TopObs) : Bool :=
  let r := fun i => o.nResult.getD i 0
  o.clientsSum == o.nTotal &&
  o.domainsSum == r 1 &&
  o.blockedSum == r 2 + r 3 + r 4 + r 5 &&
  o.nTotal == r 1 + r 2 + r 3 + r 4 + r 5 &&
  o.serClientsLen == min 100 o.clientsLen && o.serDomainsLen == min 100 o.domainsLen &&
  o.serBlockedLen == min 100 o.blockedLen &&
  decide (o.serClientsSum ≤ o.clientsSum) && decide (o.serDomainsSum ≤ o.domainsSum) &&
  decide (o.serBlockedSum ≤ o.blockedSum) &&
  (if o.clientsLen ≤ 100 then o.serClientsSum == o.clientsSum else true) &&
  (if o.domainsLen ≤ 100 then o.serDomainsSum == o.domainsSum else true) &&
  (if o.blockedLen ≤ 100 then o.serBlockedSum == o.blockedSum else true) &&
  o.backClientsSum == o.serClientsSum

def pairsSum (l : List (Nat × Nat)) : Nat := (l.map (·.2)).sum

def minCount : List (Nat × Nat) → Nat
  | [] => 0
  | [x] => x.2
  | x :: r => min x.2 (minCount r)

/-- The model's observation for a burst of entries. -/
def topObsOf (es : List TopEntry) : TopObs :=
  let u := es.foldl TopUnit.add TopUnit.new
  let sc := topOf u.clients maxTop
  let sd := topOf u.domains maxTop
  let sb := topOf u.blocked maxTop
  { nTotal := u.nTotal, nResult := (List.range 6).map u.nResult
    clientsLen := u.clients.length, clientsSum := u.clients.total
    domainsLen := u.domains.length, domainsSum := u.domains.total
    blockedLen := u.blocked.length, blockedSum := u.blocked.total
    serClientsLen := sc.length, serClientsSum := pairsSum sc, serClientsMin := minCount sc
    serDomainsLen := sd.length, serDomainsSum := pairsSum sd
    serBlockedLen := sb.length, serBlockedSum := pairsSum sb
    backClientsSum := pairsSum sc }

/-- The pseudo-random burst both sides generate from (seed, n, clients, domains):
a linear congruential sequence, so that a case is one short line. -/
def lcg (x : Nat) : Nat := (x * 1103515245 + 12345) % 2147483648

def genEntries : Nat → Nat → Nat → Nat → List TopEntry
  | 0, _, _, _ => []
  | n + 1, x, nc, nd =>
    let x1 := lcg x
    let x2 := lcg x1
    let x3 := lcg x2
    -- skewed: half of the traffic goes to the first eighth of the names
    let pick := fun (v k : Nat) => if (v / 7) % 2 = 0 then (v / 16) % (k / 8 + 1) else (v / 16) % k
    ⟨(x1 / 16) % 5 + 1, pick x2 nd, pick x3 nc⟩ :: genEntries n x3 nc nd

end AGH.C09
