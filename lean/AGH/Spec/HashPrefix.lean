/-
C19 declarative spec, written from the property text:

  "A safe-browsing or parental-control check discloses to the lookup service
   only 2-byte SHA-256 prefixes of the queried name and of its parent domains
   (last four labels at most, ICANN public suffixes excluded), never the name
   itself, and the name is blocked exactly when the service returns a full hash
   equal to one of those.  Answering from the local cache gives the same
   verdict a fresh lookup would, until the entry expires."

The lookup service is a database `db` of full hashes that answers a TXT
question with every hash of `db` carrying one of the prefixes asked (plus
malformed strings and non-TXT records): `serve`.  The monitor `specOK` is
evaluated on what the IMPLEMENTATION did (its verdict and the question it
sent); it knows nothing about caches.
-/
import AGH.Model.HashPrefix
namespace AGH.C19
open AGH AGH.Bytes

/-! ### The names whose hashes may be disclosed / decide the verdict -/

def dots (s : Bytes) : Nat := s.count dot

/-- `s` is `t` or a parent domain of `t` (`t = x ++ "." ++ s`). -/
def isDotSuffixOrEq (s t : Bytes) : Bool := s == t || (dot :: s).isSuffixOf t

/-- The queried name and its parent domains: the name, then everything that
follows a dot; the empty name (the root, after a trailing dot) is not a domain.
Labels are what dots separate, so a trailing dot counts an empty last label. -/
def nameAndParents (host : Bytes) : List Bytes := (subdomains host).filter (fun s => s ≠ [])

/-- `s` (one of `nameAndParents host`) is within the last four labels and is
not the ICANN public suffix of the name nor a parent of it. -/
def allowedName (ps : Bytes) (icann : Bool) (s : Bytes) : Bool :=
  decide (dots s ≤ 3) && !(icann && isDotSuffixOrEq s ps)

def allowedNames (ps : Bytes) (icann : Bool) (host : Bytes) : List Bytes :=
  (nameAndParents host).filter (allowedName ps icann)

/-- Assumption on the public-suffix oracle: an ICANN suffix reported for `host`
is `host` itself or a parent of it, and has at most four labels. -/
def psOK (ps : Bytes) (icann : Bool) (host : Bytes) : Bool :=
  !icann || (isDotSuffixOrEq ps host && decide (dots ps ≤ 3))

/-! ### Privacy: shape of the outgoing question -/

def isLowerHex (c : Nat) : Bool := (decide (48 ≤ c) && decide (c ≤ 57)) || (decide (97 ≤ c) && decide (c ≤ 102))

/-- `q` is `hex(p₁).hex(p₂).….suffix` with every `pᵢ` (as 4 hex digits) in
`allowed`.  Structural on a fuel ≥ length of `q`. -/
def questionShape (allowed : List Bytes) (suffix : Bytes) : Nat → Bytes → Bool
  | 0, q => q == suffix
  | fuel + 1, q =>
    q == suffix ||
    (match q with
     | a :: b :: c :: d :: e :: rest =>
       e == dot && allowed.contains [a, b, c, d] && questionShape allowed suffix fuel rest
     | _ => false)

def privacyOK (H : Bytes → Hash) (suffix ps : Bytes) (icann : Bool) (host : Bytes) (question : Option Bytes) : Bool :=
  match question with
  | none => true
  | some q =>
    questionShape ((allowedNames ps icann host).map (fun s => hexBytes (prefix2 (H s)))) suffix q.length q

/-! ### Verdict -/

/-- The verdict of a fresh lookup against an honest service: some allowed
name's full hash is in the database. -/
def freshVerdict (H : Bytes → Hash) (db : List Hash) (ps : Bytes) (icann : Bool) (host : Bytes) : Bool :=
  (allowedNames ps icann host).any (fun s => db.contains (H s))

/-! ### The lookup service (environment model shared by harness and driver) -/

structure Script where
  err : Bool          -- Exchange fails
  upper : Bool        -- hashes rendered in upper-case hex
  chunk : Nat         -- strings per TXT record (0 = all in one)
  nonTXT : Bool       -- surround the answer with non-TXT records
  junk : List Bytes   -- malformed TXT strings
  deriving Repr

def upperHex (s : Bytes) : Bytes := s.map (fun c => if decide (97 ≤ c) && decide (c ≤ 102) then c - 32 else c)

def chunks (k : Nat) : Nat → List Bytes → List (List Bytes)
  | 0, _ => []
  | fuel + 1, l =>
    if l.isEmpty then [] else
    if k = 0 then [l] else l.take k :: chunks k fuel (l.drop k)

/-- labels of the question that look like a 2-byte prefix -/
def askedLabels (q : Bytes) : List Bytes := (splitOn dot q).filter (fun l => l.length == 4)

def serveHashes (db : List Hash) (q : Bytes) : List Hash :=
  db.filter (fun h => (askedLabels q).contains (hexBytes (prefix2 h)))

def serve (db : List Hash) (sc : Script) (q : Bytes) : Option (List RR) :=
  if sc.err then none else
  let hs := (serveHashes db q).map (fun h => if sc.upper then upperHex (hexBytes h) else hexBytes h)
  let half := sc.junk.length / 2
  let strs := sc.junk.take half ++ hs ++ sc.junk.drop half
  let rrs : List RR := (chunks sc.chunk strs.length strs).map some
  some (if sc.nonTXT then none :: rrs ++ [none] else rrs)

/-! ### The monitor -/

structure CheckIn where
  suffix : Bytes
  db : List Hash
  host : Bytes
  ps : Bytes
  icann : Bool
  H : Bytes → Hash
  err : Bool      -- the upstream fails on this check

def verdictOK (i : CheckIn) (o : Outcome) : Bool :=
  match o.verdict with
  | .upstreamErr => i.err && o.question.isSome
  | .blocked b =>
    b == freshVerdict i.H i.db i.ps i.icann i.host ||
    (i.err && o.question.isSome && !b)

def specOK (i : CheckIn) (o : Outcome) : Bool :=
  !psOK i.ps i.icann i.host ||
  (privacyOK i.H i.suffix i.ps i.icann i.host o.question && verdictOK i o)

/-- Every cache item holds exactly the database hashes of its prefix
(diagnostic used by the driver to classify a wrong cached verdict). -/
def itemComplete (db : List Hash) (it : Item) : Bool :=
  it.hs.all (fun x => db.contains x && prefix2 x == it.key) &&
  db.all (fun x => !(prefix2 x == it.key) || it.hs.contains x)

def cacheComplete (db : List Hash) (c : Cache) : Bool := c.lru.all (itemComplete db)


/-! ### the same clauses on the name as queried (any letter case)

DNS names are case-insensitive: what is disclosed for `WwW.ExamPle.oRg` are
the prefixes of `www.example.org` and its parents, and it is blocked exactly
when a full hash of one of those is returned. -/

structure HostIn where
  setts : HostSetts
  sufS : Bytes
  sufP : Bytes
  dbS : List Hash
  dbP : List Hash
  host : Bytes          -- as queried
  H : Bytes → Hash
  psOf : Bytes → Bytes × Bool

/-- the verdict the property prescribes for the queried name -/
def hostVerdict (i : HostIn) : HostReason :=
  let name := lower i.host
  let ps := (i.psOf name).1
  let icann := (i.psOf name).2
  if i.host = [] then .notFiltered
  else if i.setts.protection && i.setts.safeBrowsing && freshVerdict i.H i.dbS ps icann name then .safeBrowsing
  else if i.setts.protection && i.setts.parental && freshVerdict i.H i.dbP ps icann name then .parental
  else .notFiltered

def hostSpecOK (i : HostIn) (o : HostOut) : Bool :=
  let name := lower i.host
  let ps := (i.psOf name).1
  let icann := (i.psOf name).2
  !psOK ps icann name ||
  (privacyOK i.H i.sufS ps icann name o.sbQuestion &&
   privacyOK i.H i.sufP ps icann name o.pcQuestion &&
   -- nothing is sent for a service that is switched off
   ((i.setts.protection && i.setts.safeBrowsing) || o.sbQuestion.isNone) &&
   ((i.setts.protection && i.setts.parental) || o.pcQuestion.isNone) &&
   o.reason == hostVerdict i)

def plainScript : Script := ⟨false, false, 0, false, []⟩

end AGH.C19
