/-
C07 declarative spec, written from the property text (not from the code):

  "Every query recorded while logging is enabled, and not removed by an explicit
   clear or by rotation ageing out its file, is returned by the query-log API
   exactly once with the client, question, answer, upstream and filtering
   result it was recorded with, in newest-first order, whether it currently
   sits in memory, in the current file or in the rotated file.  Paging with the
   returned older_than cursor or with offset/limit partitions that same
   sequence without gaps or duplicates, and search terms and status filters
   select exactly the entries that satisfy them; no parameter value makes the
   request crash."

The spec state (`Ghost`) is ONE chronological list of the recorded queries, each
tagged with where the documentation says it lives (memory, current file,
rotated file).  Recording appends; a flush moves the memory entries to the
current file; a rotation — when there is a current file — drops what was in the
rotated file and the current file becomes the rotated one; clear drops
everything.  Scoping taken from the product documentation and stated in
DESIGN §2 C07: with file logging off the log is the window of the newest
`memSize` entries and does not survive a restart; a record submitted while
logging is disabled is not recorded.

`specSearch` judges one answer of `GET /control/querylog` against that list.
It is evaluated by the driver on the IMPLEMENTATION's answer.
Core Lean only.
-/
import AGH.Model.QLog
namespace AGH.C07
open AGH AGH.Bytes

/-! ## The recorded log -/

inductive Loc where
  | mem | cur | rot
  deriving DecidableEq, Repr

structure Ghost where
  /-- every recorded, not removed query, oldest first, with its location -/
  log : List (Entry × Loc)
  conf : Conf

def Ghost.entries (g : Ghost) : List Entry := g.log.map (·.1)

def retag (frm to : Loc) (l : List (Entry × Loc)) : List (Entry × Loc) :=
  l.map (fun x => if x.2 = frm then (x.1, to) else x)

def countLoc (loc : Loc) (l : List (Entry × Loc)) : Nat := (l.filter (fun x => x.2 = loc)).length

/-- Keep only the newest `n` memory entries (the window of a memory-only log). -/
def trimMem (n : Nat) (l : List (Entry × Loc)) : List (Entry × Loc) :=
  let k := countLoc .mem l
  -- drop the (k - n) oldest memory-tagged entries
  let rec go (drop : Nat) : List (Entry × Loc) → List (Entry × Loc)
    | [] => []
    | x :: xs => if x.2 = .mem ∧ drop > 0 then go (drop - 1) xs else x :: go drop xs
  go (k - n) l

/-- Memory entries go to the current file. -/
def gFlush (g : Ghost) : Ghost := { g with log := retag .mem .cur g.log }

/-- Recording one query. -/
def gAdd (g : Ghost) (e : Entry) : Ghost :=
    if !g.conf.enabled then g else
    -- the memory part is a ring of `memSize` (at least one) entries
    let log := trimMem (ringCap g.conf) (g.log ++ [(e, .mem)])
    let g' := { g with log := log }
    -- "MemSize is the number of entries kept in memory before they are flushed to disk"
    if g.conf.fileEnabled && decide (countLoc .mem log ≥ g.conf.memSize) then gFlush g' else g'

def gRestart (g : Ghost) (m : Nat) (f en : Bool) : Ghost :=
  let g1 := if g.conf.fileEnabled then gFlush g else g
  { log := g1.log.filter (fun x => x.2 ≠ .mem),
    conf := { g1.conf with memSize := m, fileEnabled := f, enabled := en } }

def gStep (g : Ghost) : Op → Ghost
  | .add e => gAdd g e
  -- whether the clear / shutdown / restart comes before or after the flush the
  -- record started makes no difference to what is recorded
  | .addThen e .clear => { gAdd g e with log := [] }
  | .addThen e .shutdown => let g1 := gAdd g e; if g1.conf.fileEnabled then gFlush g1 else g1
  | .addThen e (.restart m f en) => gRestart (gAdd g e) m f en
  | .shutdown => if g.conf.fileEnabled then gFlush g else g
  | .rotate =>
    if countLoc .cur g.log = 0 then g
    else { g with log := retag .cur .rot (g.log.filter (fun x => x.2 ≠ .rot)) }
  | .rotCheck now =>
    match g.log.find? (fun x => x.2 = .cur) with
    | none => g
    | some first =>
      if first.1.ts + g.conf.ivl > now then g
      else { g with log := retag .cur .rot (g.log.filter (fun x => x.2 ≠ .rot)) }
  | .clear => { g with log := [] }
  | .restart m f en => gRestart g m f en
  | .putConf en an ivlMs ign =>
    if ivlMs < minIvlMs ∨ ivlMs > maxIvlMs then g
    else { g with conf := { g.conf with enabled := en, anonymize := an, ivl := ivlMs * msNs, ignored := ign } }
  | .setClients tbl => { g with conf := { g.conf with clients := tbl } }

def gInit (c : Conf) : Ghost := { log := [], conf := c }

/-- What the API can see of the recorded log: with `memSize = 0` nothing is kept
in memory. -/
def Ghost.visibleLog (g : Ghost) : List Entry :=
  (g.log.filter (fun x => x.2 ≠ .mem ∨ g.conf.memSize ≠ 0)).map (·.1)

/-! ## What a request asks for -/

/-- An optionally signed decimal integer of any size. -/
def decimal? (s : Bytes) : Option Int :=
  let nb := signBody s
  if nb.2 = [] ∨ !nb.2.all isDigit then none
  else
    let v : Int := digitsVal nb.2
    some (if nb.1 then -v else v)

/-- The field contains a substring equal to the term under Unicode simple case
folding: the folded runes of the term occur, contiguously, in the folded runes
of the field. -/
def containsSpec (s sub : Bytes) : Bool :=
  let rs := foldRunes s
  let ts := foldRunes sub
  (List.range (rs.length + 1)).any (fun i => (rs.drop i).take ts.length == ts && decide (i + ts.length ≤ rs.length))

/-- The fields a search term is looked up in: domain name, ClientID, client
name, IP. -/
def termSat (c : Conf) (strict : Bool) (term ascii : Bytes) (e : Entry) : Bool :=
  let fields := [e.host, e.cid, clientName c e.cid e.ip, e.ip]
  if strict then fields.any (fun f => equalFold f term) || (ascii ≠ [] && equalFold e.host ascii)
  else fields.any (fun f => containsSpec f term) || (ascii ≠ [] && containsSpec e.host ascii)

/-- The documented meaning of the `response_status` values, as sets of
(reason, isFiltered). -/
def statusSat (v : Status) (reason : Nat) (isFiltered : Bool) : Bool :=
  let rewrittenR := reason = 9 ∨ reason = 10 ∨ reason = 11
  match v with
  | .all => true
  | .filtered => isFiltered || decide (reason = 1 ∨ rewrittenR)       -- all kinds of filtering
  | .blocked => isFiltered && decide (reason = 3 ∨ reason = 8)         -- blocked or blocked services
  | .blockedService => isFiltered && decide (reason = 8)
  | .blockedSafebrowsing => isFiltered && decide (reason = 4)
  | .blockedParental => isFiltered && decide (reason = 5)
  | .whitelisted => decide (reason = 1)
  | .rewritten => decide rewrittenR
  | .safeSearch => isFiltered && decide (reason = 7)
  | .processed => !decide (reason = 3 ∨ reason = 8 ∨ reason = 1)       -- not blocked, not white-listed

/-- A well-formed request, as the API documentation reads the query string. -/
structure Ask where
  olderThan : Option Int
  /-- `none`: paging by cursor; `some o`: offset/limit paging -/
  offset : Option Nat
  limit : Nat
  term : Option (Bytes × Bytes × Bool)   -- value, IDNA form (or empty), exact
  status : Option Status

/-- `limit`: default 500 when absent or not a number; `none` when negative or
too large. -/
def askLimit (r : Req) : Option Nat :=
  match decimal? r.limitRaw with
  | none => some 500
  | some v => if 0 ≤ v ∧ v ≤ maxInt then some v.toNat else none

/-- `offset`: `some none` = not given (cursor paging). -/
def askOffset (r : Req) (limit : Nat) : Option (Option Nat) :=
  match decimal? r.offsetRaw with
  | none => some none
  | some v => if 0 ≤ v ∧ v + limit ≤ maxInt then some (some v.toNat) else none

def askStatus (r : Req) : Option (Option Status) :=
  if r.statusRaw = [] then some none
  else match statusOfName (unquote r.statusRaw).1 with
    | some v => some (some v)
    | none => none

def askTerm (r : Req) : Option (Option (Bytes × Bytes × Bool)) :=
  if r.searchRaw = [] then some none
  else if r.asciiErr then none
  else
    let u := unquote r.searchRaw
    some (some (u.1, (if r.asciiRet = r.loweredRaw then [] else r.asciiRet), u.2))

def askOlder (r : Req) : Option (Option Int) :=
  match r.older with
  | .bad => none
  | .at t => some (some t)
  | .absent => some none
  | .zero => some none

/-- `none`: the request is not well-formed (a number that is negative or does
not fit, an unparsable time, an unknown status, a term whose IDNA conversion
failed): the property then only demands that nothing crashes. -/
def ask (r : Req) : Option Ask :=
  match askOlder r with
  | none => none
  | some olderThan =>
    match askLimit r with
    | none => none
    | some limit =>
      match askOffset r limit with
      | none => none
      | some offset =>
        match askStatus r with
        | none => none
        | some status =>
          match askTerm r with
          | none => none
          | some term =>
            some { olderThan := olderThan, offset := offset, limit := limit, term := term, status := status }

/-- The entry satisfies the request's filters. -/
def satisfies (c : Conf) (a : Ask) (e : Entry) : Bool :=
  (match a.olderThan with | some t => decide (e.ts < t) | none => true) &&
  (match a.term with | some (v, asc, strict) => termSat c strict v asc e | none => true) &&
  (match a.status with | some v => statusSat v e.reason e.isFiltered | none => true)

/-- Host or client of the entry is excluded from logging NOW: such entries are
not shown (property C08). -/
def ignoredNow (c : Conf) (e : Entry) : Bool := isIgnored c e.host || clientIgnored c e.cid e.ip

/-- The sequence the API pages through: newest first. -/
def visible (g : Ghost) (a : Ask) : List Entry :=
  g.visibleLog.reverse.filter (fun e => !ignoredNow g.conf e && satisfies g.conf a e)

/-- One entry of the answer as observed: which recorded query it is, whether
question, answer, upstream and filtering result are those it was recorded with,
and the client address reported. -/
structure Item where
  id : Nat
  payloadOK : Bool
  client : Bytes

/-- The answer of the API as observed: entries and the `oldest` cursor. -/
structure Page where
  items : List Item
  oldest : Option Int

/-- The client an entry must be reported with: the address it was recorded
with — masked if, and only if, anonymisation is on NOW. -/
def reportedClient (c : Conf) (e : Entry) : Bytes := if c.anonymize then e.ipAnon else e.ip

inductive Answer where
  | crash
  | status (code : Nat)        -- anything but 200
  | ok (p : Page)

/-- A cursor promises something only if it is absent or the time of a recorded
(visible) entry — which every returned cursor is. -/
def cursorKnown (g : Ghost) : Option Int → Bool
  | none => true
  | some t => g.visibleLog.any (fun e => e.ts == t)

/-- The returned cursor is older than the one sent. -/
def cursorMoves (c : Int) : Option Int → Bool
  | none => true
  | some t => decide (c < t)

/-- `none` = fine, `some reason` = which clause of the property is broken. -/
def specSearch (g : Ghost) (r : Req) (ans : Answer) : Option String :=
  match ans with
  | .crash => some "C07.crash"
  | .status code =>
    match ask r with
    | none => none
    | some _ => some ("C07.rejected-valid-request:" ++ toString code)
  | .ok p =>
    match ask r with
    | none => none
    | some a =>
      let vis := visible g a
      let ids := p.items.map (·.id)
      -- every returned entry is a recorded entry satisfying the filters, newest first, once
      if !(ids.isSublist (vis.map (·.id))) then some "C07.unsound"
      -- ... reported with the client it was recorded with
      else if !((p.items.map (fun it => (it.id, it.client))).isSublist
                (vis.map (fun e => (e.id, reportedClient g.conf e)))) then some "C07.client"
      else if !p.items.all (·.payloadOK) then some "C07.payload"
      else if ids.length > a.limit then some "C07.limit"
      else if a.limit = 0 then none
      else
        if !cursorKnown g a.olderThan then none else
        match a.offset with
        | some o =>
          if ids ≠ ((vis.drop o).take a.limit).map (·.id) then some "C07.page-offset" else none
        | none =>
          match p.oldest with
          | none => if ids ≠ vis.map (·.id) then some "C07.page-cursor-end" else none
          | some c =>
            if ids ≠ (vis.filter (fun e => decide (e.ts ≥ c))).map (·.id) then some "C07.page-cursor"
            else if cursorMoves c a.olderThan then none else some "C07.cursor-progress"

/-- State dump after an operation: ids in memory, current file, rotated file. -/
def specDump (g : Ghost) (mem cur rot : List Nat) : Option String :=
  let want (loc : Loc) := (g.log.filter (fun x => x.2 = loc)).map (·.1.id)
  if rot ++ cur ++ mem ≠ g.log.map (·.1.id) then some "C07.log"
  else if mem ≠ want .mem ∨ cur ≠ want .cur ∨ rot ≠ want .rot then some "C07.log-location"
  else none

/-! ## Histories in which the clock steps back

When the system clock is stepped back between two records (NTP correction,
manual change) the order of recording and the order of the recorded times
differ.  "Newest first" is then the order of the recorded times; the returned
cursor of such a history promises nothing (paging by `older_than` presupposes a
forward-moving clock, `histOK`).  What the property still demands of every
answer: recorded entries only, each once, with the client and payload they were
recorded with, at most `limit` of them, no entry before a newer one — and the
whole visible log when the request asks for all of it from offset 0. -/

/-- No time is followed by a later one. -/
def newestFirst : List Int → Bool
  | a :: b :: rest => decide (b ≤ a) && newestFirst (b :: rest)
  | _ => true

def noDupIds : List Nat → Bool
  | [] => true
  | a :: rest => !rest.contains a && noDupIds rest

/-- `none` = fine, `some reason` = which clause of the property is broken. -/
def specSearchStepped (g : Ghost) (r : Req) (ans : Answer) : Option String :=
  match ans with
  | .crash => some "C07.crash"
  | .status code =>
    match ask r with
    | none => none
    | some _ => some ("C07.rejected-valid-request:" ++ toString code)
  | .ok p =>
    match ask r with
    | none => none
    | some a =>
      let vis := visible g a
      let ids := p.items.map (·.id)
      let look (id : Nat) : Option Entry := vis.find? (fun e => e.id == id)
      -- every returned entry is a recorded entry satisfying the filters, once
      if !(ids.all (fun i => (look i).isSome) && noDupIds ids) then some "C07.unsound"
      -- ... reported with the client it was recorded with
      else if !(p.items.all (fun it => match look it.id with
                  | some e => it.client == reportedClient g.conf e
                  | none => false)) then some "C07.client"
      else if !p.items.all (·.payloadOK) then some "C07.payload"
      else if ids.length > a.limit then some "C07.limit"
      -- newest first: by the time each entry was recorded with
      else if !newestFirst ((ids.filterMap look).map (·.ts)) then some "C07.order"
      -- everything, when everything from offset 0 is asked for
      else if a.olderThan.isNone && a.offset == some 0 && decide (vis.length ≤ a.limit)
              && ids.length != vis.length then some "C07.page-stepped"
      else none

/-! ## Histories -/

/-- One event of a history: an operation on the log or a request to the API
(with the scan budget the handler starts from: 50000 in the product). -/
inductive Event where
  | op (o : Op)
  | search (scanDefault : Int) (r : Req)

/-- What the model answers, as the monitor sees an answer. -/
def modelAnswer (sd : Int) (s : State) (r : Req) : Answer :=
  match handle sd s r with
  | .error _ => .crash
  | .ok .bad => .status 400
  | .ok (.ok es o) => .ok { items := es.map (fun e => ⟨e.id, true, shownClient s.conf e⟩), oldest := o }

/-- The monitor's verdict on the model's own behaviour at one event. -/
def modelEventOK (g : Ghost) (s : State) : Event → Bool
  | .op o =>
    let s' := step s o
    (specDump (gStep g o) (s'.mem.map (·.id)) (s'.cur.map (·.id)) (s'.rot.map (·.id))).isNone
  | .search sd r => (specSearch g r (modelAnswer sd s r)).isNone

/-- The monitor accepts the model at every event of the history. -/
def runOK (g : Ghost) (s : State) : List Event → Bool
  | [] => true
  | .op o :: rest => modelEventOK g s (.op o) && runOK (gStep g o) (step s o) rest
  | .search sd r :: rest => modelEventOK g s (.search sd r) && runOK g s rest

/-- Histories the property speaks about: the clock moves forward between
records (`last` is the time of the latest record submitted), and the handler's
scan budget is at least two records (or unlimited). -/
def histOK : Int → List Event → Prop
  | _, [] => True
  | last, .op (.add e) :: rest => last < e.ts ∧ histOK e.ts rest
  | last, .op (.addThen e _) :: rest => last < e.ts ∧ histOK e.ts rest
  | last, .op _ :: rest => histOK last rest
  | last, .search sd _ :: rest => (2 ≤ sd ∨ sd ≤ 0) ∧ histOK last rest

end AGH.C07
