/-
C20 declarative spec, written from the property text (not from the code).

  "Reading a query-log file backwards returns every line exactly once, in
   reverse order, for any file whose lines are shorter than the 16 KiB entry
   limit, whatever the file size and wherever internal read buffers fall.
   Seeking to the timestamp of a stored entry positions the reader on that
   entry, and seeking to an absent timestamp reports not-found, too-early or
   too-late without ever looping or mis-positioning subsequent reads."

The spec state is *the sequence of lines that subsequent reads must return*
(`none` = nothing promised yet).  Positioning at the start promises all lines,
newest file first, each file last line first; a successful seek to a stored
timestamp promises that entry followed by everything older; a failed seek
leaves the promise unchanged.  `specStep` consumes one observed operation and
either names the clause that is broken or returns the next spec state.  The
driver runs it on the IMPLEMENTATION's observations.

Files that are not line files of the property's kind (a line of 16 KiB or more,
an empty line, no final newline; for seeks also: timestamps not strictly
increasing or a zero/unparsable timestamp) are outside the property: nothing is
promised about them.
Core Lean only.
-/
import AGH.Model.QLogFile
namespace AGH.C20
open AGH

/-- The 16 KiB entry limit of the property text (a constant of the spec, NOT read
from the implementation). -/
def entryLimit : Nat := 16384

/-- Byte content of a line file: every line followed by `\n`. -/
def render : List Bytes → Bytes
  | [] => []
  | l :: ls => l ++ 10 :: render ls

structure FileDesc where
  lines : List Bytes
  /-- the file content is exactly `render lines` (false: the last line has no `\n`) -/
  complete : Bool := true

def lineOK (l : Bytes) : Bool := !l.isEmpty && !l.contains 10 && decide (l.length < entryLimit)

/-- A line file in the sense of the property. -/
def readable (d : FileDesc) : Bool := d.complete && d.lines.all lineOK

def increasing : List Int → Bool
  | a :: b :: rest => decide (a < b) && increasing (b :: rest)
  | _ => true

def stampsOf (tsOf : Bytes → Int) (d : FileDesc) : List Int := d.lines.map tsOf

def stampsOK (st : List Int) : Bool := st.all (· != 0) && increasing st

/-- A line file whose entries carry strictly increasing (non-zero) timestamps. -/
def seekable (tsOf : Bytes → Int) (d : FileDesc) : Bool := readable d && stampsOK (stampsOf tsOf d)

/-- Rotated + current: all files line files, timestamps strictly increasing across them. -/
def allSeekable (tsOf : Bytes → Int) (ds : List FileDesc) : Bool :=
  ds.all readable && stampsOK (ds.flatMap (stampsOf tsOf))

/-- FNV-1a/64 of the returned lines, each followed by `\n` (the observation carries a
count and this hash instead of megabytes of text). -/
def fnvByte (h : UInt64) (b : Nat) : UInt64 := (h ^^^ b.toUInt64) * 1099511628211
def fnvInit : UInt64 := 14695981039346656037
def hashLines (ls : List Bytes) : UInt64 :=
  ls.foldl (fun h l => fnvByte (l.foldl fnvByte h) 10) fnvInit

/-- The same hash computed from byte ranges of the files (what the driver does). -/
def hashRange (f : File) (h : UInt64) (a : Nat) : Nat → UInt64
  | 0 => h
  | n + 1 => hashRange f (fnvByte h (f.byte a)) (a + 1) n

def hashRanges (fs : List File) (rs : List (Nat × Nat × Nat)) : UInt64 :=
  rs.foldl (fun h x => fnvByte (hashRange (fs.getD x.1 noFile) h x.2.1 (x.2.2 - x.2.1)) 10) fnvInit

/-- Everything, newest file first, each file last line first. -/
def allRev (ds : List FileDesc) : List Bytes := ds.reverse.flatMap (fun d => d.lines.reverse)

/-- Entry `k` of file `j`, then everything older. -/
def fromEntry (ds : List FileDesc) (j k : Nat) : List Bytes :=
  (((ds.getD j {lines := []}).lines).take (k + 1)).reverse ++ allRev (ds.take j)

/-- The three reports the property allows for an absent timestamp, and which one
belongs to which position (`depth` is `errTSNotFound` too). -/
def absentClassOK (st : List Int) (ts : Int) (e : Err) : Bool :=
  let e := if e = .depth then .notFound else e
  match st with
  | [] => e = .tooEarly || e = .tooLate || e = .notFound
  | first :: _ =>
    if ts < first then e = .tooEarly
    else if st.getLastD first < ts then e = .tooLate
    else e = .notFound

/-- What is observed of one operation (of the implementation or of the model). -/
inductive Obs
  | start (ok : Bool)
  | next (cnt : Nat) (endc : Option Err) (hash : UInt64)   -- `endc = none`: all `n` reads succeeded
  | seek (res : Option Err)                                 -- `none`: success
deriving Repr, DecidableEq

/-- The observation made of a model step. -/
def obsOf (fs : List File) : Out → Obs
  | .start _ => .start true
  | .next ls e => .next ls.length e (hashRanges fs ls)
  | .seek (.ok _) => .seek none
  | .seek (.error e) => .seek (some e)

structure SpecState where
  /-- file-level promises, one per file -/
  fcur : List (Option (List Bytes))
  /-- reader-level promise -/
  rcur : Option (List Bytes)

def specInit (n : Nat) : SpecState := ⟨List.replicate n none, none⟩

/-- Check `n` reads against the promise `rem`. -/
def checkNext (rem : List Bytes) (n cnt : Nat) (endc : Option Err) (hash : UInt64) : Option String :=
  let exp := rem.take n
  if cnt ≠ exp.length then some "C20.read.count"
  else if hash ≠ hashLines exp then some "C20.read.content"
  else if endc ≠ (if n > rem.length then some Err.eof else none) then some "C20.read.end"
  else none

def noPromise (n : Nat) : List (Option (List Bytes)) := List.replicate n none

/-- Everything the monitor needs to know about the files of a block, computed once
(`mkCtx`): the line view and, per file, the timestamps of the lines. -/
structure Ctx where
  ds : List FileDesc
  stamps : List (List Int)
  readableF : List Bool
  seekableF : List Bool
  allReadable : Bool
  allSeekable : Bool

def mkCtx (tsOf : Bytes → Int) (ds : List FileDesc) : Ctx :=
  let st := ds.map (stampsOf tsOf)
  let rd := ds.map readable
  { ds := ds, stamps := st, readableF := rd,
    seekableF := ds.map (seekable tsOf),
    allReadable := rd.all id,
    allSeekable := rd.all id && stampsOK st.flatten }

def findStampIdx (st : List Int) (ts : Int) : Option Nat := st.findIdx? (· == ts)

/-- First file (newest first) holding the timestamp: `(file, line)`. -/
def findStampFilesIdx (st : List (List Int)) (ts : Int) : Nat → Option (Nat × Nat)
  | 0 => none
  | j + 1 =>
    match findStampIdx (st.getD j []) ts with
    | some k => some (j, k)
    | none => findStampFilesIdx st ts j

/-- One step of the monitor: `(broken clause, next spec state)`. -/
def specStep (c : Ctx) (st : SpecState) (op : Op) (o : Obs) :
    Option String × SpecState :=
  let ds := c.ds
  match op, o with
  | .fstart k, .start ok =>
    let d := ds.getD k {lines := []}
    if c.readableF.getD k false then
      (if ok then none else some "C20.start", ⟨st.fcur.set k (some d.lines.reverse), none⟩)
    else (none, ⟨st.fcur.set k none, none⟩)
  | .fnext k n, .next cnt endc hash =>
    match st.fcur.getD k none with
    | some rem =>
      let bad := checkNext rem n cnt endc hash
      (bad, ⟨st.fcur.set k (if bad.isNone then some (rem.drop n) else none), none⟩)
    | none => (none, ⟨st.fcur, none⟩)
  | .fseek k ts, .seek res =>
    let d := ds.getD k {lines := []}
    let stamps := c.stamps.getD k []
    if c.seekableF.getD k false then
      match findStampIdx stamps ts, res with
      | some i, none => (none, ⟨st.fcur.set k (some ((d.lines.take (i + 1)).reverse)), none⟩)
      | some _, some _ => (some "C20.seek.present", ⟨st.fcur.set k none, none⟩)
      | none, none => (some "C20.seek.absent-ok", ⟨st.fcur.set k none, none⟩)
      | none, some e =>
        if absentClassOK stamps ts e then (none, ⟨st.fcur, none⟩)
        else (some (if d.lines.isEmpty then "C20.seek.absent-class:empty-file" else "C20.seek.absent-class"),
              ⟨st.fcur, none⟩)
    else (none, ⟨st.fcur.set k none, none⟩)
  | .start, .start ok =>
    if c.allReadable then
      (if ok then none else some "C20.start", ⟨noPromise ds.length, some (allRev ds)⟩)
    else (none, ⟨noPromise ds.length, none⟩)
  | .next n, .next cnt endc hash =>
    match st.rcur with
    | some rem =>
      let bad := checkNext rem n cnt endc hash
      (bad, ⟨noPromise ds.length, if bad.isNone then some (rem.drop n) else none⟩)
    | none => (none, ⟨noPromise ds.length, none⟩)
  | .seek ts, .seek res =>
    if c.allSeekable then
      match findStampFilesIdx c.stamps ts ds.length, res with
      | some (j, k), none => (none, ⟨noPromise ds.length, some (fromEntry ds j k)⟩)
      | some (j, _), some _ =>
        (some (if (ds.drop (j + 1)).any (fun d => d.lines.isEmpty)
               then "C20.seek.present:newer-file-empty" else "C20.seek.present"),
         ⟨noPromise ds.length, none⟩)
      | none, none =>
        -- the multi-file reader reports "too late" by starting over at the newest
        -- entry; allowed only when the timestamp really is later than every
        -- entry of some non-empty file (with no file at all the reader has
        -- nothing to seek in: it reports success and every read is `io.EOF`)
        if ds.isEmpty || c.stamps.any (fun s => !s.isEmpty && s.all (· < ts)) then
          (none, ⟨noPromise ds.length, some (allRev ds)⟩)
        else (some "C20.seek.absent-ok", ⟨noPromise ds.length, none⟩)
      | none, some e =>
        let e := if e = .depth then .notFound else e
        if e = .notFound || e = .tooEarly || e = .tooLate then (none, ⟨noPromise ds.length, st.rcur⟩)
        else (some (if ds.any (fun d => d.lines.isEmpty) then "C20.seek.absent-class:empty-file"
                    else "C20.seek.absent-class"), ⟨noPromise ds.length, st.rcur⟩)
    else (none, ⟨noPromise ds.length, none⟩)
  | _, _ => (some "C20.shape", st)

def specOK (c : Ctx) (st : SpecState) (op : Op) (o : Obs) : Bool :=
  (specStep c st op o).1.isNone

/-- Run the model over an operation history with the monitor in lock-step (the
driver does exactly this with the implementation's observations in place of
`obsOf … (modelStep …)`): `true` iff the monitor accepts every step. -/
def monitorRun (P : Params) (fs : List File) (tsOf : Bytes → Int) (c : Ctx) :
    RState → SpecState → List Op → Bool
  | _, _, [] => true
  | r, sp, op :: ops =>
    let mo := modelStep P fs tsOf r op
    let so := specStep c sp op (obsOf fs mo.2)
    so.1.isNone && monitorRun P fs tsOf c mo.1 so.2 ops

end AGH.C20
