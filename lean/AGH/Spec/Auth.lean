/-
C12 declarative spec, written from the property text:

  "After the configured number of failed logins from one address within a
   minute, every further login attempt from that address, correct password
   included, is rejected without the password being evaluated until the block
   period has elapsed; a successful login before the limit clears the count.
   A session token authenticates requests only between its creation and its
   expiry or logout, and this remains true after a restart."

The monitor keeps, per address, the TIMES of the failed logins that make up
the current count (the minute is anchored at the first of them), and per
token when it was created, when it last authenticated a request, and whether
it was logged out.  It is driven by the OBSERVED results (HTTP status of the
login, authenticated or not), never by the implementation's tables.
-/
import AGH.Model.Auth
namespace AGH.C12

inductive Op where
  | login (req : Req) (good : Bool) (user : Nat)
  /-- a request carrying HTTP Basic credentials instead of a session cookie -/
  | basic (req : Req) (good : Bool)
  | request (tok : Nat)
  | logout (tok : Nat)
  | restart
  deriving Repr

inductive Obs where
  | login (r : LoginRes)
  | auth (b : Bool)
  | done
  deriving DecidableEq, Repr

/-- The model's reaction to one operation at time `now` (ns): the tree with the
Basic-auth repair, without the horizon repair, sessions.db writable. -/
def step (st : St) (now : Nat) : Op → Obs × St
  | .login req good user => let r := handleLogin st now req good user; (.login r.1, r.2)
  | .basic req good => let r := basicAuthX true st now req good; (.login r.1, r.2)
  | .request tok => let r := checkSession st now tok; (.auth (r.1 == .ok), r.2)
  | .logout tok => (.done, logout st tok)
  | .restart => (.done, restart st now)

/-! ### optionalAuthThird: which credential of a request is looked at

`r.Cookie("agh_session")` returns the FIRST cookie of that name; if there is
one, the session is checked and any `Authorization` header is ignored entirely
(so a stale cookie hides correct Basic credentials).  Only without such a
cookie are HTTP Basic credentials looked at, through `checkBasicAuth`;
anything that `r.BasicAuth()` does not parse (malformed Basic, Bearer, …)
is no credential at all. -/

inductive CookieForm where
  | absent
  /-- the first `agh_session` cookie; its value resolves to this token (a value
  that is no issued token — unknown, malformed or upper-cased hex — resolves to
  a never-issued number) -/
  | token (tok : Nat)
  deriving DecidableEq, Repr

inductive AuthForm where
  | absent
  | basic (good : Bool)
  /-- malformed Basic, Bearer, … -/
  | unparsed
  deriving DecidableEq, Repr

/-- the operation a request to a protected route amounts to (`none`: refused
without looking at anything) -/
def authOp (c : CookieForm) (a : AuthForm) (req : Req) : Option Op :=
  match c, a with
  | .token t, _ => some (.request t)
  | .absent, .basic g => some (.basic req g)
  | .absent, _ => none

structure TokInfo where
  created : Nat      -- s
  lastOK : Nat       -- s: creation or the last request it authenticated
  loggedOut : Bool
  deriving Repr

structure Spec where
  enabled : Bool
  max : Nat
  blockDur : Nat     -- ns
  ttl : Nat          -- s
  /-- per address: times (ns) of the failed logins counted at present, oldest first -/
  fails : FMap (List Nat)
  toks : FMap TokInfo
  issued : Nat

def Spec.init (maxAttempts blockMin ttl : Nat) : Spec :=
  { enabled := decide (maxAttempts > 0 ∧ blockMin > 0), max := maxAttempts,
    blockDur := blockMin * 60 * nsPerSec, ttl := ttl % u32,
    fails := FMap.empty, toks := FMap.empty, issued := 0 }

/-- Until when the failures `fs` count: below the limit for a minute after the
first of them; from the limit on, for the block period after the last. -/
def untilOf (sp : Spec) (fs : List Nat) : Nat :=
  if fs.length < sp.max then fs.headD 0 + failedAuthTTL else fs.getLastD 0 + sp.blockDur

def stillCounts (sp : Spec) (fs : List Nat) (now : Nat) : Bool :=
  !fs.isEmpty && decide (now ≤ untilOf sp fs)

/-- the failures of `addr` that count at `now` -/
def counted (sp : Spec) (addr now : Nat) : List Nat :=
  let fs := (sp.fails addr).getD []
  if stillCounts sp fs now then fs else []

/-- The limit was reached and the block period has not elapsed. -/
def mustReject (sp : Spec) (addr now : Nat) : Bool :=
  let fs := counted sp addr now
  sp.enabled && !fs.isEmpty && decide (fs.length ≥ sp.max) && decide (now < fs.getLastD 0 + sp.blockDur)

def nowS (now : Nat) : Nat := now / nsPerSec

/-- Times are far from the uint32 horizon (year 2106). -/
def noWrap (sp : Spec) (now : Nat) : Bool := decide (nowS now + sp.ttl < u32)

/-- "The address" a login attempt comes from — ONE notion for counting the
failures, for rejecting further attempts and for clearing the count: the TCP
peer of the request.  Proxy headers do not change it (a client could put any
address there; handleLogin deliberately ignores them for throttling). -/
def attemptAddr (r : Req) : Nat := r.peer

/-- One monitor step: is the observation allowed, and the next monitor state. -/
def specStep (sp : Spec) (now : Nat) : Op → Obs → Bool × Spec
  | .login req good _, .login r =>
    let addr := attemptAddr req
    let rej := mustReject sp addr now
    let fs := counted sp addr now
    match r with
    | .tooMany _ => (rej, sp)
    | .forbidden => (!rej && !good, { sp with fails := sp.fails.set addr (fs ++ [now]) })
    | .ok tok =>
      (!rej && good && tok == sp.issued,
       { sp with fails := sp.fails.set addr [],
                 toks := sp.toks.set tok ⟨nowS now, nowS now, false⟩, issued := sp.issued + 1 })
    | .passed => (false, { sp with fails := sp.fails.set addr [] })
  | .basic req good, .login r =>
    -- HTTP Basic credentials are a login attempt from the same address
    let addr := attemptAddr req
    let rej := mustReject sp addr now
    let fs := counted sp addr now
    match r with
    | .tooMany _ => (rej, sp)
    | .forbidden => (!rej && !good, { sp with fails := sp.fails.set addr (fs ++ [now]) })
    | .passed => (!rej && good, { sp with fails := sp.fails.set addr [] })
    | .ok _ => (false, { sp with fails := sp.fails.set addr [] })
  | .request tok, .auth b =>
    match sp.toks tok with
    | none => (!b, sp)
    | some i =>
      let upper := !i.loggedOut && decide (nowS now < i.lastOK + sp.ttl)
      let lower := !i.loggedOut && decide (nowS now < i.created + sp.ttl)
      ((!b || upper) && (!lower || b),
       if b then { sp with toks := sp.toks.set tok { i with lastOK := nowS now } } else sp)
  | .logout tok, .done =>
    (true, match sp.toks tok with
      | none => sp
      | some i => { sp with toks := sp.toks.set tok { i with loggedOut := true } })
  | .restart, .done => (true, { sp with fails := FMap.empty })
  | _, _ => (false, sp)

/-- the safety half of the session clause: authenticated ONLY if created, not
logged out, and within `ttl` of creation / last use — in real (unbounded) time -/
def sessionSafe (sp : Spec) (now : Nat) (tok : Nat) (b : Bool) : Bool :=
  match sp.toks tok with
  | none => !b
  | some i => !b || (!i.loggedOut && decide (nowS now < i.lastOK + sp.ttl))

/-- `specOK`: the verdict of the monitor for one observed step.  Past the
uint32 horizon only the "must still authenticate" half of the session clause
is dropped (a session whose stored expiry wrapped is lost early); "authenticates
ONLY until expiry or logout" and the throttle clauses are checked always. -/
def specOK (sp : Spec) (now : Nat) (op : Op) (obs : Obs) : Bool :=
  if noWrap sp now then (specStep sp now op obs).1
  else match op, obs with
    | .request tok, .auth b => sessionSafe sp now tok b
    | _, _ => (specStep sp now op obs).1

/-- The model with fallible sessions.db writes. -/
def stepF (st : St) (now : Nat) (dbOK : Bool) : Op → Obs × St
  | .login req good user => let r := handleLoginF st now req good user dbOK; (.login r.1, r.2)
  | .basic req good => let r := basicAuthX true st now req good; (.login r.1, r.2)
  | .request tok => let r := checkSessionF st now tok dbOK; (.auth (r.1 == .ok), r.2)
  | .logout tok => (.done, logoutF st tok dbOK)
  | .restart => (.done, restart st now)

/-- The model at a code level (`fix`: the horizon repair, `fixB`: the Basic-auth
repair) with fallible writes. -/
def stepFX (fix : Bool) (fixB : Bool) (st : St) (now : Nat) (dbOK : Bool) : Op → Obs × St
  | .login req good user => let r := handleLoginF st now req good user dbOK; (.login r.1, r.2)
  | .basic req good => let r := basicAuthX fixB st now req good; (.login r.1, r.2)
  | .request tok => let r := checkSessionFX fix st now tok dbOK; (.auth (r.1 == .ok), r.2)
  | .logout tok => (.done, logoutF st tok dbOK)
  | .restart => (.done, restartX fix st now)

/-- A timed history: operations separated by clock advances. -/
inductive Ev where
  | op (o : Op)
  | advance (d : Nat)

/-- Run model and monitor in lockstep on the model's own observations. -/
def allOK : St → Spec → Nat → List Ev → Prop
  | _, _, _, [] => True
  | st, sp, now, .advance d :: evs => allOK st sp (now + d) evs
  | st, sp, now, .op o :: evs =>
    let r := step st now o
    specOK sp now o r.1 = true ∧ allOK r.2 (specStep sp now o r.1).2 now evs

/-- every operation of the history happens before the uint32 horizon -/
def noWrapAll (sp : Spec) : Nat → List Ev → Prop
  | _, [] => True
  | now, .advance d :: evs => noWrapAll sp (now + d) evs
  | now, .op _ :: evs => noWrap sp now = true ∧ noWrapAll sp now evs

end AGH.C12
