/-
C08 declarative spec, written from the property text:

  "Queries for names on the query-log (respectively statistics) ignore list,
   and queries from clients marked to be ignored, are never recorded in the
   query log (respectively statistics), neither in memory nor on disk, and the
   log API does not return entries whose name or client is currently ignored.
   When client-IP anonymisation is on, every client address stored or reported
   has its last 16 bits (IPv4) or 80 bits (IPv6) zeroed."

The monitor `specStep` looks at ONE operation: the configuration in force
(which is an input: reset / config operations), the stores as last observed
(`Shadow`), and what the implementation shows after the operation.  It returns
`none` or the class of the violated clause.

"The client a query comes from" is the persistent client identified at the
strongest level present, in the precedence of C04: ClientID, exact address,
narrowest containing subnet, MAC address of the DHCP lease — always for the
REAL address of the query.  `ownersAt` is the set of clients identified at
that level (a singleton in every table the storage accepts); a query is "from
an ignored client" when that set is non-empty and all of it is flagged.
-/
import AGH.Model.Record
namespace AGH.C08
open AGH AGH.Bytes

/-! ## Who a query is from -/

/-- The ClientID, read as a ClientID or as the text of a MAC address, is one of
the client's identifiers. -/
def cidMatch (c : PClient) (cid : Bytes) : Bool :=
  cid != [] && (c.cids.contains cid ||
    (match parseMAC6 cid with | some m => c.macs.contains m | none => false))

def macMatch (c : PClient) (ls : Leases) (a : Bytes) : Bool :=
  match macByIP ls a with
  | some m => c.macs.contains m
  | none => false

/-- The clients identified by the address at the strongest level present: exact
address, else narrowest containing subnet (ties: lowest address), else MAC of
the DHCP lease. -/
def ownersByAddr (cs : List PClient) (ls : Leases) (a : Bytes) : List PClient :=
  let l2 := cs.filter (·.ips.contains a)
  if !l2.isEmpty then l2 else
  let nets := netCands cs a
  if !nets.isEmpty then
    (nets.filter (fun x => nets.all (fun y => !y.1.before x.1))).map (·.2)
  else cs.filter (macMatch · ls a)

/-- The clients identified at the strongest level present. -/
def ownersAt (cs : List PClient) (ls : Leases) (cid a : Bytes) : List PClient :=
  let l1 := cs.filter (cidMatch · cid)
  if !l1.isEmpty then l1 else ownersByAddr cs ls a

/-- Clients identified only through a zoned address.  The request's REAL peer
address `a%z` equals the client's identifier; nothing is demanded when the peer
has no zone, when the address is also configured under another zone (the
documented indeterminate case of `FindLoose`), or when a DHCP lease ties the
address to a MAC. -/
def zonedOwners (cs : List PClient) (ls : Leases) (a z : Bytes) : List PClient :=
  let holders := cs.filter (fun c => c.zips.any (·.1 == a))
  -- a DHCP lease for the address names another device (its MAC): ambiguous too
  if z != [] && (macByIP ls a).isNone && holders.all (fun c => c.zips.contains (a, z)) then holders
  else []

/-- The clients a request with ClientID `cid` from `a%z` is from: the strongest
level of `ownersAt`; a zoned address identifies when nothing else does. -/
def ownersZ (cs : List PClient) (ls : Leases) (cid a z : Bytes) : List PClient :=
  let o := ownersAt cs ls cid a
  if !o.isEmpty then o else zonedOwners cs ls a z

def fromIgnoredLog (c : Conf) (cid a : Bytes) (z : Bytes := []) : Bool :=
  let o := ownersZ c.clients c.leases cid a z
  !o.isEmpty && o.all (·.ignLog)

def fromIgnoredStat (c : Conf) (cid a : Bytes) (z : Bytes := []) : Bool :=
  let o := ownersZ c.clients c.leases cid a z
  !o.isEmpty && o.all (·.ignStat)

/-- The name of the query is on the query-log ignore list, whatever its letter
case and with or without the trailing dot. -/
def nameIgnoredLog (c : Conf) (name : Bytes) : Bool := Ignore.has c.ignQ (Ignore.normalize name)
def nameIgnoredStat (c : Conf) (name : Bytes) : Bool := Ignore.has c.ignS (Ignore.normalize name)

/-! ## Multisets of records and counters -/

/-- `a` minus `b` as multisets. -/
def minus {α : Type} [BEq α] (a b : List α) : List α := b.foldl List.erase a

/-- Total count of key `k`. -/
def cnt {α : Type} [BEq α] (m : List (α × Nat)) (k : α) : Nat :=
  match m with
  | [] => 0
  | (k', n) :: rest => (if k' == k then n else 0) + cnt rest k

/-- Keys whose counter in `after` exceeds the total in `before`. -/
def grown {α : Type} [BEq α] (after before : List (α × Nat)) : List α :=
  (after.filter (fun kv => decide (kv.2 > cnt before kv.1))).map (·.1)

/-! ## The monitor -/

/-- The stores as the implementation last showed them. -/
structure Shadow where
  mem : List Entry
  file : List Entry
  sc : List (Key × Nat)
  sd : List (Bytes × Nat)
  /-- stats.db as last read raw: client and domain tables of all buckets -/
  dc : List (Key × Nat) := []
  dd : List (Bytes × Nat) := []

def keyMasked : Key → Bool
  | .id _ => true
  | .ip a => masked a

/-- Recording clause for one query. -/
def specQuery (c : Conf) (sh : Shadow) (q : Query)
    (mem : List Entry) (sc : List (Key × Nat)) (sd : List (Bytes × Nat)) : Option String :=
  let addedLog := minus mem sh.mem
  let grownC := grown sc sh.sc
  let grownD := grown sd sh.sd
  let real := canon q.addr
  if nameIgnoredLog c q.name && !addedLog.isEmpty then some "log-ignored-name"
  else if fromIgnoredLog c q.cid real q.zone && !addedLog.isEmpty then some "log-ignored-client"
  else if nameIgnoredStat c q.name && !(grownC.isEmpty && grownD.isEmpty) then some "stats-ignored-name"
  else if fromIgnoredStat c q.cid real q.zone && !(grownC.isEmpty && grownD.isEmpty) then some "stats-ignored-client"
  else if c.anon && !addedLog.all (fun e => masked e.ip) then some "log-unmasked"
  else if c.anon && !grownC.all keyMasked then some "stats-unmasked"
  else none

/-- Disk clause: a flush writes nothing that was not in memory. -/
def specFlush (sh : Shadow) (mem file : List Entry) : Option String :=
  if !(minus (minus file sh.file) sh.mem).isEmpty then some "flush-foreign-record"
  else if !(minus mem sh.mem).isEmpty then some "flush-foreign-record"
  else none

/-- The stored records a returned record may stand for. -/
def standsFor (c : Conf) (sh : Shadow) (r : Entry) : List Entry :=
  (sh.mem ++ sh.file).filter (fun e => report c e == r)

/-- Log-API clause for one returned record. -/
def specFound (c : Conf) (sh : Shadow) (r : Entry) : Option String :=
  let cands := standsFor c sh r
  if c.anon && !masked r.ip then some "search-unmasked"
  else if cands.isEmpty then some "search-foreign-record"
  else if Ignore.has c.ignQ r.name then some "search-ignored-name"
  else if cands.all (fun e => fromIgnoredLog c e.cid e.ip) then some "search-ignored-client"
  else none

/-- A field of `client_info` that is an address and is not masked. -/
def infoUnmasked : Option Info → Bool
  | some i => (match i.rule with | .ip a => !masked a | _ => false)
  | none => false

/-- Log-API clause for one returned record, all fields: the record clause above;
with anonymisation on, no address-valued field of `client_info` is unmasked and
the raw JSON mentions no un-anonymised peer address (catch-all). -/
def specReported (c : Conf) (sh : Shadow) (r : Reported) : Option String :=
  match specFound c sh r.entry with
  | some w => some w
  | none =>
    if c.anon && r.leak then some "report-leaks-raw-address"
    else if c.anon && infoUnmasked r.info then some "report-unmasked-field"
    else none

def firstSome {α : Type} (f : α → Option String) : List α → Option String
  | [] => none
  | x :: rest => match f x with
    | some w => some w
    | none => firstSome f rest

/-- Statistics report: nothing is reported that is not stored. -/
def specReport (sh : Shadow) (sc : List (Key × Nat)) (sd : List (Bytes × Nat)) : Option String :=
  if !(grown sc (sh.dc ++ sh.sc)).isEmpty || !(grown sd (sh.dd ++ sh.sd)).isEmpty then
    some "stats-report-foreign"
  else none

/-- Disk clause for the statistics: stats.db (read raw, all buckets) holds no
client or domain count beyond what the database and the memory unit held
before, and storing a unit adds nothing to the memory unit. -/
def specDisk (sh : Shadow) (kc : List (Key × Nat)) (kd : List (Bytes × Nat))
    (sc : List (Key × Nat)) (sd : List (Bytes × Nat)) : Option String :=
  if !(grown kc (sh.dc ++ sh.sc)).isEmpty || !(grown kd (sh.dd ++ sh.sd)).isEmpty then
    some "stats-disk-foreign"
  else if !(grown sc sh.sc).isEmpty || !(grown sd sh.sd).isEmpty then some "stats-disk-foreign"
  else none

/-- `none` = the operation's observable result is allowed by the property. -/
def specStep (c : Conf) (sh : Shadow) (op : Op) (out : Out) : Option String :=
  match op, out with
  | .query q, .stores mem sc sd => specQuery c sh q mem sc sd
  | .flush, .flushed mem file => specFlush sh mem file
  | .search, .found rs => firstSome (specReported c sh) rs
  | .stats, .report sc sd => specReport sh sc sd
  | .tick, .ticked kc kd sc sd => specDisk sh kc kd sc sd
  | .restart, .restarted mem file kc kd sc sd =>
    (match specFlush sh mem file with
     | some w => some w
     | none => specDisk sh kc kd sc sd)
  | .rotate, .rotated file =>
    if !(minus file sh.file).isEmpty then some "flush-foreign-record" else none
  | _, _ => none

def specOK (c : Conf) (sh : Shadow) (op : Op) (out : Out) : Bool := (specStep c sh op out).isNone

/-- The model's own stores as a shadow. -/
def State.shadow (s : State) : Shadow :=
  { mem := s.mem, file := s.file, sc := s.sClients, sd := s.sDomains,
    dc := s.dClients, dd := s.dDomains }

/-- The shadow after an observation. -/
def Shadow.update (sh : Shadow) : Out → Shadow
  | .stores mem sc sd => { sh with mem := mem, sc := sc, sd := sd }
  | .flushed mem file => { sh with mem := mem, file := file }
  | .ticked kc kd sc sd => { sh with dc := kc, dd := kd, sc := sc, sd := sd }
  | .restarted mem file kc kd sc sd =>
    { mem := mem, file := file, dc := kc, dd := kd, sc := sc, sd := sd }
  | .rotated file => { sh with file := file }
  | _ => sh

/-- Every step of the model's run from `s` passes the monitor (evaluated on the
model's own stores). -/
def monitoredRun : State → List Op → Bool
  | _, [] => true
  | s, op :: rest => specOK s.conf s.shadow op (step s op).2 && monitoredRun (step s op).1 rest

/-- `e` is the record of the query `q` processed in state `s`, where `q` was
neither for an ignored name nor from an ignored client. -/
def RecordedBy (s : State) (q : Query) (e : Entry) : Prop :=
  e = logEntry s.conf q ∧ nameIgnoredLog s.conf q.name = false ∧
    fromIgnoredLog s.conf q.cid (canon q.addr) q.zone = false

/-- A query as the server can receive it: `netip.Addr.AsSlice` has 4 or 16 bytes. -/
def Op.valid : Op → Bool
  | .query q => q.addr.length == 4 || q.addr.length == 16
  | .edit _ (.zip _ _) => false
  | _ => true

end AGH.C08
