/-
C17 declarative spec, written from the property text and from the documented
grammar of shell file-name patterns (Go `path/filepath.Match` doc comment), not
from the matching algorithm:

  pattern: { term }
  term:  '*'  any sequence of non-separator characters
         '?'  any single non-separator character
         '[' [ '^' ] { character-range } ']'   (non-empty)
         c    (c != '*', '?', '\\', '[')          '\\' c
  character-range:  c (c != '\\', '-', ']')   '\\' c   lo '-' hi

`parseGlob` is a plain recursive-descent parser into an AST, `matchesT` is
the backtracking semantics of the AST ("`*` tries every split").  The
monitor `specOK` is evaluated by the driver on the IMPLEMENTATION's
observation.
-/
import AGH.Model.SafeFS
namespace AGH.C17
open AGH AGH.Bytes

inductive Term where
  | star
  | any
  | lit (b : Nat)
  | cls (neg : Bool) (ranges : List (Nat × Nat))
  deriving DecidableEq, Repr

/-- One character of a class: `c` or `\c`, a whole UTF-8 encoded character,
never the last thing in the pattern. -/
def classChar (s : Bytes) : Option (Nat × Bytes) :=
  match s with
  | [] => none
  | c :: cs =>
    let body := if c = cBsl then cs else c :: cs
    let d := decodeRune body
    if c = dash ∨ c = cRBr ∨ body = [] ∨ (d.1 = runeError ∧ d.2 = 1) ∨ body.drop d.2 = [] then none
    else some (d.1, body.drop d.2)

/-- `{ character-range } ']'`; `acc` are the ranges read so far (reversed). -/
def parseRanges : Nat → Bytes → List (Nat × Nat) → Option (List (Nat × Nat) × Bytes)
  | 0, _, _ => none
  | f + 1, s, acc =>
    if s.head? = some cRBr ∧ acc ≠ [] then some (acc.reverse, s.tail)
    else
      match classChar s with
      | none => none
      | some (lo, s1) =>
        if s1.head? = some dash then
          match classChar s1.tail with
          | none => none
          | some (hi, s3) => parseRanges f s3 ((lo, hi) :: acc)
        else parseRanges f s1 ((lo, lo) :: acc)

def parseGlobF : Nat → Bytes → Option (List Term)
  | 0, _ => none
  | _ + 1, [] => some []
  | f + 1, c :: cs =>
    if c = cStar then (parseGlobF f cs).map (Term.star :: ·)
    else if c = cQuest then (parseGlobF f cs).map (Term.any :: ·)
    else if c = cBsl then
      match cs with
      | [] => none
      | d :: ds => (parseGlobF f ds).map (Term.lit d :: ·)
    else if c = cLBr then
      let neg := cs.head? == some cCaret
      let body := if neg then cs.tail else cs
      match parseRanges (body.length + 1) body [] with
      | none => none
      | some (rs, rest) => (parseGlobF f rest).map (Term.cls neg rs :: ·)
    else (parseGlobF f cs).map (Term.lit c :: ·)

/-- The AST of a pattern; `none` = malformed. -/
def parseGlob (pat : Bytes) : Option (List Term) := parseGlobF (pat.length + 1) pat

def inRanges (r : Nat) (rs : List (Nat × Nat)) : Bool :=
  rs.any fun p => decide (p.1 ≤ r) && decide (r ≤ p.2)

/-- Meaning of a pattern: does the term list match ALL of `name`? -/
def matchesT : List Term → Bytes → Bool
  | [], n => n.isEmpty
  | .star :: ts, n =>
    (List.range (n.length + 1)).any fun k => !(n.take k).contains slash && matchesT ts (n.drop k)
  | .any :: ts, n =>
    match n with
    | [] => false
    | c :: _ => c != slash && matchesT ts (n.drop (decodeRune n).2)
  | .lit b :: ts, n =>
    match n with
    | [] => false
    | c :: tl => c == b && matchesT ts tl
  | .cls neg rs :: ts, n =>
    match n with
    | [] => false
    | _ :: _ => (inRanges (decodeRune n).1 rs != neg) && matchesT ts (n.drop (decodeRune n).2)

/-- `name` matches the (well-formed) pattern `g`. -/
def globMatches (g name : Bytes) : Bool :=
  match parseGlob g with
  | some ts => matchesT ts name
  | none => false

def matchesSome (pats : List Bytes) (p : Bytes) : Bool := pats.any (globMatches · p)

/-! ### Kernel path resolution in a symlink-free tree

A directory is identified by the list of names leading to it from `/`.  The
empty component and `.` stay, `..` goes to the parent (the parent of `/` is
`/`), any other name descends.  (Existence checks are not modelled: the
implementation hands only the cleaned path to the kernel.) -/
def walk : List Bytes → List Bytes → List Bytes
  | cur, [] => cur
  | cur, c :: cs =>
    if c = [] ∨ c = dotC then walk cur cs
    else if c = dotdotC then walk cur.dropLast cs
    else walk (cur ++ [c]) cs

/-- The file named by an absolute path, as the kernel resolves it. -/
def resolve (p : Bytes) : List Bytes := walk [] (splitOn slash p)

/-- Components of a path: the non-empty pieces between separators. -/
def comps (p : Bytes) : List Bytes := (splitOn slash p).filter (· != [])

/-- A component that names a directory entry literally. -/
def plainComp (c : Bytes) : Prop := c ≠ [] ∧ c ≠ dotC ∧ c ≠ dotdotC ∧ slash ∉ c

/-! ### Directory depth of a pattern -/

/-- Number of literal separators in a pattern. -/
def litSlashes : List Term → Nat
  | [] => 0
  | .lit b :: ts => (if b = slash then 1 else 0) + litSlashes ts
  | _ :: ts => litSlashes ts

/-- No character class of the pattern admits the separator (Go's classes,
unlike `*` and `?`, do match `/` when they list or do not exclude it). -/
def noSlashClass : List Term → Bool
  | [] => true
  | .cls neg rs :: ts => !neg && !inRanges slash rs && noSlashClass ts
  | _ :: ts => noSlashClass ts

/-! ### The monitor -/

/-- `specOK op e obs`: the observation `obs` of the implementation on case
`e` is allowed by the property.

1. The content of a local file `p` is in force afterwards only if the
   location is absolute, `p` is its cleaned form, and `p` matches one of the
   configured patterns (so: never with no patterns, never for relative paths
   or `file:`/`ftp:`/… locations, never through `..`/`//` spellings).
2. Enforced at add and at set-url: an absolute location is accepted
   (status 200) only if its cleaned form matches one of the patterns.
3. Content that is neither the old content, nor the HTTP server's, nor a
   known local file's is a read of something the check cannot name.
Crashes and refusals read nothing and are allowed by this property. -/
def srcWhy (e : Env) (src : Src) : Option String :=
  match src with
  | .file p =>
    if !isAbs e.loc then some "local-file-read-for-non-absolute-location"
    else if p != pathClean e.loc then some "read-other-file-than-cleaned-location"
    else if e.pats.isEmpty then some "local-file-read-with-no-patterns"
    else if !matchesSome e.pats p then some "local-file-read-outside-safe-patterns"
    else none
  | .unknown => some "unknown-content-stored"
  | _ => none

def specWhy (op : Op) (e : Env) (obs : Obs) : Option String :=
  match obs with
  | .confErr _ => none
  | .panic _ => none
  | .done status _ src _ =>
    match srcWhy e src with
    | some w => some w
    | none =>
      if (op = .add ∨ op = .setURL) ∧ status = 200 ∧ isAbs e.loc ∧
          !matchesSome e.pats (pathClean e.loc)
      then some "unsafe-absolute-location-accepted"
      else none

def specOK (op : Op) (e : Env) (obs : Obs) : Bool := (specWhy op e obs).isNone

end AGH.C17
