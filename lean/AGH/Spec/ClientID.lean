/-
C16 declarative spec, written from the property text (not from the code):
a decidable predicate on (request context, observed result).  The driver
evaluates it on the IMPLEMENTATION's result; `Props/C16.lean` proves the model
always satisfies it.
-/
import AGH.Model.ClientID
namespace AGH.C16
open AGH AGH.Bytes

/-- `s = l ++ "." ++ suffix`  ⇒  `some l`. -/
def stripDotSuffix (s suffix : Bytes) : Option Bytes :=
  if s.length ≥ suffix.length + 1 ∧ s.drop (s.length - suffix.length - 1) = dot :: suffix
  then some (s.take (s.length - suffix.length - 1)) else none

/-- The label `l` such that the cleaned path is `/dns-query/l` (or `dns-query/l`). -/
def pathLabel (p : Bytes) : Option Bytes :=
  let c := pathClean p
  let pre1 := slash :: dnsQuery ++ [slash]
  let pre2 := dnsQuery ++ [slash]
  if pre1.isPrefixOf c then some (c.drop pre1.length)
  else if pre2.isPrefixOf c then some (c.drop pre2.length)
  else none

def sniCapable (p : Proto) : Bool := p == .https || p == .tls || p == .quic

/-- id is the lower-cased form of a valid label `l`. -/
def idOf (l id : Bytes) : Bool := validLabel l && id == lower l

/-- A non-empty id justified by the server name: `cli = l.<host>`, id = lower l. -/
def sniIdOK (host : Bytes) (cs : Except Err Bytes) (id : Bytes) : Bool :=
  host ≠ [] &&
    (match cs with
     | .ok cli => (match stripDotSuffix cli host with
                   | some l => idOf l id | none => false)
     | .error _ => false)

/-- "Nobody" is acceptable as far as the server name is concerned: no candidate
label is present and strict checking does not demand a failure. -/
def sniNobodyOK (host : Bytes) (strict : Bool) (cs : Except Err Bytes) : Bool :=
  if host ≠ [] then
    match cs with
    | .ok cli =>
      if cli = host then true
      else match stripDotSuffix cli host with
        | some l => if l ≠ [] ∧ ¬ l.contains dot then false else !strict
        | none => !strict
    | .error _ => false
  else true

/-- A failure is justified by the server name. -/
def sniErrOK (host : Bytes) (strict : Bool) (cs : Except Err Bytes) : Bool :=
  host ≠ [] &&
    (match cs with
     | .error _ => true
     | .ok cli =>
       cli ≠ host &&
       (match stripDotSuffix cli host with
        | some l => if l ≠ [] ∧ ¬ l.contains dot then !validLabel l else strict
        | none => strict))

def specOK (c : Ctx) (out : Except Err Bytes) : Bool :=
  -- Plain and DNSCrypt never carry a ClientID and never fail here.
  (if !sniCapable c.proto then (match out with | .ok id => id == [] | .error _ => false) else true) &&
  (match out with
   | .ok id =>
     if id ≠ [] then
       -- a non-empty id comes only from /dns-query/<l> or <l>.<server name>
       (c.proto == .https &&
          (match c.path with
           | some p => (match pathLabel p with | some l => idOf l id | none => false)
           | none => false))
       ||
       (sniCapable c.proto && sniIdOK c.hostSrvName (clientServerName c) id)
     else
       -- "nobody" only when there is no candidate label at all, and strict
       -- checking did not demand a failure
       (match c.proto, c.path with
        | .https, some p =>
          (match pathLabel p with
           | some _ => false   -- a candidate label is present: id or failure, never nobody
           | none => true)
        | .https, none => false
        | _, _ => true) &&
       (if sniCapable c.proto then sniNobodyOK c.hostSrvName c.strict (clientServerName c) else true)
   | .error _ =>
     -- a failure needs a reason the property names
     (c.proto == .https &&
        (match c.path with
         | none => true
         | some p =>
           (match pathLabel p with
            | some l => !validLabel l      -- invalid label or extra segments
            | none => pathClean p ≠ slash :: dnsQuery ∧ pathClean p ≠ dnsQuery)))
     ||
     sniErrOK c.hostSrvName c.strict (clientServerName c))

end AGH.C16
