/-
C11 declarative spec, written from the property text (not from the code):

  "Once an administrator account exists, every HTTP endpoint that reads or
   changes configuration, logs, statistics, clients, filters, TLS or DHCP state
   runs its handler only for requests carrying a valid unexpired session cookie
   or correct basic credentials; anything else is answered 403 or redirected to
   the login page with no side effect.  State-changing endpoints additionally
   accept only their declared method and a JSON content type.  The only routes
   reachable without credentials are the login call, the login page and static
   assets, the mobileconfig generators and the DNS-over-HTTPS resolver."

`specCheck` is a decidable predicate on (request, declared method of the
serving route, observed outcome).  The driver evaluates it on the
IMPLEMENTATION's outcome; `Props/C11.lean` proves the model satisfies it for
every request and every route of the regenerated table.

Reading of the text made explicit here:
* "an administrator account exists" is `usersExist ∧ ¬firstRun`: the install
  wizard (first run) is the state before the account is created and persisted.
* "reachable without credentials" is decided on the request PATH, the thing an
  attacker chooses: the five families below.  Everything else is protected,
  whatever route serves it (so also unknown paths, which fall to `/`).
* a request the `ServeMux` answers itself (canonicalising redirect, 404) calls
  no registered handler and is allowed.
* "a JSON content type": `Content-Type: application/json`, or no body and no
  content type at all (nothing to type).  "No body" is a DECLARED absence of a
  body: `ContentLength = 0`.  A request of unknown length (`ContentLength = -1`:
  chunked transfer encoding, HTTP/2 without content-length) announces a body the
  server cannot know to be empty before reading it, so it counts as having a
  body, even if the chunked body turns out to be empty: without
  `application/json` it must not enter a state-changing handler.
Core Lean only.
-/
import AGH.Model.Http
namespace AGH.C11
open AGH AGH.Bytes

/-! ## The paths reachable without credentials -/

/-- "/control/login" -/
def pControlLogin : Bytes := [47, 99, 111, 110, 116, 114, 111, 108, 47, 108, 111, 103, 105, 110]
/-- "/apple/doh.mobileconfig" -/
def pDohMobile : Bytes :=
  [47, 97, 112, 112, 108, 101, 47, 100, 111, 104, 46, 109, 111, 98, 105, 108, 101, 99, 111, 110, 102, 105, 103]
/-- "/apple/dot.mobileconfig" -/
def pDotMobile : Bytes :=
  [47, 97, 112, 112, 108, 101, 47, 100, 111, 116, 46, 109, 111, 98, 105, 108, 101, 99, 111, 110, 102, 105, 103]
/-- "/dns-query" -/
def pDnsQuery : Bytes := [47, 100, 110, 115, 45, 113, 117, 101, 114, 121]
/-- "/dns-query/" -/
def pDnsQuerySlash : Bytes := [47, 100, 110, 115, 45, 113, 117, 101, 114, 121, 47]
/-- "/control/" -/
def pControl : Bytes := [47, 99, 111, 110, 116, 114, 111, 108, 47]

/-- The login page and its resources: `/login.<anything without a slash>`. -/
def isLoginPage (p : Bytes) : Bool :=
  pLoginDot.isPrefixOf p && !(p.drop pLoginDot.length).contains slash

/-- Static assets: everything under `/assets/`. -/
def isStaticAsset (p : Bytes) : Bool := pAssets.isPrefixOf p

/-- The DNS-over-HTTPS resolver: `/dns-query` and `/dns-query/<client id>`. -/
def isDoH (p : Bytes) : Bool := p == pDnsQuery || pDnsQuerySlash.isPrefixOf p

/-- The request paths the property allows to be served without credentials. -/
def specPublicPath (p : Bytes) : Bool :=
  p == pControlLogin || isLoginPage p || isStaticAsset p ||
  p == pDohMobile || p == pDotMobile || isDoH p

/-- A router token is fresh when its date is at most `glTokenTimeoutSeconds`
in the past (plain arithmetic: no wrap-around makes an old token fresh). -/
def tokenFresh (now : Nat) : GLStat → Bool
  | .date d => decide (now ≤ d + glTimeout)
  | _ => false

/-- In gl-inet mode (`--glinet`) the router's login service is a further issuer
of credentials: it writes a token file named after the value it puts into the
`Admin-Token` cookie.  `issued` is what that service issued under EXACTLY the
name the cookie carries (`.missing`: nothing) — the cookie value is an opaque
name, never a path: `x/../other`, an empty value, a percent-encoded or
over-long value name no token unless a token of literally that name was issued. -/
def specGLAuthenticated (r : Req) (issued : GLStat) : Bool :=
  r.glMode && r.glCookie.isSome && tokenFresh r.now issued

/-- "carrying a valid unexpired session cookie or correct basic credentials";
in gl-inet mode also a fresh router token of exactly the cookie's name. -/
def specAuthenticated (r : Req) (issued : GLStat) : Bool :=
  r.cookie == .valid || r.basic == .right || specGLAuthenticated r issued

/-- "a JSON content type" (or nothing to type: a declared empty body,
`ContentLength = 0`, and no content type; an unknown length is not "empty"). -/
def jsonOrEmpty (r : Req) : Bool :=
  r.ctype == sAppJSON || (r.contentLength == 0 && r.ctype == [])

/-- "State-changing" declared methods. -/
def stateChanging (m : Bytes) : Bool := m == sPOST || m == sPUT || m == sDELETE

/-- The answers the property allows for a request without valid credentials
to a protected path: 403, a redirect to the login page, or an answer of the
mux itself (no registered handler called). -/
def allowedDenial : Obs → Bool
  | .mux _ => true
  | .resp .forbiddenAuth => true
  | .resp .forbiddenPre => true
  | .resp (.redirect .login) => true
  | .resp (.redirect .glRouter) => true   -- gl-inet mode: the router's login page
  | _ => false

/-- The request is one the property protects: an administrator account exists
(a configured user, or in gl-inet mode the router's account), the path is not
one of the public families, no valid credentials. -/
def protectedReq (req : Req) (issued : GLStat) : Bool :=
  (req.usersExist || req.glMode) && !req.firstRun && !specPublicPath req.path &&
  !specAuthenticated req issued

/-- The handler of a state-changing route ran although the method is not the
declared one or the content type is not JSON. -/
def badStateChange (req : Req) (declared : Option Bytes) : Bool :=
  match declared with
  | some m => stateChanging m && !(req.method == m && jsonOrEmpty req)
  | none => false

/-- The spec monitor: `none` = the outcome is allowed; `some why` = the
property fails on this request, `why` a short stable reason class.
`declared` is the method declared for the route that served the request
(`none` when the mux answered itself or the route is unknown); `issued` is the
router token issued under exactly the name in the `Admin-Token` cookie. -/
def specCheck (req : Req) (declared : Option Bytes) (o : Obs) (issued : GLStat := .missing) :
    Option String :=
  if protectedReq req issued && !allowedDenial o then
    some (if o == .resp .ran then
            -- the code's token gate opened on a file that is not the token issued
            -- under the cookie's name
            (if glProcessCookie req then "C11.gl-token-not-issued-under-that-name"
             else "C11.unauthenticated-handler-ran")
          else "C11.unauthenticated-not-403-or-login")
  else if o == .resp .ran && badStateChange req declared then
    some "C11.state-change-wrong-method-or-ctype"
  else none

def specOK (req : Req) (declared : Option Bytes) (o : Obs) (issued : GLStat := .missing) : Bool :=
  (specCheck req declared o issued).isNone

/-! ## The route-level reading used by the per-program theorem -/

/-- `net/http.ServeMux` for patterns without method, host or wildcard (the
extractor refuses the others): a pattern ending in '/' serves its subtree, any
other pattern serves exactly its own path.  This relation between the serving
pattern and `URL.Path` is an assumption about Go's mux; the driver re-checks
it on every observed (pattern, path) pair. -/
def servedBy (pattern path : Bytes) : Bool :=
  if pattern.getLast? = some slash then pattern.isPrefixOf path else path == pattern

/-- Patterns that may be registered without the authentication wrapper: exactly
the property's list (the login page and the assets are served by `/`, which
is NOT in this list: it is behind `optionalAuth`). -/
def allowedPatterns : List Bytes :=
  [pControlLogin, pDohMobile, pDotMobile, pDnsQuery, pDnsQuerySlash]

def allowedPattern (p : Bytes) : Bool := allowedPatterns.contains p

/-- `optionalAuth` is reached before any wrapper that could answer or run
something else: only `postInstall`/`gzip` may precede it. -/
def authFirst : List Wrapper → Bool
  | .postInstall :: t => authFirst t
  | .gzip :: t => authFirst t
  | .optionalAuth :: _ => true
  | _ => false

/-- The route is an install-wizard route: `preInstall` is its outermost wrapper. -/
def preInstallFirst : List Wrapper → Bool
  | .preInstall :: _ => true
  | _ => false

def hasEnsure (m : Bytes) (chain : List Wrapper) : Bool := chain.contains (.ensure m)

/-- The per-route obligation discharged over the regenerated table. -/
def routeOK (r : Route) : Bool :=
  (allowedPattern r.pattern || preInstallFirst r.chain || authFirst r.chain) &&
  (!stateChanging r.declared || hasEnsure r.declared r.chain)

def flowOK (f : Flow) : Bool := f.src != .other

/-- No place in the start-up code may leave the auth module nil while requests
are served, and the checked assignment from `initUsers` must be there. -/
def authFactOK (f : AuthFact) : Bool := f.kind != .bad

/-- "Once an administrator account exists" the gate is on whatever the state of
the session store: start-up may stop, it may not go on with the gate open.
`started`/`authNil` are what start-up did, `probe` the answer to a protected
request without credentials afterwards. -/
def startCheck (usersConfigured started : Bool) (probe : Option Obs) : Option String :=
  if usersConfigured && started then
    match probe with
    | some o => if allowedDenial o then none else some "C11.gate-open-after-startup"
    | none => some "C11.gate-open-after-startup"
  else none

/-- The declared method of whatever served the request. -/
def Served.declared : Served → Option Bytes
  | .route r => some r.declared
  | _ => none

end AGH.C11
