/-
C04 declarative spec, written from the property text (not from the code).

  "Each request is attributed to at most one persistent client, chosen by
   precedence ClientID, then exact IP, then the most specific containing CIDR,
   then the MAC of the DHCP lease for the source address, and that client's own
   filtering, safe-browsing, parental, safe-search and blocked-services
   settings are applied exactly when it opts out of the global ones.  After any
   sequence of client add/update/delete operations every identifier resolves
   to the client that currently owns it, or to none.  An operation that would
   make two clients share a name or an identifier is rejected and leaves the
   registry unchanged."

The spec's state is the abstract registry: the list of clients that exist
(`Registry`), with no index at all.  It evolves by the operations the
implementation ACCEPTED (`applyAccepted`); everything the implementation lets
one observe is then compared with what the registry says (`expected`), and an
accepted operation must leave a registry without sharing (`noSharing`).

Reading choices:
* identifiers are typed values: an address is `netip.Addr` (zone included), a
  CIDR is `netip.Prefix` as written (`1.2.3.0/24` and `1.2.3.4/24` are two
  identifiers, DESIGN C04 limits), a MAC is its bytes, a ClientID its bytes;
* "most specific containing CIDR": among the CIDRs owned by any client that
  contain the address (zone ignored, same family), the longest prefix; two
  CIDRs of the same length containing the same address differ only in the host
  bits written, the one with the smaller address wins;
* resolving an ADDRESS that nobody owns exactly falls through to the most
  specific CIDR (that is what "attributed by precedence" says), so the
  observable `findByIP a` is `owner (ip a)` or else the CIDR owner.
-/
import AGH.Model.Clients
import AGH.Spec.Access
namespace AGH.C04
open AGH AGH.Bytes
open AGH.C03 (IP Prefix inCIDR)

abbrev Registry := List Client

inductive Ident where
  | name (n : Bytes)
  | cid (c : Bytes)
  | ip (a : IP)
  | subnet (p : Prefix)
  | mac (m : MAC)
  deriving DecidableEq, Repr

/-- Everything by which a client is known. -/
def Client.idents (c : Client) : List Ident :=
  .name c.name :: (c.cids.map .cid ++ c.ips.map .ip ++ c.subnets.map .subnet ++ c.macs.map .mac)

/-- Two clients are distinct and share neither name nor identifier. -/
def disjointClients (a b : Client) : Bool :=
  a.uid != b.uid && a.idents.all (fun k => !b.idents.contains k)

/-- No two clients of the registry share a name or an identifier. -/
def noSharing : Registry → Bool
  | [] => true
  | c :: rest => rest.all (disjointClients c) && noSharing rest

/-- The client that owns the identifier, if any. -/
def owner (reg : Registry) (k : Ident) : Option Client :=
  reg.find? (fun c => c.idents.contains k)

/-- `p` is more specific than `q` (for two CIDRs containing one address). -/
def moreSpecific (p q : Prefix) : Bool :=
  decide (p.bits > q.bits) || (p.bits == q.bits && decide (p.addr < q.addr))

/-- All (CIDR, owner) pairs whose CIDR contains the address. -/
def containing (reg : Registry) (ip : IP) : List (Prefix × Client) :=
  reg.flatMap fun c => (c.subnets.filter (fun p => inCIDR p ip)).map fun p => (p, c)

def pickBest : Option (Prefix × Client) → Prefix × Client → Option (Prefix × Client)
  | none, x => some x
  | some b, x => if moreSpecific x.1 b.1 then some x else some b

/-- The most specific CIDR containing the address, with its owner. -/
def mostSpecific (reg : Registry) (ip : IP) : Option (Prefix × Client) :=
  (containing reg ip).foldl pickBest none

/-- The client an address resolves to. -/
def byAddress (reg : Registry) (ip : IP) : Option Client :=
  (owner reg (.ip ip)).orElse fun _ => (mostSpecific reg ip).map (·.2)

/-- The client a request (ClientID, source address) is attributed to; `lease`
is the MAC of the DHCP lease for the source address. -/
def attributed (reg : Registry) (lease : Option MAC) (cid : Bytes) (ip : IP) : Option Client :=
  ((owner reg (.cid cid)).orElse fun _ => byAddress reg ip).orElse fun _ =>
    lease.bind fun m => owner reg (.mac m)

/-- The settings in force for a request attributed to `c`, given the global
ones: name and tags say who it is; the client's own filtering / safe-search
(switch AND engine) / safe-browsing / parental settings replace the global ones
exactly when it opts out of them, its own blocked services exactly when it opts
out of those; everything else is as it was. -/
def effective (c : Option Client) (g : Settings) : Settings :=
  match c with
  | none => g
  | some c =>
    { clientName := c.name
      clientTags := c.tags
      svc := if c.useOwnBlockedServices then c.svc else g.svc
      filteringEnabled := if c.useOwnSettings then c.filteringEnabled else g.filteringEnabled
      safeSearchEnabled := if c.useOwnSettings then c.safeSearchEnabled else g.safeSearchEnabled
      clientSafeSearch := if c.useOwnSettings then c.safeSearch else g.clientSafeSearch
      safeBrowsingEnabled := if c.useOwnSettings then c.safeBrowsingEnabled else g.safeBrowsingEnabled
      parentalEnabled := if c.useOwnSettings then c.parentalEnabled else g.parentalEnabled
      protectionEnabled := g.protectionEnabled
      untouched := g.untouched }

/-! ### the registry under the operations the implementation accepted -/

structure World where
  reg : Registry
  dhcp : List (IP × MAC)

def World.empty : World := ⟨[], []⟩

def World.lease (w : World) (ip : IP) : Option MAC := (w.dhcp.find? (·.1 == ip)).map (·.2)

/-- What an ACCEPTED operation does to the registry. -/
def applyAccepted (w : World) : Op → World
  | .add c => { w with reg := w.reg ++ [c] }
  | .update n c => { w with reg := w.reg.map fun d => if d.name = n then { c with uid := d.uid } else d }
  | .remove n => { w with reg := w.reg.filter (·.name != n) }
  | .dhcpSet ip mac => { w with dhcp := (ip, mac) :: w.dhcp.filter (·.1 != ip) }
  | .dhcpDel ip => { w with dhcp := w.dhcp.filter (·.1 != ip) }

/-! ### observations -/

/-- One thing the harness looks at after every operation. -/
inductive Probe where
  | name (n : Bytes)
  | cid (c : Bytes)
  | ip (a : IP)
  | mac (m : MAC)
  /-- `ApplyClientFiltering(cid, addr, global settings)` -/
  | apply (cid : Bytes) (a : IP)
  /-- `Storage.Find(string)` -/
  | find (id : IdStr)

/-- What was seen. -/
inductive Seen where
  | none
  | client (uid ver : Nat)
  | setts (s : Settings)
  /-- a nil client with ok = true, or a panic -/
  | broken
  deriving DecidableEq, Repr

def seenOf : Option Client → Seen
  | .none => .none
  | .some c => .client c.uid c.ver

/-- The global settings every `apply` probe starts from. -/
def globalSettings : Settings :=
  { clientName := [], clientTags := 0, svc := 0, filteringEnabled := true, safeSearchEnabled := false,
    clientSafeSearch := 0, safeBrowsingEnabled := true, parentalEnabled := false,
    protectionEnabled := true, untouched := true }

/-- What the registry says the probe must show. -/
def expected (w : World) : Probe → Seen
  | .name n => seenOf (owner w.reg (.name n))
  | .cid c => seenOf (owner w.reg (.cid c))
  | .ip a => seenOf (byAddress w.reg a)
  | .mac m => seenOf (owner w.reg (.mac m))
  | .apply cid a => .setts (effective (attributed w.reg (w.lease a) cid a) globalSettings)
  | .find id =>
    seenOf <|
      (((owner w.reg (.cid id.raw)).orElse fun _ => id.asIP.bind (byAddress w.reg)).orElse fun _ =>
        id.asMAC.bind fun m => owner w.reg (.mac m)).orElse fun _ =>
          id.asIP.bind fun a => (w.lease a).bind fun m => owner w.reg (.mac m)

inductive Why where
  /-- an operation was accepted although two clients now share a name/identifier -/
  | clashAccepted
  /-- a name / identifier does not resolve to its current owner (or to none) -/
  | wrongOwner
  /-- a request was attributed to another client than precedence says -/
  | precedence
  /-- right client, wrong effective settings -/
  | settings
  /-- the list of all clients is not the registry -/
  | content
  /-- a lookup crashed or returned a nil client -/
  | broken
  /-- the configuration the program wrote is refused when it starts again -/
  | restart
  deriving DecidableEq, Repr

def Why.token : Why → String
  | .clashAccepted => "C04.clash-accepted"
  | .wrongOwner => "C04.wrong-owner"
  | .precedence => "C04.precedence"
  | .settings => "C04.settings"
  | .content => "C04.registry-content"
  | .broken => "C04.lookup-broken"
  | .restart => "C04.restart-refused"

/-- "MACs (6/8/20 bytes)": the only hardware-address lengths there are
(`net.ParseMAC`, and the DHCP server validates the same set). -/
def validMAC (m : MAC) : Bool := m.length == 6 || m.length == 8 || m.length == 20

/-- The probe is inside the domain of the property: no hardware address of an
impossible length is involved (neither asked for nor handed out by DHCP). -/
def probeInScope (w : World) : Probe → Bool
  | .mac m => validMAC m
  | .apply _ a => match w.lease a with
    | some m => validMAC m
    | none => true
  | .find id =>
    (match id.asMAC with | some m => validMAC m | none => true) &&
    (match id.asIP.bind w.lease with | some m => validMAC m | none => true)
  | _ => true

/-- Judge one probe. -/
def probeFail (w : World) (p : Probe) (seen : Seen) : Option Why :=
  if !probeInScope w p then none
  else if seen = .broken then some .broken
  else
    let want := expected w p
    if seen = want then none
    else match p, seen, want with
      | .apply _ _, .setts s, .setts s' => if s.clientName = s'.clientName then some .settings else some .precedence
      | .apply _ _, _, _ => some .precedence
      | _, _, _ => some .wrongOwner

/-- The registry as (uid, ver) pairs. -/
def regPairs (reg : Registry) : List (Nat × Nat) := reg.map fun c => (c.uid, c.ver)

/-- Two lists with the same length and the same members (the listing of all
clients is compared as a set: the property says nothing about its order). -/
def sameMembers (a b : List (Nat × Nat)) : Bool :=
  a.length == b.length && a.all (fun x => b.contains x) && b.all (fun x => a.contains x)

/-- One step of the monitor: the operation, whether the implementation accepted
it, and what it shows afterwards.  Returns the new world and the first clause
broken. -/
def specStep (w : World) (op : Op) (accepted : Bool) (probes : List (Probe × Seen))
    (all : List (Nat × Nat)) : World × Option Why :=
  let w' := if accepted then applyAccepted w op else w
  let why : Option Why :=
    if !noSharing w'.reg then some .clashAccepted
    else match probes.findSome? (fun ps => probeFail w' ps.1 ps.2) with
      | some y => some y
      | none => if !sameMembers all (regPairs w'.reg) then some .content else none
  (w', why)

def specOK (w : World) (op : Op) (accepted : Bool) (probes : List (Probe × Seen))
    (all : List (Nat × Nat)) : Bool :=
  (specStep w op accepted probes all).2.isNone

end AGH.C04
