/-
C10 — specification of the DHCPv4 lease table, written from the property text:

  "For every IPv4 address at most one client at a time holds an acknowledged,
   unexpired lease (static or dynamic), and a client holds at most one lease;
   dynamic addresses lie inside the configured pool and never coincide with a
   static reservation or the gateway, and a client with a reservation is only
   ever given that address.  A DISCOVER from a new client is answered with an
   offer whenever some pool address is neither leased nor reserved.  The lease
   database on disk lists exactly the leases in memory, each once, so a restart
   restores the same table and the same hostname/address answers given to DNS."

The predicate speaks about OBSERVATIONS only (`Obs`: the table, what the two
indexes answer, the bitset over the pool, the file), so that the driver can
evaluate it on what the implementation printed.  `obsOf` is the observation of
a model state.  Core Lean only.
-/
import AGH.Model.DHCP
namespace AGH.C10
open AGH

/-- A lease as printed (no object identity). -/
abbrev LeaseV := DLease

def Lease.view (l : Lease) : LeaseV := { mac := l.mac, ip := l.ip, host := l.host, static := l.static, exp := l.exp }

/-- One index entry: the position in the table of the lease it points to
(`none`: an object that is no longer in the table) and that lease. -/
structure Entry (κ : Type) where
  key : κ
  pos : Option Nat
  tgt : LeaseV
deriving Repr

structure Obs where
  now : Nat
  leases : List LeaseV
  hosts : List (Entry Bytes)
  ips : List (Entry Nat)
  /-- bit per pool offset `0 … stop-start`. -/
  bits : List Bool
  /-- number of set bits beyond the pool. -/
  extraBits : Nat
  disk : Option (List LeaseV)
  /-- What `dhcpd.Interface` answers: `(ip, HostByIP ip, MACByIP ip)` and `(host, IPByHost host)`
  (`[]` = no name / `nil`, `0` = the zero address). -/
  byIP : List (Nat × Bytes × Bytes) := []
  byHost : List (Bytes × Nat) := []
deriving Repr

def Obs.empty : Obs := { now := 1000, leases := [], hosts := [], ips := [], bits := [], extraBits := 0, disk := none }

/-- `HostByIP`, `MACByIP` (`FindMACbyIP`: a reservation, or a lease that has not
run out), `IPByHost` on a model state. -/
def State.hostByIP (s : State) (ip : Nat) : Bytes :=
  match (s.ips ip).bind s.deref with
  | some l => l.host
  | none => []

def State.macByIP (s : State) (ip : Nat) : Bytes :=
  match (s.ips ip).bind s.deref with
  | some l => if l.static || decide (s.now < l.exp) then l.mac else []
  | none => []

def State.ipByHost (s : State) (h : Bytes) : Nat :=
  match (s.hosts h).bind s.deref with
  | some l => l.ip
  | none => 0

/-- The answers by address agree with the table: the name of the lease on that
address, and its hardware address while it is a reservation or unexpired. -/
def answersAgree (o : Obs) : Bool :=
  o.byIP.all (fun (ip, h, m) =>
    match o.leases.find? (fun l => l.ip == ip) with
    | some l => h == l.host && m == (if l.static || decide (o.now < l.exp) then l.mac else [])
    | none => h == [] && m == [])

/-! ### the answers given to DNS -/

/-- `HostByIP`. -/
def Obs.hostByIP (o : Obs) (ip : Nat) : Bytes :=
  match o.ips.find? (fun e => e.key == ip) with
  | some e => e.tgt.host
  | none => []

/-- `IPByHost` (`none` is the zero `netip.Addr`). -/
def Obs.ipByHost (o : Obs) (h : Bytes) : Option Nat :=
  match o.hosts.find? (fun e => e.key == h) with
  | some e => some e.tgt.ip
  | none => none

/-! ### clauses -/

/-- A lease somebody holds now: a reservation, or an acknowledged lease that
has not run out (`Expiry` not before now; an offer that was never requested has
the zero expiry). -/
def held (now : Nat) (l : LeaseV) : Bool := l.static || now ≤ l.exp

def pairwiseB {α : Type} (p : α → α → Bool) : List α → Bool
  | [] => true
  | x :: xs => xs.all (p x) && pairwiseB p xs

/-- At most one holder per address. -/
def noSharedIP (o : Obs) : Bool :=
  pairwiseB (fun a b => a.ip != b.ip) (o.leases.filter (held o.now))

/-- At most one lease per client. -/
def oneLeasePerClient (o : Obs) : Bool :=
  pairwiseB (fun a b => a.mac != b.mac) (o.leases.filter (held o.now))

def inPool (c : Conf) (ip : Nat) : Bool := decide (c.start ≤ ip) && decide (ip ≤ c.stop)

/-- Dynamic addresses lie inside the pool and are not the gateway. -/
def dynInPool (c : Conf) (o : Obs) : Bool :=
  o.leases.all (fun l => l.static || (inPool c l.ip && l.ip != c.gw))

/-- A dynamic address never coincides with a reservation. -/
def dynNotReserved (o : Obs) : Bool :=
  o.leases.all (fun l => l.static || o.leases.all (fun r => !r.static || r.ip != l.ip))

def Op.mac? : Op → Option Bytes
  | .discover m => some m | .request m .. => some m | .decline m .. => some m | .release m .. => some m
  | _ => none

/-- A client with a reservation is only ever given that address. -/
def reservedOK (o' : Obs) (op : Op) (r : Reply) : Bool :=
  match op.mac? with
  | none => true
  | some m => r.rc != 1 || r.yi == 0 || o'.leases.all (fun l => !(l.static && l.mac == m) || l.ip == r.yi)

/-- An address given in a reply is recorded for that client in the table (so
that the clauses on the table speak about what clients were told). -/
def replyRecorded (o' : Obs) (op : Op) (r : Reply) : Bool :=
  match op.mac? with
  | none => true
  | some m => r.rc != 1 || r.yi == 0 || o'.leases.any (fun l => l.mac == m && l.ip == r.yi)

/-- The address of the reply is recorded, but under a hardware address of
another length that agrees with the client's on the common prefix (what
`copy(lease.HWAddr, mac)` leaves when a recycled lease had a longer or shorter
address).  Only names the cause of a `replyRecorded` failure. -/
def hybridRecorded (o' : Obs) (op : Op) (r : Reply) : Bool :=
  match op.mac? with
  | none => false
  | some m => o'.leases.any (fun l => l.ip == r.yi && l.mac.length != m.length &&
      l.mac.take m.length == m.take l.mac.length)

def poolAddrs (c : Conf) : List Nat := (List.range (c.stop + 1 - c.start)).map (c.start + ·)

/-- Some pool address is neither leased nor reserved. -/
def someFree (c : Conf) (o : Obs) : Bool :=
  (poolAddrs c).any (fun a => o.leases.all (fun l => l.ip != a || !held o.now l))

/-- DISCOVER from a new client is answered with an offer when an address is free. -/
def offerLive (c : Conf) (o : Obs) (op : Op) (r : Reply) : Bool :=
  match op with
  | .discover m =>
    !(validMAC m && o.leases.all (fun l => l.mac != m) && someFree c o) || (r.rc == 1 && r.typ == 2 && r.yi != 0)
  | _ => true

def LeaseV.norm (l : LeaseV) : LeaseV := if l.static then { l with exp := 0 } else l

def countOf (x : LeaseV) (xs : List LeaseV) : Nat := (xs.filter (· == x)).length

/-- Equal as multisets. -/
def sameBag (a b : List LeaseV) : Bool :=
  a.length == b.length && a.all (fun x => countOf x a == countOf x b)

/-- The file lists exactly the leases in memory, each once. -/
def diskMirror (o : Obs) : Bool :=
  match o.disk with
  | none => o.leases.isEmpty
  | some d => sameBag (d.map LeaseV.norm) (o.leases.map LeaseV.norm)

/-- The bitset of leased offsets agrees with the table. -/
def bitsAgree (c : Conf) (o : Obs) : Bool :=
  o.extraBits == 0 && o.bits.length == c.stop + 1 - c.start &&
  (List.range o.bits.length).all (fun k => o.bits.getD k false == o.leases.any (fun l => l.ip == c.start + k))

/-- The address index agrees with the table. -/
def ipIndexAgree (o : Obs) : Bool :=
  o.ips.all (fun e => match e.pos with
    | some i => (o.leases[i]?).any (fun l => l.ip == e.key) && e.tgt.ip == e.key
    | none => false) &&
  o.leases.all (fun l => o.ips.any (fun e => e.key == l.ip && e.tgt == l))

/-- Every hostname entry points to a table lease carrying that name. -/
def hostIndexSound (o : Obs) : Bool :=
  o.hosts.all (fun e => match e.pos with
    | some i => (o.leases[i]?).any (fun l => l.host == e.key)
    | none => false)

/-- Every named lease is what its hostname resolves to. -/
def hostIndexComplete (o : Obs) : Bool :=
  o.leases.all (fun l => l.host == [] || o.hosts.any (fun e => e.key == l.host && e.tgt == l))

def keyOf (l : LeaseV) : LeaseV := { l.norm with host := [] }

/-- A restart restores the same table … -/
def restartNoneLost (o o' : Obs) : Bool := sameBag (o.leases.map keyOf) (o'.leases.map keyOf)
def restartSameTable (o o' : Obs) : Bool := sameBag (o.leases.map LeaseV.norm) (o'.leases.map LeaseV.norm)

/-- … and the same hostname/address answers. -/
def restartSameAnswers (o o' : Obs) : Bool :=
  (o.ips.map (·.key) ++ o'.ips.map (·.key) ++ o.leases.map (·.ip)).all (fun ip => o.hostByIP ip == o'.hostByIP ip) &&
  (o.hosts.map (·.key) ++ o'.hosts.map (·.key) ++ o.leases.map (·.host)).all (fun h => o.ipByHost h == o'.ipByHost h)

/-! ### the monitor -/

/-- Clauses about addresses and clients (first failing clause, `none` = all hold). -/
def specCoreWhy (c : Conf) (o : Obs) (op : Op) (r : Reply) (o' : Obs) : Option String :=
  if !noSharedIP o' then some "shared-address"
  else if !oneLeasePerClient o' then some "two-leases-one-client"
  else if !dynInPool c o' then
    some (if o'.leases.any (fun l => !l.static && l.ip == c.gw) then "dynamic-on-gateway" else "dynamic-outside-pool")
  else if !dynNotReserved o' then some "dynamic-on-reservation"
  else if !reservedOK o' op r then some "reserved-client-other-address"
  else if !replyRecorded o' op r then
    some (if hybridRecorded o' op r then "offer-recorded-under-hybrid-hardware-address" else "reply-not-in-table")
  else if !offerLive c o op r then some "no-offer-though-free"
  else if !bitsAgree c o' then some "bitset-disagrees"
  else if !ipIndexAgree o' then some "ip-index-disagrees"
  else none

/-- Every lease that had a hostname before the restart is there unchanged
afterwards (what differs are leases without a name). -/
def restartNamedKept (o o' : Obs) : Bool :=
  (o.leases.map LeaseV.norm).all (fun l => l.host == [] ||
    countOf l (o.leases.map LeaseV.norm) == countOf l (o'.leases.map LeaseV.norm))

def Op.name : Op → String
  | .discover .. => "discover" | .request .. => "request" | .decline .. => "decline" | .release .. => "release"
  | .addStatic .. => "addStatic" | .updStatic .. => "updStatic" | .rmStatic .. => "rmStatic"
  | .sleep .. => "sleep" | .restart => "restart" | .reorder .. => "reorder"
  | .resetLeases => "resetLeases"

/-- Where a clause broke: the operation and, for the static-lease API, its error class. -/
def atOp (op : Op) (r : Reply) : String :=
  "@" ++ op.name ++ (if r.err == "ok" then "" else ":" ++ r.err)

/-- Two leases carry the same (non-empty) hostname. -/
def dupNames (o : Obs) : Bool :=
  !pairwiseB (fun a b => a.host != b.host) (o.leases.filter (fun l => l.host != []))

/-- An unnamed dynamic lease whose generated name (`a-b-c-d`) some lease already carries. -/
def genNameTaken (o : Obs) : Bool :=
  o.leases.any (fun u => !u.static && u.host == [] && o.leases.any (fun l => l.host == genHost u.ip))

/-- Clauses about the database file, restart and the hostname index.  For an
ordinary operation a clause fails at the step that BREAKS it (the file, or the
index, agreed with the table before the operation and does not afterwards); a
restart must reproduce the table and the answers it found, with a sound index.
The reason names the cause as far as the observation shows it. -/
def specStoreWhy (o : Obs) (op : Op) (r : Reply) (o' : Obs) : Option String :=
  if op = .restart then
    if !restartNoneLost o o' then
      some (if dupNames o then "restart-drops-duplicate-hostname"
            else if genNameTaken o then "restart-drops-lease-generated-name-taken"
            else "restart-loses-lease")
    else if !restartSameTable o o' then
      some (if restartNamedKept o o' then "restart-names-unnamed-lease" else "restart-changes-hostname")
    else if !restartSameAnswers o o' then
      some (if !hostIndexComplete o then "restart-changes-answers@host-index-was-incomplete"
            else "restart-changes-answers")
    else if !hostIndexSound o' then some "host-index-stale@restart"
    else if !hostIndexComplete o' then some "host-index-misses-lease@restart"
    else none
  else if diskMirror o && !diskMirror o' then some ("disk-differs-from-memory" ++ atOp op r)
  else if hostIndexSound o && !hostIndexSound o' then some ("host-index-stale" ++ atOp op r)
  else if hostIndexComplete o && !hostIndexComplete o' then
    some (if (o'.leases.filter (fun l => l.host == genHost r.yi)).length ≥ 2 ∧ op.name = "request"
          then "generated-hostname-not-unique@request"
          else if dupNames o' then "duplicate-hostname" ++ atOp op r
          else "host-index-misses-lease" ++ atOp op r)
  else none

/-- The reservations of the table, in table order. -/
def reservationsOf (o : Obs) : List LeaseV := (o.leases.filter (·.static)).map LeaseV.norm

/-- Reservations change only through the static-lease API: no DHCP message (and
no lapse of time) adds, removes, moves or re-assigns one ("a client with a
reservation is only ever given that address" — also after other clients'
traffic). -/
def reservationsKept (o : Obs) (op : Op) (o' : Obs) : Bool :=
  match op with
  | .discover .. | .request .. | .decline .. | .release .. | .sleep .. => reservationsOf o == reservationsOf o'
  | _ => true

def specWhy (c : Conf) (o : Obs) (op : Op) (r : Reply) (o' : Obs) : Option String :=
  match specCoreWhy c o op r o' with
  | some w => some w
  | none =>
    if !answersAgree o' then some "dns-answer-disagrees-with-table"
    else if !reservationsKept o op o' then some ("reservation-changed-by-dhcp-message" ++ atOp op r)
    else specStoreWhy o op r o'

def specCore (c : Conf) (o : Obs) (op : Op) (r : Reply) (o' : Obs) : Bool := (specCoreWhy c o op r o').isNone
def specStore (o : Obs) (op : Op) (r : Reply) (o' : Obs) : Bool := (specStoreWhy o op r o').isNone
def specOK (c : Conf) (o : Obs) (op : Op) (r : Reply) (o' : Obs) : Bool := (specWhy c o op r o').isNone

/-! ### observation of a model state -/

def posOfId (ls : List Lease) (id : Nat) : Option Nat :=
  let i := ls.findIdx (fun l => l.id == id)
  if i < ls.length then some i else none

def dedup {α : Type} [DecidableEq α] : List α → List α
  | [] => []
  | x :: xs => if x ∈ xs then dedup xs else x :: dedup xs

def entriesOf {κ : Type} (s : State) (keys : List κ) (f : κ → Option Nat) : List (Entry κ) :=
  keys.filterMap (fun k => match f k with
    | none => none
    | some id => match s.deref id with
      | none => none
      | some l => some { key := k, pos := posOfId s.leases id, tgt := l.view })

def obsOf (c : Conf) (s : State) : Obs :=
  { now := s.now
    leases := s.leases.map Lease.view
    hosts := entriesOf s (dedup s.hostKeys) s.hosts
    ips := entriesOf s (dedup (s.ipKeys ++ s.leases.map (·.ip))) s.ips
    bits := (List.range (c.stop + 1 - c.start)).map s.bits
    extraBits := 0
    disk := s.disk
    byIP := (dedup (poolAddrs c ++ s.leases.map (·.ip) ++ s.ipKeys.filter (fun k => (s.ips k).isSome))).map
      (fun ip => (ip, s.hostByIP ip, s.macByIP ip))
    byHost := (dedup ((s.leases.map (·.host)).filter (· != []) ++ s.hostKeys.filter (fun k => (s.hosts k).isSome))).map
      (fun h => (h, s.ipByHost h)) }

end AGH.C10
