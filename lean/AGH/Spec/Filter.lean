/-
C01 / C02 declarative specs, written from the property texts.

Vocabulary (what the property calls things, in terms of the configuration and
of what the two rule engines say about a name):

* protection on        — not paused, and the flag is on or the pause has run out
* filtering on         — the client's own filtering flag if it uses own settings, else the global one
* allowed name         — some line of an enabled allow list matches it, or the winning network
                         rule among block lists / custom rules is an `@@` exception
* rule-blocked name    — not allowed, and the block lists / custom rules yield a blocking network
                         rule or a hosts-style line
* service-blocked name — not allowed, not rule-blocked … and a rule of an applied blocked service matches

* answered before the rules — a legacy rewrite applies to the name (the C06 model decides), or the
                         hosts container knows it; both only while filtering is on for the client
* blocked by another checker — safe browsing / parental says "block" for a name the rules neither
                         allow nor block (their verdicts are oracles, C19)

The properties' claims are stated for rule and service blocks and for names
"matched by nothing"; what rewrites, the hosts container, safe browsing and
parental do is modelled and compared, but the specs make no claim there.

`C01.check` / `C02.check` take the observed outcome of one request and return
`none` (conforms) or `some reason-class`.  The driver evaluates them on the
IMPLEMENTATION's outcome.

Domain restrictions (stated, not hidden): the three names/queries that
`processInitial` answers itself before any filtering (AAAA while AAAA is
disabled, the Firefox canary domain, the health-check name) are outside the
properties' domain (`reserved`).
-/
import AGH.Model.Filter
namespace AGH.Filter
open AGH AGH.Bytes

/-! ## Comparison of records ignoring the `str` oracle -/

def IP.erase (ip : IP) : IP := { ip with str := [] }
def SvcParam.erase : SvcParam → SvcParam
  | .hint4 l => .hint4 (l.map IP.erase)
  | .hint6 l => .hint6 (l.map IP.erase)
  | .other k => .other k
def RData.erase : RData → RData
  | .a ip => .a (ip.map IP.erase)
  | .aaaa ip => .aaaa (ip.map IP.erase)
  | .https p t ps => .https p t (ps.map SvcParam.erase)
  | d => d
def RR.erase (rr : RR) : RR := { rr with data := rr.data.erase }
def eraseAll (l : List RR) : List RR := l.map RR.erase

/-! ## The property's vocabulary -/

/-- protection on / off / paused -/
def protectionOn (c : Conf) : Bool :=
  match c.pause with
  | .future => false          -- paused
  | .past => true             -- the pause has run out
  | .none => c.protEnabled

/-- global vs per-client filtering -/
def filteringOn (c : Conf) : Bool :=
  match c.client with
  | some cl => if cl.useOwnSettings then cl.filtering else c.filtering
  | none => c.filtering

/-- blocked services in force for this client now -/
def servicesInForce (c : Conf) : List Service :=
  match c.client with
  | some cl =>
    if cl.useOwnBlockedServices then (if cl.schedNow then [] else cl.services)
    else (if c.schedNow then [] else c.services)
  | none => if c.schedNow then [] else c.services

def clientNameOf (c : Conf) : Bytes :=
  match c.client with | some cl => cl.name | none => []

def reqFor (c : Conf) (host : Bytes) (rrtype : Nat) : DNSReq :=
  { host := host, qtype := rrtype, clientName := clientNameOf c, clientIP := c.clientIP }

/-- an allow rule with priority over any block for this name -/
def allowedName (e : Engines) (c : Conf) (host : Bytes) (rrtype : Nat) : Bool :=
  (e.allow (reqFor c host rrtype)).isSome ||
  (match e.block (reqFor c host rrtype) with | some (.net true) => true | _ => false)

/-- the block lists / custom rules block this name (hosts-style lines count for every type) -/
def ruleBlockedName (e : Engines) (c : Conf) (host : Bytes) (rrtype : Nat) : Bool :=
  !allowedName e c host rrtype &&
  (match e.block (reqFor c host rrtype) with
   | some (.net false) => true
   | some (.hosts v4 v6) => !v4.isEmpty || !v6.isEmpty
   | _ => false)

def serviceBlockedName (e : Engines) (c : Conf) (host : Bytes) (rrtype : Nat) : Bool :=
  !allowedName e c host rrtype && (servicesInForce c).any (fun sv => e.svc sv host)

/-- the queried host as the rules see it -/
def qhost (q : Query) : Bytes := lower (trimDot q.name)

/-- Queries answered by the server itself before filtering (outside the properties' domain). -/
def reserved (c : Conf) (q : Query) : Bool :=
  (c.aaaaDisabled && q.qtype == tAAAA) ||
  ((q.qtype == tA || q.qtype == tAAAA) && q.name == mozillaFQDN) ||
  q.name == healthcheckFQDN ||
  -- names of DHCP clients under the local domain are the built-in DHCP server's business
  (dhcpHost c q).isSome

/-- per-client vs global safe browsing / parental switches -/
def sbConfigured (c : Conf) : Bool :=
  match c.client with
  | some cl => if cl.useOwnSettings then cl.safeBrowsing else c.sbEnabled
  | none => c.sbEnabled

def parentalConfigured (c : Conf) : Bool :=
  match c.client with
  | some cl => if cl.useOwnSettings then cl.parental else c.parentalEnabled
  | none => c.parentalEnabled

/-- a legacy rewrite applies to this name and type (decided by the C06 model) -/
def legacyRewritten (e : Engines) (c : Conf) (host : Bytes) (qtype : Nat) : Bool :=
  (C06.processRewritesWith e.srt c.rewrites host qtype).rewritten

/-- the hosts container has something for this question: an address record for an
A / AAAA query of a name it lists, a name for a PTR query of an address it lists -/
def hostsKnows (e : Engines) (c : Conf) (host : Bytes) (qtype : Nat) : Bool :=
  ((qtype == tA || qtype == tAAAA) && c.hosts.any (fun r => r.names.any (fun n => lower n == host))) ||
  (qtype == tPTR && (match e.arpa host with
    | some a => c.hosts.any (fun r => r.addr.same a && !r.names.isEmpty)
    | none => false))

/-- the name is answered before the rule engines are asked -/
def precededByOther (e : Engines) (c : Conf) (q : Query) : Bool :=
  filteringOn c && qhost q != [] &&
  (legacyRewritten e c (qhost q) q.qtype || hostsKnows e c (qhost q) q.qtype)

/-- safe browsing or parental blocks a name the rules have nothing to say about -/
def otherBlocks (e : Engines) (c : Conf) (q : Query) : Bool :=
  protectionOn c && qhost q != [] && !(filteringOn c && allowedName e c (qhost q) q.qtype) &&
  ((sbConfigured c && e.sb (qhost q)) || (parentalConfigured c && e.parental (qhost q)))

/-- C01's antecedent: protection and filtering on, no legacy rewrite or hosts
entry answers the name first, the name matches an enabled blocking rule or
blocked service and no higher-priority allow rule. -/
def blockedByRules (e : Engines) (c : Conf) (q : Query) : Bool :=
  protectionOn c && filteringOn c && qhost q != [] && !precededByOther e c q &&
  (ruleBlockedName e c (qhost q) q.qtype || serviceBlockedName e c (qhost q) q.qtype)

/-- The property is silent about blocked services for a client whose filtering
is switched off ("not subject to rule lists" speaks of lists only): with
protection on, a service in force whose rules match may still block. -/
def serviceMayBlock (e : Engines) (c : Conf) (q : Query) : Bool :=
  protectionOn c && !filteringOn c && qhost q != [] &&
  (servicesInForce c).any (fun sv => e.svc sv (qhost q))

/-- the hosts-style addresses the default mode answers with -/
def hostRuleIPs (e : Engines) (c : Conf) (host : Bytes) (rrtype qtype : Nat) : List IP :=
  match e.block (reqFor c host rrtype) with
  | some (.hosts v4 v6) =>
    if rrtype = qtype then (if qtype = tA then v4 else if qtype = tAAAA then v6 else []) else []
  | _ => []

/-! ## The synthetic response of a blocking mode -/

def modeRcode : Mode → Nat
  | .nxdomain => rcNXDomain | .refused => rcRefused | _ => rcSuccess

def isLocalNs (q : Query) (ns : List RR) : Bool :=
  ns.all (fun rr => rr.name == q.name && (match rr.data with | .soa _ => true | _ => false))

def addrAnswers (c : Conf) (q : Query) (ips : List (Option IP)) : List RR :=
  ips.map (fun ip => { name := q.name, ttl := c.ttl, data := if q.qtype = tA then .a ip else .aaaa ip : RR })

/-- The response the configured blocking mode prescribes for `q`, when the block
came from hosts-style lines carrying `ruleIPs` (empty for adblock-style rules
and services).  Address queries are fixed exactly; for other types the
property only demands a local, record-free answer. -/
def syntheticOK (c : Conf) (q : Query) (ruleIPs : List IP) (m : Msg) : Bool :=
  m.qname == q.name && m.qtype == q.qtype && isLocalNs q m.ns &&
  (if q.qtype = tA ∨ q.qtype = tAAAA then
     let zero := if q.qtype = tA then ip4Zero else ip6Zero
     let custom := if q.qtype = tA then c.bip4 else c.bip6
     let fam := ruleIPs.filter (fun ip => ip.v6 == (q.qtype == tAAAA))
     match c.mode with
     | .nullIP => m.rcode == rcSuccess && eraseAll m.answer == addrAnswers c q [some zero]
     | .customIP => m.rcode == rcSuccess && eraseAll m.answer == addrAnswers c q [custom.map IP.erase]
     | .default =>
       m.rcode == rcSuccess &&
       (if fam.isEmpty then eraseAll m.answer == addrAnswers c q [some zero]
        else eraseAll m.answer == addrAnswers c q ((dedupIPs fam []).map (fun ip => some ip.erase)))
     | .nxdomain => m.rcode == rcNXDomain && m.answer.isEmpty
     | .refused => m.rcode == rcRefused && m.answer.isEmpty
   else
     m.answer.isEmpty && (m.rcode == rcSuccess || m.rcode == modeRcode c.mode))

/-! ## Response records (C02) -/

def stripRR (rr : RR) : RR :=
  match rr.data with
  | .https p t ps => { rr with data := .https p t (removeIPv6Hints ps) }
  | _ => rr

/-- the names / addresses a record reveals, with the record type they are checked under -/
def revealed (c : Conf) (rr : RR) : List (Bytes × Nat) :=
  match rr.data with
  | .cname t => [(lower (trimDot t), tCNAME)]
  | .a (some ip) => [(lower ip.str, tA)]
  | .aaaa (some ip) => [(lower ip.str, tAAAA)]
  | .https _ _ ps =>
    (ps.flatMap (fun p => match p with
      | .hint4 l => l
      | .hint6 l => if c.aaaaDisabled then [] else l
      | .other _ => [])).map (fun ip => (lower ip.str, tHTTPS))
  | _ => []

/-- the record reveals a rule-blocked name or address (not overridden by an allow rule for it) -/
def offending (e : Engines) (c : Conf) (rr : RR) : Bool :=
  (revealed c rr).any (fun (h, t) => ruleBlockedName e c h t)

/-- response filtering is applicable to this query -/
def respFilterApplies (e : Engines) (c : Conf) (q : Query) : Bool :=
  protectionOn c && filteringOn c && !allowedName e c (qhost q) q.qtype

/-- `a` is `b` with the IPv6 hints of some HTTPS records removed (only when AAAA is disabled) -/
def sameModuloStrip (c : Conf) : List RR → List RR → Bool
  | [], [] => true
  | x :: xs, y :: ys =>
    (x.erase == y.erase || (c.aaaaDisabled && x.erase == (stripRR y).erase)) && sameModuloStrip c xs ys
  | _, _ => false

/-- delivered unchanged (AAAA disabled: every HTTPS record loses its IPv6 hints) -/
def deliveredUnchanged (c : Conf) (strip : Bool) (got up : List RR) : Bool :=
  if strip && c.aaaaDisabled then eraseAll got == eraseAll (up.map stripRR) else eraseAll got == eraseAll up

/-- the blocked names a record reveals, each with the record type it is checked
under and the hosts-style addresses of the lines blocking it -/
def respCandidates (e : Engines) (c : Conf) (rr : RR) : List (Nat × List IP) :=
  ((revealed c rr).filter (fun (h, t) => ruleBlockedName e c h t)).map (fun (h, t) => (t, hostRuleIPs e c h t t))

/-- The response that replaces an answer revealing a blocked name: the blocking
mode's synthetic response (hosts-style addresses count only when the record
was checked under the query's own type).
QUIRK accepted explicitly: default mode, address query, and the blocking
hosts-style line was matched under the OTHER address type (an A record in a
AAAA answer or vice versa, the line naming an IP literal) — AdGuard Home then
answers with an empty NOERROR instead of the null address. -/
def respBlockOK (c : Conf) (q : Query) (t : Nat) (ips : List IP) (m : Msg) : Bool :=
  syntheticOK c q (if t = q.qtype then ips else []) m ||
  (c.mode == .default && (q.qtype == tA || q.qtype == tAAAA) && t != q.qtype && !ips.isEmpty &&
   m.qname == q.name && m.qtype == q.qtype && m.rcode == rcSuccess && m.answer.isEmpty && m.ns.isEmpty)

/-! ## C01 -/
namespace C01

/-- Reason classes are stable tokens. -/
def check (e : Engines) (c : Conf) (u : Upstream) (q : Query) (out : Outcome) : Option String :=
  if reserved c q then none
  else if precededByOther e c q then none     -- rewrites / hosts container: modelled, not claimed
  else if blockedByRules e c q then
    match out with
    | .err => some "blocked-but-error"
    | .done m log qlog =>
      if !log.isEmpty then some "blocked-but-forwarded"
      else if !syntheticOK c q (hostRuleIPs e c (qhost q) q.qtype q.qtype) m then some "blocked-wrong-response"
      else match qlog with
        | some l => if l.isFiltered && l.reason != .notFound && l.reason != .allowList then none
                    else some "blocked-not-recorded"
        | none => some "blocked-not-recorded"
  else
    -- allowed, matched by nothing, protection off, or filtering off for the client
    match out with
    | .err => some "forward-but-error"
    | .done m log qlog =>
      if serviceMayBlock e c q && log.isEmpty then
        -- blocked by a service although the client's filtering is off: must then be a proper block
        if syntheticOK c q [] m && (match qlog with | some l => l.isFiltered && l.reason == .blockedService | none => false)
        then none else some "service-block-wrong-response"
      else if otherBlocks e c q then none     -- safe browsing / parental: modelled, not claimed
      else if log != [q] then some "not-forwarded-once"
      else if !(m.qname == q.name && m.qtype == q.qtype) then some "question-altered"
      else if respFilterApplies e c q && u.answer.any (offending e c) then
        none   -- C02's business
      else if !(m.rcode == u.rcode && deliveredUnchanged c (respFilterApplies e c q) m.answer u.answer && eraseAll m.ns == eraseAll u.ns) then
        some "upstream-answer-altered"
      else match qlog with
        | some l => if l.isFiltered then some "forwarded-recorded-filtered" else none
        | none => none

def specOK (e : Engines) (c : Conf) (u : Upstream) (q : Query) (out : Outcome) : Bool :=
  (check e c u q out).isNone

end C01

/-! ## C02 -/
namespace C02

def check (e : Engines) (c : Conf) (u : Upstream) (q : Query) (out : Outcome) : Option String :=
  if reserved c q then none
  else if filteringOn c && qhost q != [] && legacyRewritten e c (qhost q) q.qtype then
    -- rewritten: exempt from response filtering, but the client must get its own question back
    match out with
    | .err => some "error"
    | .done m _ _ =>
      if m.qname == q.name && m.qtype == q.qtype then none else some "rewritten-question-not-restored"
  else if precededByOther e c q || blockedByRules e c q || serviceMayBlock e c q || otherBlocks e c q then
    none      -- no upstream answer to the query to speak of
  else
    match out with
    | .err => some "error"
    | .done m _ qlog =>
      if respFilterApplies e c q then
        match u.answer.find? (offending e c) with
        | some rr =>
          -- replaced, wherever the record sits
          if !((respCandidates e c rr).any (fun (t, ips) => respBlockOK c q t ips m)) then
            some "offending-record-delivered"
          else match qlog with
            | some l =>
              if !l.isFiltered then some "replaced-not-recorded"
              else match l.origAnswer with
                | some oa => if sameModuloStrip c oa u.answer then none else some "orig-answer-wrong"
                | none => some "orig-answer-missing"
            | none => some "replaced-not-recorded"
        | none =>
          if m.rcode == u.rcode && m.qname == q.name && m.qtype == q.qtype &&
             deliveredUnchanged c true m.answer u.answer && eraseAll m.ns == eraseAll u.ns then
            (match qlog with
             | some l => if l.isFiltered || l.origAnswer.isSome then some "clean-recorded-filtered" else none
             | none => none)
          else some "clean-answer-altered"
      else
        -- not applicable: protection off, filtering off for the client, or name allow-listed
        if m.rcode == u.rcode && m.qname == q.name && m.qtype == q.qtype &&
           deliveredUnchanged c false m.answer u.answer && eraseAll m.ns == eraseAll u.ns then none
        else some "inapplicable-answer-altered"

def specOK (e : Engines) (c : Conf) (u : Upstream) (q : Query) (out : Outcome) : Bool :=
  (check e c u q out).isNone

end C02

end AGH.Filter
