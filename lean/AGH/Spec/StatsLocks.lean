/-
C09: the lock facts as the HYPOTHESES of the interleaving theorem, and how the
driver obtains them from the `C09.locks` line (facts re-extracted from the Go
sources of the tree under test on every run).

`okFor F op`: under facts `F`, operation `op` performs all its shared accesses
while holding `confMu` — exclusively if it writes.  `C09_interleavings_serializable`
has exactly this as its hypothesis; the driver evaluates `LockFacts.ok` on the
extracted facts, so a dropped or weakened lock makes the hypothesis false and
the check fails.
-/
import AGH.Model.StatsProgs
namespace AGH.C09

def COp.writes : COp → Bool
  | .read => false
  | _ => true

def okFor (F : LockFacts) (op : COp) : Bool :=
  rejected op || (if op.writes then confOf F op == some .W else (confOf F op).isSome)

/-- The facts cover Update, the hourly flush, API reads and both configuration
requests.  (`handleStatsReset` is not covered by the current tree: it calls
`clear()` without `confMu`.) -/
def LockFacts.ok (F : LockFacts) : Bool :=
  F.updConf == some .W && F.flushConf == some .W && F.readConf.isSome &&
  F.setDaysConf == some .W && F.putConfConf == some .W

/-- … and `handleStatsReset` as well (true of the tree since the fix that
takes `confMu` there). -/
def LockFacts.okAll (F : LockFacts) : Bool := F.ok && F.resetConf == some .W

/-! ### from the regenerated facts (AGH/Gen/C09Locks.lean, written by extract/cmd/c09)

A fact is `(callee, function, confMu, currMu)` in number codes (see the header
of the generated file); modes 0 none, 1 RLock, 2 Lock. -/

def modeOfCode : Nat → Option Mode
  | 1 => some .R
  | 2 => some .W
  | _ => none

/-- The weaker of two. -/
def meetMode : Option Mode → Option Mode → Option Mode
  | some .W, m => m
  | m, some .W => m
  | some .R, some .R => some .R
  | _, _ => none

abbrev RawFact := Nat × Nat × Nat × Nat

/-- Weakest mode over the selected facts; `none` if there is none. -/
def rawOver (facts : List RawFact) (sel : RawFact → Bool) (pick : RawFact → Nat) : Option Mode :=
  match facts.filter sel with
  | [] => none
  | fs => fs.foldl (fun m f => meetMode m (modeOfCode (pick f))) (some .W)

def LockFacts.ofRaw (facts : List RawFact) : LockFacts :=
  let conf : RawFact → Nat := fun f => f.2.2.1
  let curr : RawFact → Nat := fun f => f.2.2.2
  { updConf := rawOver facts (fun f => f.1 == 1) conf
    updCurr := rawOver facts (fun f => f.1 == 1) curr
    flushConf := rawOver facts (fun f => f.1 == 2) conf
    flushCurr := rawOver facts (fun f => f.1 == 2) curr
    -- every getData, and every loadUnits outside getData
    readConf := rawOver facts (fun f => f.1 == 3 || (f.1 == 4 && f.2.1 != 4)) conf
    -- the current unit's serialize inside loadUnits
    loadCurr := rawOver facts (fun f => f.1 == 5 && f.2.1 == 5) curr
    setDaysConf := rawOver facts (fun f => f.1 == 6) conf
    -- assignments to limit / enabled outside setLimit (locked by its caller) and New
    putConfConf := rawOver facts (fun f => (f.1 == 9 || f.1 == 10) && f.2.1 != 10 && f.2.1 != 9) conf
    clearCurr := rawOver facts (fun f => f.1 == 8 && f.2.1 == 11) curr
    -- clear() outside setLimit
    resetConf := rawOver facts (fun f => f.1 == 7 && f.2.1 != 10) conf }

/-- No Lock without its deferred Unlock. -/
def rawClean (facts : List RawFact) : Bool := facts.all fun f => f.1 != 11

/-! ### from the extracted fact strings -/

/-- `call:add@Update:confMu.Lock+currMu.Lock` ↦ `confMu.Lock+currMu.Lock` -/
def factHeld (f : String) : List String := ((f.splitOn ":").getLast?.getD "").splitOn "+"

def heldMode (mu : String) (held : List String) : Option Mode :=
  if held.contains (mu ++ ".Lock") then some .W
  else if held.contains (mu ++ ".RLock") then some .R
  else none

/-- The weakest mode of `mu` over all facts selected by `sel`; `none` if there is no such fact. -/
def modeOver (facts : List String) (sel : String → Bool) (mu : String) : Option Mode :=
  match facts.filter sel with
  | [] => none
  | fs => fs.foldl (fun m f => meetMode m (heldMode mu (factHeld f))) (some .W)

def LockFacts.ofStrings (facts : List String) : LockFacts :=
  let pre (p : String) : String → Bool := fun f => f.startsWith p
  { updConf := modeOver facts (pre "call:add@") "confMu"
    updCurr := modeOver facts (pre "call:add@") "currMu"
    flushConf := modeOver facts (pre "call:flushDB@") "confMu"
    flushCurr := modeOver facts (pre "call:flushDB@") "currMu"
    readConf := modeOver facts
      (fun f => f.startsWith "call:getData@" || (f.startsWith "call:loadUnits@" && !f.startsWith "call:loadUnits@getData:"))
      "confMu"
    loadCurr := modeOver facts (pre "call:serialize@loadUnits:") "currMu"
    setDaysConf := modeOver facts (pre "call:setLimit@") "confMu"
    putConfConf := modeOver facts
      (fun f => (f.startsWith "set:limit@" || f.startsWith "set:enabled@") &&
        !(f.startsWith "set:limit@setLimit:" || f.startsWith "set:enabled@setLimit:" ||
          f.startsWith "set:limit@New:" || f.startsWith "set:enabled@New:"))
      "confMu"
    clearCurr := modeOver facts (pre "set:curr@clear:") "currMu"
    resetConf := modeOver facts (pre "call:clear@handleStatsReset:") "confMu" }

/-- Facts the extractor could not pair or parse make everything void. -/
def factsClean (facts : List String) : Bool :=
  facts.all fun f => !f.startsWith "unpaired:" && !f.startsWith "parse-error:"

end AGH.C09
