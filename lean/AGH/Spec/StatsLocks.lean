/-
C09: the lock facts as the HYPOTHESES of the interleaving theorem, and how the
driver obtains them from the `C09.locks` line (facts re-extracted from the Go
sources of the tree under test on every run).

`okFor F op`: under facts `F`, operation `op` performs all its shared accesses
while holding `confMu` — exclusively if it writes.  `C09_interleavings_serializable`
has exactly this as its hypothesis; the driver evaluates `LockFacts.ok` on the
extracted facts, so a dropped or weakened lock makes the hypothesis false and
the check fails.
-/
import AGH.Model.StatsProgs
namespace AGH.C09

def COp.writes : COp → Bool
  | .read => false
  | _ => true

def okFor (F : LockFacts) (op : COp) : Bool :=
  rejected op || (if op.writes then confOf F op == some .W else (confOf F op).isSome)

/-- The facts cover Update, the hourly flush, API reads and both configuration
requests.  (`handleStatsReset` is not covered by the current tree: it calls
`clear()` without `confMu`.) -/
def LockFacts.ok (F : LockFacts) : Bool :=
  F.updConf == some .W && F.flushConf == some .W && F.readConf.isSome &&
  F.setDaysConf == some .W && F.putConfConf == some .W

/-! ### from the extracted fact strings -/

/-- `call:add@Update:confMu.Lock+currMu.Lock` ↦ `confMu.Lock+currMu.Lock` -/
def factHeld (f : String) : List String := ((f.splitOn ":").getLast?.getD "").splitOn "+"

def heldMode (mu : String) (held : List String) : Option Mode :=
  if held.contains (mu ++ ".Lock") then some .W
  else if held.contains (mu ++ ".RLock") then some .R
  else none

/-- The weaker of two. -/
def meetMode : Option Mode → Option Mode → Option Mode
  | some .W, m => m
  | m, some .W => m
  | some .R, some .R => some .R
  | _, _ => none

/-- The weakest mode of `mu` over all facts selected by `sel`; `none` if there is no such fact. -/
def modeOver (facts : List String) (sel : String → Bool) (mu : String) : Option Mode :=
  match facts.filter sel with
  | [] => none
  | fs => fs.foldl (fun m f => meetMode m (heldMode mu (factHeld f))) (some .W)

def LockFacts.ofStrings (facts : List String) : LockFacts :=
  let pre (p : String) : String → Bool := fun f => f.startsWith p
  { updConf := modeOver facts (pre "call:add@") "confMu"
    updCurr := modeOver facts (pre "call:add@") "currMu"
    flushConf := modeOver facts (pre "call:flushDB@") "confMu"
    flushCurr := modeOver facts (pre "call:flushDB@") "currMu"
    readConf := modeOver facts
      (fun f => f.startsWith "call:getData@" || (f.startsWith "call:loadUnits@" && !f.startsWith "call:loadUnits@getData:"))
      "confMu"
    loadCurr := modeOver facts (pre "call:serialize@loadUnits:") "currMu"
    setDaysConf := modeOver facts (pre "call:setLimit@") "confMu"
    putConfConf := modeOver facts
      (fun f => (f.startsWith "set:limit@" || f.startsWith "set:enabled@") &&
        !(f.startsWith "set:limit@setLimit:" || f.startsWith "set:enabled@setLimit:" ||
          f.startsWith "set:limit@New:" || f.startsWith "set:enabled@New:"))
      "confMu"
    clearCurr := modeOver facts (pre "set:curr@clear:") "currMu"
    resetConf := modeOver facts (pre "call:clear@handleStatsReset:") "confMu" }

/-- Facts the extractor could not pair or parse make everything void. -/
def factsClean (facts : List String) : Bool :=
  facts.all fun f => !f.startsWith "unpaired:" && !f.startsWith "parse-error:"

end AGH.C09
