/-
C18 declarative spec, written from the property text (not from the code):

  "The pause schedule of blocked services is in effect at an instant exactly
   when that instant's wall-clock time of day, on its weekday in the schedule's
   time zone, lies in that day's [start, end) range; a full-day range covers
   every instant of that local day and an empty range none, days with
   daylight-saving transitions included.  Schedules survive JSON and YAML round
   trips unchanged, and ranges that are negative, inverted, longer than 24h or
   not whole minutes are rejected."

The wall clock of a zone at an instant is UTC plus the zone's offset AT THAT
INSTANT — nothing else about the zone (no midnight, no elapsed time) enters.
The driver evaluates the `spec…OK` predicates on the IMPLEMENTATION's
observations; `Props/C18.lean` proves the model always satisfies them.
-/
import AGH.Model.Schedule
namespace AGH.C18
open AGH

/-! ### In effect -/

/-- What a wall clock in the zone shows at instant `t`, as seconds since
1970-01-01 00:00:00 on that clock. -/
def wall (off : Int → Int) (t : Instant) : Int := t.sec + off t.sec

/-- The local calendar day (days since 1970-01-01) the instant falls on. -/
def localDay (off : Int → Int) (t : Instant) : Int := wall off t / 86400

/-- Its weekday, 0 = Sunday (1970-01-01 was a Thursday). -/
def localWeekday (off : Int → Int) (t : Instant) : Nat := ((localDay off t + 4) % 7).toNat

/-- Wall-clock time of day in nanoseconds since 00:00:00.000000000 on the clock face. -/
def timeOfDay (off : Int → Int) (t : Instant) : Int := (wall off t % 86400) * 1000000000 + (t.nsec : Int)

/-- The weekday of local calendar day `D` (days since 1970-01-01). -/
def dayWeekday (D : Int) : Nat := ((D + 4) % 7).toNat

/-- The range of the instant's local weekday. -/
def rangeAt (off : Int → Int) (w : Weekly) (t : Instant) : DayRange := w.days.get (localWeekday off t)

/-- The schedule is in effect at `t`. -/
def InEffect (off : Int → Int) (w : Weekly) (t : Instant) : Prop :=
  (rangeAt off w t).start ≤ timeOfDay off t ∧ timeOfDay off t < (rangeAt off w t).stop

instance (off : Int → Int) (w : Weekly) (t : Instant) : Decidable (InEffect off w t) := by
  unfold InEffect; exact inferInstance

/-- Monitor for one `Contains` observation. -/
def specContainsOK (off : Int → Int) (w : Weekly) (t : Instant) (observed : Bool) : Bool :=
  observed == decide (InEffect off w t)

/-- Monitor for the request path: the blocked-service rules are applied exactly
when the pause schedule is NOT in effect. -/
def specAppliedOK (off : Int → Int) (w : Weekly) (t : Instant) (applied : Bool) : Bool :=
  applied == !decide (InEffect off w t)

/-! ### Acceptable ranges -/

def wholeMinutes (d : Int) : Bool := d % 60000000000 == 0

/-- Ranges the property says are rejected: negative, inverted, longer than 24 h,
not whole minutes. -/
def mustReject (r : DayRange) : Bool :=
  decide (r.start < 0) || decide (r.stop < 0) || decide (r.stop < r.start) ||
  decide (r.stop - r.start > 86400000000000) || !wholeMinutes r.start || !wholeMinutes r.stop

/-- Ranges every schedule may hold: the unset (empty) day, or a non-empty
whole-minute range inside `[0, 24h]`. -/
def mustAccept (r : DayRange) : Bool :=
  r == DayRange.zero ||
  (decide (0 ≤ r.start) && decide (r.start < r.stop) && decide (r.stop ≤ 86400000000000) &&
   wholeMinutes r.start && wholeMinutes r.stop)

/-- Acceptance as the driver reads it off a validation result. -/
def accepted (r : Except VErr Unit) : Bool := match r with | .ok _ => true | .error _ => false

/-- Monitor for one validation.  (A non-zero range with `start = end`, and a
range of at most 24 h reaching past 24:00, are neither demanded nor forbidden by
the text; `C18_validate_iff` states what the code does with them: rejected.) -/
def specValidateOK (r : DayRange) (accepted : Bool) : Bool :=
  if accepted then !mustReject r else !mustAccept r

/-! ### Decoding a serialised schedule, and the round trip -/

/-- What a decoded schedule must be, given what the document says. -/
def confDays (c : Conf) : Week DayRange := c.days.map (fun d => d.getD DayRange.zero)

/-- `parseOK`: the document is syntactically a schedule (library verdict);
`tzOK`: its zone exists on the host. -/
def specDecodeOK (parseOK tzOK : Bool) (c : Conf) (o : DecodeObs) : Bool :=
  match o with
  | .accepted loc days same =>
    parseOK && tzOK &&
    days == confDays c &&                                   -- read unchanged
    (loc == c.tz || (c.tz == [] && loc == utcName)) &&
    days.toList.all (fun r => !mustReject r) &&             -- nothing forbidden got in
    same                                                    -- survives the round trip
  | .rejected =>
    !(parseOK && tzOK && (confDays c).toList.all mustAccept)  -- there is a reason

/-! ### Requests on a long-lived filter

The property fixes the answer at an instant by that instant's wall clock and
the schedule in force at that instant.  So for a request at `now`, whatever
requests, updates or clock readings came before: a list of blocked services is
in force exactly when its own pause schedule is NOT in effect at `now`; the
client's own list (if it has one) replaces the global one. -/

def specRequestOK (offG offC : Int → Int) (s : ReqState) (clientSite : Bool) (now : Instant)
    (obs : Nat × Nat) : Bool :=
  let useClient := clientSite && s.client.isSome
  obs.1 == (if !useClient && !decide (InEffect offG s.global.sched now) then s.global.nIDs else 0) &&
  obs.2 == (match s.client with
    | some c => if clientSite && !decide (InEffect offC c.sched now) then c.nIDs else 0
    | none => 0)

/-- The configuration in force after a history of operations, read off the
history declaratively: the last update (with the last later `set` of its IDs),
the last client change. -/
def lastGlobal : List ReqOp → SvcConf → SvcConf
  | [], g => g
  | .update g' :: rest, _ => lastGlobal rest g'
  | .setIDs n :: rest, g => lastGlobal rest { g with nIDs := n }
  | .client _ :: rest, g => lastGlobal rest g

def lastClient : List ReqOp → Option SvcConf → Option SvcConf
  | [], c => c
  | .client c' :: rest, _ => lastClient rest c'
  | _ :: rest, c => lastClient rest c

/-! ### Values do not share state

"An empty range covers none" and "schedules survive round trips unchanged" are
about VALUES: a fresh `EmptyWeekly()` is empty whatever was decoded before, and
decoding into one schedule never changes another one. -/

/-- What the harness sees after every operation of an aliasing block. -/
structure AliasObs where
  emptyDays : Week DayRange          -- a fresh EmptyWeekly()
  emptyProbes : List Bool            -- its Contains on probe instants of every weekday
  slots : List Weekly                -- every schedule value created so far

/-- `none` = fine; otherwise the violated clause. -/
def specAlias (prev : List Weekly) (target : Option Nat) (o : AliasObs) : Option String :=
  if o.emptyDays != Week.const DayRange.zero || o.emptyProbes.any id then some "C18.empty-not-empty"
  else if (List.range prev.length).any (fun j => some j != target && o.slots[j]? != prev[j]?) then
    some "C18.decode-changed-another-value"
  else none

/-! ### Prop-level definitions used by the theorems -/

/-- A schedule as the decoders produce it. -/
def Valid (tzOK : Bytes → Bool) (w : Weekly) : Prop :=
  w.loc ≠ [] ∧ tzOK w.loc = true ∧ ∀ i, validate (w.days.get i) = .ok ()

end AGH.C18
