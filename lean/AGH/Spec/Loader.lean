/-
C13, loader acceptance — spec written from the documented meaning of the
settings, not from `validateConfig`:

  * a listener whose port is 0 is disabled;
  * the encrypted listeners (HTTPS, DNS-over-TLS, DNS-over-QUIC, DNSCrypt)
    exist only when `tls.enabled` is true;
  * two listeners clash when both are active, use the same transport (TCP:
    web interface, HTTPS, DoT, DNSCrypt; UDP: plain DNS, DoQ) and the same port;
  * the loader accepts a document exactly when the upgrade and the decoding
    succeeded, the addresses are valid, the cipher names are known and no two
    listeners clash.

"…which the current configuration loader accepts whenever the input was valid
under its own schema": a document the generator built as valid must be accepted.
-/
import AGH.Model.Loader
namespace AGH.C13L

/-- A listener: is it switched on by its section, and its port. -/
structure Listener where
  on : Bool
  port : Nat

def Listener.active (l : Listener) : Bool := l.on && l.port != 0

def tcpListeners (i : LoaderIn) : List Listener :=
  [⟨true, i.httpPort⟩, ⟨i.tlsEnabled, i.portHTTPS⟩, ⟨i.tlsEnabled, i.portDoT⟩, ⟨i.tlsEnabled, i.portDNSCrypt⟩]

def udpListeners (i : LoaderIn) : List Listener :=
  [⟨true, i.dnsPort⟩, ⟨i.tlsEnabled, i.portDoQ⟩]

/-- The ports of the active listeners. -/
def activePorts (ls : List Listener) : List Nat := (ls.filter Listener.active).map (·.port)

/-- Two active listeners share a port. -/
def clash (ls : List Listener) : Bool := !(activePorts ls).Nodup

/-- What the documented meaning prescribes. -/
def shouldAccept (i : LoaderIn) : Bool :=
  i.migrated && i.unmarshalled && i.httpValid && i.bindValid.all id &&
    !clash (tcpListeners i) && !clash (udpListeners i) && i.ciphersOK

inductive LWhy
  /-- a document that must be accepted was rejected -/
  | rejectsValid
  /-- a document with a real clash / invalid address was accepted -/
  | acceptsInvalid
  deriving Repr

def loaderWhy (valid : Bool) (i : LoaderIn) (r : LoadRes) : Option LWhy :=
  if (valid || shouldAccept i) && r != .ok then some .rejectsValid
  else if !shouldAccept i && r == .ok then some .acceptsInvalid
  else none

def loaderOK (valid : Bool) (i : LoaderIn) (r : LoadRes) : Bool := (loaderWhy valid i r).isNone

end AGH.C13L
