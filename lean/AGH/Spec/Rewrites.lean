/-
C06 declarative spec, written from the property text and AGHTechDoc §Rewrites
(not from the code): which results of looking a name up in the rewrite table
are acceptable.  `specOK` is evaluated by the driver on the IMPLEMENTATION's
result; `Props/C06.lean` proves the model satisfies it for every table, name,
type and every tie-breaking of the sort.

Reading of the property text used here
* an entry *covers* a name when its pattern equals the name or is `*.<s>` and
  the name ends in `.<s>`; a pattern of the form `*.<s>` always counts as a
  wildcard entry, anything else as an exact entry;
* kinds: CNAME entries (apply to every query type) and address-kind entries
  (addresses and the `A`/`AAAA` exceptions; they bear only on A/AAAA queries:
  the entries of the requested family plus exception entries, an exception of
  the other family carrying no value — doc example "pass A only");
* precedence at one name: CNAME kind first; inside a kind the exact entries,
  else the wildcard entries with the longest pattern;
* a CNAME is followed into the table again; exceptions (`name → itself`,
  an answer equal to the queried name, `A`, `AAAA`) make the query pass through
  untouched; a chain that leaves the table, or ends at a name without a value
  for the type, is resolved upstream under the canonical name; a cycle ends
  with no address and a canonical name taken from the chain;
* ties (several equally specific entries) may be broken either way: any of the
  best CNAME entries may be followed; all exact address entries answer together;
  of equally specific wildcard address entries any non-empty selection may
  answer (the code keeps one).
-/
import AGH.Model.Rewrites
namespace AGH.C06.Spec
open AGH AGH.Bytes AGH.C06

/-- `*.<s>` ↦ `.<s>` -/
def wildSuffix : Bytes → Option Bytes
  | 42 :: 46 :: rest => some (46 :: rest)
  | _ => none

def isWild (e : Entry) : Bool := (wildSuffix e.domain).isSome

/-- the entry's pattern covers the name -/
def covers (e : Entry) (name : Bytes) : Bool :=
  e.domain == name ||
    (match wildSuffix e.domain with
     | some suf => suf.isSuffixOf name
     | none => false)

def isCNAME (e : Entry) : Bool := e.typ == .CNAME

def family (qt : Nat) : Option RType :=
  if qt = 1 then some .A else if qt = 28 then some .AAAA else none

/-- address-kind entries that bear on a query of type `qt` -/
def applies (e : Entry) (qt : Nat) : Bool :=
  !isCNAME e &&
    (match family qt with
     | none => false
     | some f => e.typ == f || e.ip == none)

/-- `A`/`AAAA` exception for the requested family -/
def passesFamily (e : Entry) (qt : Nat) : Bool := e.ip == none && e.typ.code == qt

/-- exception entry of the other family: covers the name, carries no value -/
def noValue (e : Entry) (qt : Nat) : Bool := e.ip == none && e.typ.code != qt

/-- the address an entry contributes to an answer of type `qt` -/
def value (e : Entry) (qt : Nat) : Option Bytes := if e.typ.code = qt then e.ip else none

/-- exact entries if any, else the wildcard entries with the longest pattern -/
def mostSpecific (l : List Entry) : List Entry :=
  let ex := l.filter (fun e => !isWild e)
  if ex.isEmpty then l.filter (fun e => l.all (fun f => decide (f.domain.length ≤ e.domain.length)))
  else ex

/-- `a` is a sub-multiset of `b` -/
def subMultiset : List Bytes → List Bytes → Bool
  | [], _ => true
  | x :: xs, b => b.contains x && subMultiset xs (b.erase x)

def sameMultiset (a b : List Bytes) : Bool := a.length == b.length && subMultiset a b

/-- Acceptable results at `cur`, a name no CNAME entry covers (the finally
resolved name).  `hopped`: at least one CNAME was followed to get here. -/
def finalOK (tbl : List Entry) (qt : Nat) (cur : Bytes) (hopped : Bool) (o : Out) : Bool :=
  let canon := if hopped then cur else []
  if !(tbl.any (covers · cur)) then
    -- the table says nothing about this name
    if hopped then o == ⟨true, cur, []⟩ else !o.rewritten
  else
    let w := mostSpecific ((tbl.filter (covers · cur)).filter (applies · qt))
    let vals := w.filterMap (value · qt)
    if w.all (fun e => !isWild e) then
      if w.any (passesFamily · qt) then !o.rewritten
      else o.rewritten && o.canon == canon && sameMultiset o.ips vals
    else
      (!o.rewritten && w.any (passesFamily · qt)) ||
      (o.rewritten && o.canon == canon && subMultiset o.ips vals &&
        (!o.ips.isEmpty || w.any (noValue · qt)))

/-- Acceptable results when resolution stands at `cur`, having followed CNAMEs
through `seen` (newest first) from the queried name `h`. -/
def allowedFrom (tbl : List Entry) (qt : Nat) (h : Bytes) : Nat → Bytes → List Bytes → Out → Bool
  | 0, _, _, _ => false
  | fuel + 1, cur, seen, o =>
    let c := mostSpecific ((tbl.filter (covers · cur)).filter isCNAME)
    if c.isEmpty then finalOK tbl qt cur (!seen.isEmpty) o
    else c.any fun e =>
      if e.answer = h ∨ e.answer = e.domain then !o.rewritten          -- pass-through exception
      else if e.answer = cur then o == ⟨true, cur, []⟩                 -- points at the name itself: upstream
      else if seen.contains e.answer then                               -- cycle
        o.rewritten && o.ips.isEmpty && seen.contains o.canon
      else allowedFrom tbl qt h fuel e.answer (e.answer :: seen) o

/-- `o` is an acceptable result of looking `(h, qt)` up in `tbl`, names compared
byte for byte.  A chain visits every answer at most once, so `tbl.length + 1`
steps suffice; running out of steps is a failure. -/
def specExact (tbl : List Entry) (h : Bytes) (qt : Nat) (o : Out) : Bool :=
  allowedFrom tbl qt h (tbl.length + 1) h [] o

/-- DNS names are case-insensitive: patterns, the names CNAME entries point at,
the queried name and the canonical name are all read in lower case. -/
def foldEntry (e : Entry) : Entry :=
  { e with domain := lower e.domain, answer := if e.typ = .CNAME then lower e.answer else e.answer }

def foldOut (o : Out) : Out := { o with canon := lower o.canon }

/-- The monitor: `specExact` on the case-folded table, name and result.  An
entry `Example.com → Example.com` is a "name to itself" exception, a CNAME to
`B.x.com` continues at the entries for `b.x.com`. -/
def specOK (tbl : List Entry) (h : Bytes) (qt : Nat) (o : Out) : Bool :=
  specExact (tbl.map foldEntry) (lower h) qt (foldOut o)

/-- All names in the table are already in lower case. -/
def LowerNames (tbl : List Entry) : Prop := ∀ e ∈ tbl, foldEntry e = e

/-! ### DNS level

What the client may see, in the words of the property: an untouched query goes
to the upstream under its own name; a CNAME that cannot be finished from the
table is resolved upstream under the canonical name, and the reply carries the
ORIGINAL question and starts with the CNAME record; everything else is answered
locally (NOERROR, upstream not asked) with an optional CNAME record followed by
exactly the addresses — possibly none ("empty successful answer, not the
upstream's").  In each case the underlying lookup result must be acceptable to
`specOK` for the lower-cased name. -/

/-- A leading `host CNAME target` record, if any, and the records after it. -/
def splitCname (host : Bytes) (ans : List RR) : Bytes × List RR :=
  match ans with
  | ⟨5, owner, target⟩ :: rest => if owner = host ∧ target ≠ [] then (target, rest) else ([], ans)
  | l => ([], l)

/-- The lookup result a reply stands for, if it has one of the three shapes.
`rc` is the rcode the upstream answers with.  A reply that comes from the
upstream keeps the upstream's rcode — also when it is NXDOMAIN / SERVFAIL /
REFUSED the original question is restored and the CNAME record comes first. -/
def obsToOut (obs : DnsObs) (host : Bytes) (qt : Nat) (rc : Nat) : Option Out :=
  if obs.question ≠ host then none
  else match obs.asked with
    | [] =>
      -- answered locally: NOERROR whatever the upstream would have said
      let c := (splitCname host obs.answer).1
      let rest := (splitCname host obs.answer).2
      let owner := if c = [] then host else c
      if obs.rcode = 0 ∧
          rest.all (fun rr => rr.typ == qt && (qt == 1 || qt == 28) && rr.owner == owner) ∧
          ¬ (c ≠ [] ∧ rest = []) then
        some ⟨true, c, rest.map (·.data)⟩
      else none
    | [n] =>
      if obs.rcode ≠ rc then none
      -- resolved upstream under a canonical name: original question, leading CNAME
      else if n ≠ [] ∧ obs.answer = ⟨5, host, n⟩ :: upstreamAnswer n qt rc then some ⟨true, n, []⟩
      -- passed through: the upstream's answer for the name itself, untouched
      else if n = host ∧ obs.answer = upstreamAnswer host qt rc then some Out.empty
      else none
    | _ => none

def dnsSpecOK (tbl : List Entry) (host : Bytes) (qt : Nat) (rc : Nat) (obs : DnsObs) : Bool :=
  match obsToOut obs host qt rc with
  | some o => specOK tbl (lower host) qt o
  | none => false

/-! ### The configured list over a history of operations

Written from the API description (AGHTechDoc "API: Add / Remove a rewrite
entry", openapi `rewrite/update`): the configuration is a list of
`domain → answer` pairs; *add* appends one, *delete* removes the entries whose
stored pair is the given one, *update* replaces the first such entry (and fails
when there is none); saving the configuration changes nothing.  At every moment
the table the server answers from must be that list, normalized. -/

def replaceFirstRaw (p : Raw → Bool) (n : Raw) : List Raw → Option (List Raw)
  | [] => none
  | r :: rs => if p r then some (n :: rs) else (replaceFirstRaw p n rs).map (r :: ·)

def editRaws (rs : List Raw) : TableOp → List Raw
  | .write => rs
  | .add r => rs ++ [r]
  | .del d a => rs.filter (fun r => !sameKey d a (normalize r))
  | .upd td ta u => (replaceFirstRaw (fun r => sameKey td ta (normalize r)) u rs).getD rs
  | .reload => rs          -- saving and loading the configuration changes nothing
  | .bad => rs             -- a rejected request changes nothing

/-- One row of a dump of the live table: pattern, answer, record type, address. -/
abbrev Row := Bytes × Bytes × Nat × Bytes

def rowOf (e : Entry) : Row := (e.domain, e.answer, e.typ.code, e.ip.getD [])

/-- The live table is the configured list, normalized (derived type and address
included). -/
def tableOK (rs : List Raw) (dump : List Row) : Bool := dump == (prepare rs).map rowOf

/-- `GET /control/rewrite/list` shows the configured list (as stored). -/
def listOK (rs : List Raw) (shown : List (Bytes × Bytes)) : Bool :=
  shown == (prepare rs).map (fun e => (e.domain, e.answer))

/-- A query the rewrites pass through is left to the other filters (here: it is
blocked when a blocking rule covers it); a rewritten one is not touched by them. -/
def verdictOK (tbl : List Entry) (rules : List Bytes) (host : Bytes) (qt : Nat) : Verdict → Bool
  | .rewritten o => o.rewritten && specOK tbl (lower host) qt o
  | .blocked => specOK tbl (lower host) qt Out.empty && blockedBy rules (lower host)
  | .notFound => (host == [] || specOK tbl (lower host) qt Out.empty) && !(host != [] && blockedBy rules (lower host))

/-! ### Prop-level vocabulary for the order-independence theorems -/

/-- No two different, equally specific entries compete for a query of type
`qt`: CNAME entries with the same pattern have the same answer, and wildcard
address-kind entries with the same pattern that bear on `qt` have the same
type and address.  (Identical duplicates are fine.) -/
def TieFree (tbl : List Entry) (qt : Nat) : Prop :=
  (∀ e ∈ tbl, ∀ f ∈ tbl, e.typ = .CNAME → f.typ = .CNAME → e.domain = f.domain →
      e.answer = f.answer) ∧
  (∀ e ∈ tbl, ∀ f ∈ tbl, e.typ ≠ .CNAME → f.typ ≠ .CNAME → isWildcard e.domain = true →
      e.domain = f.domain → matchesQType e qt = true → matchesQType f qt = true →
      e.typ = f.typ ∧ e.ip = f.ip)

/-- Same decision; when rewritten, same canonical name and the same addresses
up to order. -/
def OutEquiv (a b : Out) : Prop :=
  a.rewritten = b.rewritten ∧ (a.rewritten = true → a.canon = b.canon ∧ a.ips.Perm b.ips)

/-- Narrow reason class for a failing case (stable token for known findings). -/
def failClass (tbl : List Entry) (h : Bytes) (qt : Nat) (o : Out) : String :=
  if specExact tbl h qt o then "C06.answer-case"   -- fails only when names are compared case-insensitively
  else if !(tbl.any (covers · h)) then "C06.unmatched-name-touched"
  else if o.ips.any (fun ip => !(tbl.any (fun e => value e qt == some ip))) then "C06.address-not-in-table"
  else if !o.rewritten then "C06.unexpected-pass-through"
  else if specExact tbl h qt Out.empty then "C06.exception-not-passed-through"
  else if o.canon.isEmpty && o.ips.isEmpty then "C06.unexpected-empty-answer"
  else if o.canon.isEmpty then "C06.address-precedence"
  else "C06.cname-precedence"

end AGH.C06.Spec
