/-
C14 spec, written from the property text:

  "The configuration file, the DHCP lease database and downloaded filter-list
   files are replaced atomically: at every instant, and therefore after a crash
   or power loss at any point of a save, the path holds either the complete
   previous version or the complete new version, never an empty, truncated or
   mixed file."

`OKAt` is that sentence for one instant; `specOK` evaluates it at every instant
of an observed syscall trace of one save (the IMPLEMENTATION's trace, parsed
from `strace` by the harness), plus what a concurrent reader saw.
-/
import AGH.Model.FS
namespace AGH.C14
open AGH

/-- `c` is the complete previous or the complete new version. -/
def IsVersion (old : Option Content) (new : Content) (c : Option Content) : Prop :=
  c = old ∨ c = some new

/-- The property at one instant `s` of a save replacing `old` by `new` at `dest`:
a reader sees a complete version, and so does whoever looks after a crash now. -/
def OKAt (s : FS) (dest : Path) (old : Option Content) (new : Content) : Prop :=
  IsVersion old new (visible s dest) ∧ ∀ c, AfterCrash s dest c → IsVersion old new c

/-! ### Decidable form -/

def isVersion (old : Option Content) (new : Content) (c : Option Content) : Bool :=
  c == old || c == some new

/-- `ok (pre ++ q)` for every prefix `q` of the argument (shortest first, stops at
the first failure). -/
def prefixesAll (ok : Content → Bool) (pre : Content) : Content → Bool
  | [] => ok pre
  | x :: xs => ok pre && prefixesAll ok (pre ++ [x]) xs

def visibleOK (s : FS) (dest : Path) (old : Option Content) (new : Content) : Bool :=
  isVersion old new (visible s dest)

/-- Every crash outcome at `dest` is a complete version. -/
def crashOK (s : FS) (dest : Path) (old : Option Content) (new : Content) : Bool :=
  match s.names dest with
  | none => isVersion old new none
  | some i =>
    if s.dirty i then
      isVersion old new (some (s.disk i)) &&
        prefixesAll (fun c => isVersion old new (some c)) [] (s.cache i)
    else isVersion old new (some (s.cache i))

inductive Why where
  | visible     -- a reader would see something that is neither version
  | crash       -- a crash now could leave something that is neither version
  | final       -- the save reported success but the new version is not in place
  | reader      -- the concurrent reader of the harness saw a third content
  deriving DecidableEq, Repr

/-- First instant of the trace at which the property fails, if any. -/
def firstBad (dest : Path) (old : Option Content) (new : Content) : FS → List Sys → Option Why
  | s, es =>
    if !visibleOK s dest old new then some .visible
    else if !crashOK s dest old new then some .crash
    else match es with
      | [] => none
      | e :: es' => firstBad dest old new (exec s e) es'

structure In where
  /-- file system when the save starts -/
  s₀ : FS
  dest : Path
  /-- the version being saved -/
  new : Content

structure Out where
  /-- successful file-system syscalls of the save, in order -/
  trace : List Sys
  /-- the save returned success and was meant to replace the file -/
  committed : Bool
  /-- reads by a concurrent reader that returned neither version -/
  badReads : Nat

def In.old (i : In) : Option Content := visible i.s₀ i.dest

def check (i : In) (o : Out) : Option Why :=
  match firstBad i.dest i.old i.new i.s₀ o.trace with
  | some w => some w
  | none =>
    if o.committed && !(visible (run i.s₀ o.trace) i.dest == some i.new) then some .final
    else if o.badReads != 0 then some .reader
    else none

/-- The spec predicate the driver evaluates on the implementation's trace. -/
def specOK (i : In) (o : Out) : Bool := (check i o).isNone

/-! ### Hypotheses the theorems are stated under -/

/-- Inode numbers in use are below the allocation counter. -/
structure WF (s : FS) : Prop where
  names_lt : ∀ p i, s.names p = some i → i < s.next
  fds_lt : ∀ fd i off, s.fds fd = some (i, off) → i < s.next

/-- `dest` holds version `v` (`none`: there is no such file), it is synced, and
no descriptor is open for writing on it — the state of a file between saves. -/
def Settled (s : FS) (dest : Path) : Option Content → Prop
  | none => s.names dest = none
  | some c => ∃ i, s.names dest = some i ∧ s.cache i = c ∧ s.disk i = c ∧ s.dirty i = false ∧
      ∀ fd off, s.fds fd ≠ some (i, off)

/-- What is known about the names `renameio` invents: the probe files and the
temporary file are never the destination itself (they are `.<base><digits>`). -/
def TempNames (pr : Probe) (tmp dest : Path) : Prop :=
  pr.src ≠ dest ∧ pr.dst ≠ dest ∧ tmp ≠ dest

/-- A syscall that does not name `dest` (and is not an in-place open). -/
def Sys.safeFor (dest : Path) : Sys → Bool
  | .creat p _ => p != dest
  | .openWr _ _ _ => false
  | .write _ _ => true
  | .fsync _ => true
  | .close _ => true
  | .rename a b => a != dest && b != dest
  | .unlink a => a != dest
  | .fsyncDir => true

/-! ### Several writers at once

With concurrent saves of the same path the allowed contents are a set: the
version present when they began and the complete version of each of them. -/

def visibleOKP (ok : Option Content → Bool) (s : FS) (dest : Path) : Bool := ok (visible s dest)

def crashOKP (ok : Option Content → Bool) (s : FS) (dest : Path) : Bool :=
  match s.names dest with
  | none => ok none
  | some i =>
    if s.dirty i then ok (some (s.disk i)) && prefixesAll (fun c => ok (some c)) [] (s.cache i)
    else ok (some (s.cache i))

/-- `firstBad` for an arbitrary set of allowed contents. -/
def firstBadP (ok : Option Content → Bool) (dest : Path) : FS → List Sys → Option Why
  | s, es =>
    if !visibleOKP ok s dest then some .visible
    else if !crashOKP ok s dest then some .crash
    else match es with
      | [] => none
      | e :: es' => firstBadP ok dest (exec s e) es'

/-- The property at one instant for a set of allowed contents. -/
def OKAtP (ok : Option Content → Bool) (s : FS) (dest : Path) : Prop :=
  ok (visible s dest) = true ∧ ∀ c, AfterCrash s dest c → ok c = true

/-- The temporary file holds `c`, synced, and is closed. -/
def TmpReady (s : FS) (tmp : Path) (c : Content) : Prop :=
  ∃ i, s.names tmp = some i ∧ s.cache i = c ∧ s.disk i = c ∧ s.dirty i = false ∧
    ∀ fd off, s.fds fd ≠ some (i, off)

/-- A step of an arbitrary interleaving that cannot hurt `dest`: it does not name
it, or it renames onto it a temporary file that is complete (one of `V`), synced
and closed. -/
def GoodStep (s : FS) (dest : Path) (V : List Content) (e : Sys) : Prop :=
  e.safeFor dest = true ∨
    ∃ tmp c, e = .rename tmp dest ∧ tmp ≠ dest ∧ TmpReady s tmp c ∧ c ∈ V

def GoodTrace (dest : Path) (V : List Content) : FS → List Sys → Prop
  | _, [] => True
  | s, e :: es => GoodStep s dest V e ∧ GoodTrace dest V (exec s e) es

/-- The data chunks a trace writes, in order. -/
def writesOf (es : List Sys) : List Content :=
  es.filterMap fun e => match e with
    | .write _ d => some d
    | _ => none

end AGH.C14
