/-
C09 declarative spec, written from the property text (not from the code).

  "The totals reported by the statistics API equal the number of counted
   queries whose hour lies inside the retention window: each query is counted
   exactly once, in the hour that was current when it was counted and in
   exactly one result category, hourly series sum to the totals and daily
   series never exceed them.  Counts survive hour rollovers and clean
   restarts, and queries older than the window are not reported."

The spec keeps a ghost record of what happened: every burst of counted queries
with the hour that was current and its one category (`Ev`), the current hour,
the retention limit in force, and whether statistics are enabled.  It knows
nothing about units, buckets, flushing or files.

Retention-limit changes: an event whose hour has been inside the window in
force at every moment since it was counted (`kept`) MUST be reported; an event
whose hour is inside the window now MAY be reported (data dropped under a
smaller limit need not come back when the limit grows); anything else MUST NOT
be.  While the limit does not change the two bounds coincide and the reported
totals are exactly the counted queries of the window.

Domain of the property: hours are Unix hours of a forward-moving clock,
`minHour ≤ hour < 2^32` (`minHour` = one year + 1 h after the epoch, the longest
retention the API accepts: before that `hour - limit` is negative).  Outside
the domain the spec says nothing (`dom = false`).
-/
import AGH.Model.Stats
namespace AGH.C09

/-- A burst of `n` counted queries. -/
structure Ev where
  /-- the hour that was current when they were counted -/
  hour : Nat
  /-- their one result category (1 … 5) -/
  cat : Nat
  /-- how many -/
  n : Nat
  /-- the hour has been inside the retention window at every moment since -/
  kept : Bool
  deriving DecidableEq

/-- Which reported number: the total or one category. -/
inductive Sel where
  | total
  | cat (c : Nat)

def Sel.sees : Sel → Ev → Bool
  | .total, _ => true
  | .cat c, e => e.cat == c

/-- Hour `h` is inside the retention window of `limit` hours ending at `now`:
`now - limit < h ≤ now`. -/
def inWindow (now limit h : Nat) : Bool := decide (h ≤ now) && decide (now < h + limit)

/-- Smallest hour of the property's domain (365 d + 1 h after the epoch). -/
def minHour : Nat := 8761

structure Ghost where
  evs : List Ev
  /-- the current hour: the hour the statistics module counts in (the last
  hour it has seen at a rollover, start or clear) -/
  now : Nat
  /-- the hour the clock shows; ahead of `now` while a rollover is pending -/
  clock : Nat
  /-- retention limit in force, in hours -/
  limit : Nat
  enabled : Bool
  /-- the history so far is inside the property's domain -/
  dom : Bool

/-- Number of queries in the bursts selected by `p`. -/
def cnt (p : Ev → Bool) : List Ev → Nat
  | [] => 0
  | e :: es => (if p e then e.n else 0) + cnt p es

/-- Counted queries (seen by `sel`) whose hour is inside the window now. -/
def upper (g : Ghost) (sel : Sel) : Nat :=
  cnt (fun e => inWindow g.now g.limit e.hour && sel.sees e) g.evs

/-- … of those, the ones that have been inside the window ever since. -/
def lower (g : Ghost) (sel : Sel) : Nat :=
  cnt (fun e => e.kept && inWindow g.now g.limit e.hour && sel.sees e) g.evs

/-- Counted queries of hour `h`. -/
def upperAt (g : Ghost) (h : Nat) (sel : Sel) : Nat :=
  cnt (fun e => e.hour == h && sel.sees e) g.evs

def lowerAt (g : Ghost) (h : Nat) (sel : Sel) : Nat :=
  cnt (fun e => e.kept && e.hour == h && sel.sees e) g.evs

/-- A query is counted iff statistics are enabled and the entry is well formed
(a result category 1 … 5, a domain and a client). -/
def counted (g : Ghost) (e : Entry) : Bool :=
  g.enabled && decide (1 ≤ e.result) && decide (e.result ≤ 5) && !e.domainEmpty && !e.clientEmpty

/-- Re-evaluate `kept` against the window in force now. -/
def Ghost.refresh (g : Ghost) : Ghost :=
  { g with evs := g.evs.map fun e => { e with kept := e.kept && inWindow g.now g.limit e.hour } }

/-- The clock shows hour `id` and the module has noticed (rollover or start). -/
def Ghost.advance (g : Ghost) (id : Nat) : Ghost :=
  { g with now := id, clock := id, dom := g.dom && decide (g.clock ≤ id) && decide (id < U32) }

/-- The clock shows hour `h`; the module has not noticed yet. -/
def Ghost.wall (g : Ghost) (h : Nat) : Ghost :=
  { g with clock := h, dom := g.dom && decide (g.clock ≤ h) && decide (h < U32) }

/-- The intervals the configuration API accepts (1 h … 365 d, in ms). -/
def okIvl (ms : Nat) : Bool := decide (msPerHour ≤ ms) && decide (ms ≤ 365 * 24 * msPerHour)

def Ghost.init (clock limitMs : Nat) (enabled : Bool) : Ghost :=
  { evs := [], now := clock, clock := clock, limit := limitMs / msPerHour, enabled := enabled
    dom := decide (minHour ≤ clock) && decide (clock < U32) }

/-- What each operation means for the ghost record. -/
def ghostStep (g : Ghost) : Op → Ghost
  | .upd e n => if counted g e then { g with evs := ⟨g.now, e.result.toNat, n, true⟩ :: g.evs } else g
  | .tick id => (g.advance id).refresh
  | .advance h => g.wall h
  | .restart id l en => ({ g.advance id with limit := l / msPerHour, enabled := en }).refresh
  | .setDays d =>
    -- legacy API: 1/7/30/90 days enable statistics with that limit, 0 disables
    -- AND clears them, anything else is rejected
    if d = 1 ∨ d = 7 ∨ d = 30 ∨ d = 90 then ({ g with limit := d * 24, enabled := true }).refresh
    else if d = 0 then { g with enabled := false, evs := [], now := g.clock }
    else g
  | .putConf ms en =>
    if okIvl ms then ({ g with limit := ms / msPerHour, enabled := en }).refresh else g
  | .clear => { g with evs := [], now := g.clock }
  | .read => g

def between (lo x hi : Nat) : Bool := decide (lo ≤ x) && decide (x ≤ hi)

/-- The five reported totals. -/
def totalsOK (g : Ghost) (r : Resp) : Bool :=
  between (lower g .total) r.numDNSQueries (upper g .total) &&
  between (lower g (.cat 2)) r.numBlockedFiltering (upper g (.cat 2)) &&
  between (lower g (.cat 3)) r.numReplacedSafebrowsing (upper g (.cat 3)) &&
  between (lower g (.cat 4)) r.numReplacedSafesearch (upper g (.cat 4)) &&
  between (lower g (.cat 5)) r.numReplacedParental (upper g (.cat 5))

/-- Hourly series: slot `i` of `len` is hour `now - (len - 1 - i)`; every slot
carries the queries counted in that hour (`xs` = the slots from `i` on). -/
def slotsFrom (g : Ghost) (sel : Sel) (len : Nat) : List Nat → Nat → Bool
  | [], _ => true
  | x :: xs, i =>
    between (lowerAt g (g.now + 1 + i - len) sel) x (upperAt g (g.now + 1 + i - len) sel) &&
      slotsFrom g sel len xs (i + 1)

def slotsOK (g : Ghost) (sel : Sel) (series : List Nat) : Bool :=
  slotsFrom g sel series.length series 0

/-- One series against its total. -/
def seriesOK (g : Ghost) (days : Bool) (sel : Sel) (series : List Nat) (total : Nat) : Bool :=
  if days then decide (series.sum ≤ total)
  else decide (series.sum = total) && slotsOK g sel series

def allSeriesOK (g : Ghost) (r : Resp) : Bool :=
  seriesOK g r.days .total r.dnsQueries r.numDNSQueries &&
  seriesOK g r.days (.cat 2) r.blockedFiltering r.numBlockedFiltering &&
  seriesOK g r.days (.cat 3) r.replacedSafebrowsing r.numReplacedSafebrowsing &&
  seriesOK g r.days (.cat 5) r.replacedParental r.numReplacedParental

/-- The top lists of the answer, summed, against the totals of the same answer.
Every counted query is in the clients list once, and in exactly one of the
queried / blocked domain lists according to its category; so as long as no
list is cut (at most 100 names per hour and per window — the harness's pools
are far smaller) `top_clients` adds up to `num_dns_queries`, `top_blocked_domains`
to the four blocked categories and `top_queried_domains` to the rest. -/
def topsOK (r : Resp) (topClients topQueried topBlocked : Nat) : Bool :=
  topClients == r.numDNSQueries &&
  topBlocked == r.numBlockedFiltering + r.numReplacedSafebrowsing + r.numReplacedSafesearch + r.numReplacedParental &&
  topQueried + topBlocked == r.numDNSQueries

/-- The monitor: ghost record so far × what GET /control/stats answered
(`error` = the read crashed or failed). -/
def specOK (g : Ghost) (out : Except Fault Resp) : Bool :=
  !g.dom ||
  match out with
  | .error _ => false
  | .ok r => totalsOK g r && allSeriesOK g r

/-- Reason class for the driver (narrowest failing clause). -/
def specWhy (g : Ghost) (out : Except Fault Resp) : String :=
  match out with
  | .error _ => "read-failed"
  | .ok r =>
    if !between (lower g .total) r.numDNSQueries (upper g .total) then
      (if r.numDNSQueries < lower g .total then "total-lost" else "total-excess")
    else if !totalsOK g r then "category-total"
    else if r.days then "daily-exceeds-total"
    else if !(decide (r.dnsQueries.sum = r.numDNSQueries) && decide (r.blockedFiltering.sum = r.numBlockedFiltering)
              && decide (r.replacedSafebrowsing.sum = r.numReplacedSafebrowsing)
              && decide (r.replacedParental.sum = r.numReplacedParental)) then "hourly-sum"
    else "hour-slot"

def ghostRun (g : Ghost) (ops : List Op) : Ghost := ops.foldl ghostStep g

/-- The operation leaves the retention limit at `L` hours (updates, hour
advances, clears and reads always do; restarts and configuration requests do
when they are rejected or ask for `L` hours again). -/
def keepsLimit (L : Nat) : Op → Prop
  | .upd _ _ => True
  | .tick _ => True
  | .advance _ => True
  | .restart _ l _ => l / msPerHour = L
  | .setDays d => (d = 1 ∨ d = 7 ∨ d = 30 ∨ d = 90) → d * 24 = L
  | .putConf ms _ => okIvl ms = true → ms / msPerHour = L
  | .clear => True
  | .read => True

/-- No counted query whose hour is inside the window now has ever been outside
the window in force. -/
def AllKept (g : Ghost) : Prop := ∀ e ∈ g.evs, inWindow g.now g.limit e.hour = true → e.kept = true

def runOps : State → List Op → Option State
  | s, [] => some s
  | s, op :: ops => match step s op with
    | some s' => runOps s' ops
    | none => none

end AGH.C09
