/-
C16 end-to-end spec monitor, written from the property text:

  "A ClientID is taken only from a DNS-over-HTTPS path of the form
   /dns-query/<id> or from a TLS/QUIC server name of the form
   <id>.<configured server name>; it is lower-cased and must be a valid
   host-name label, otherwise the request fails instead of being attributed to
   nobody or to somebody else.  Plain and DNSCrypt requests never carry a
   ClientID, and with strict server-name checking a name outside the
   configured domain is rejected."

It judges what was OBSERVED for one request — what the client got, and the
identity every consumer inside the server saw (query log, statistics, client
upstream lookup, client filtering lookup), plus the number of upstream
exchanges — against THAT request only: its percent-decoded path and its own
server name.  The percent-decoding here is the textbook one (`pctDecode`, a
three-state automaton), not the transcription of Go's two loops.
-/
import AGH.Model.ClientIDE2E
import AGH.Spec.ClientID
namespace AGH.C16.E2E
open AGH AGH.Bytes AGH.C16

/-- Percent-decoding, RFC 3986 §2.1: `%XY` ↦ the byte `0xXY`, every other byte
stands for itself; a `%` not followed by two hex digits has no decoding. -/
inductive PS where
  | norm | pct1 | pct2 (hi : Nat)

def pctDecodeAux : PS → Bytes → Option Bytes
  | .norm, [] => some []
  | _, [] => none
  | .norm, c :: rest =>
    if c = pct then pctDecodeAux .pct1 rest else (pctDecodeAux .norm rest).map (c :: ·)
  | .pct1, c :: rest => if isHex c then pctDecodeAux (.pct2 (unhex c)) rest else none
  | .pct2 hi, c :: rest =>
    if isHex c then (pctDecodeAux .norm rest).map ((hi * 16 + unhex c) :: ·) else none

def pctDecode (s : Bytes) : Option Bytes := pctDecodeAux .norm s

/-- The path THIS request carries: the path component of its target
(`splitTarget` — characterised by `C16_target_split_shape`), percent-decoded. -/
def specPath (e : UrlEnv) (target : Bytes) : Option (Bytes × Bytes) :=
  if hasCTL target then none
  else match splitTarget e target with
    | none => none
    | some (host, rp) => (pctDecode rp).map fun p => (host, p)

/-- The request as the property sees it: strictness is the CONFIGURED
`strict_sni_check`, whatever certificate the server was given. -/
def specCtx (cf : Conf) (r : Req) : Option Ctx :=
  (fun (c : Option Ctx) => c.map fun c => { c with strict := cf.strict }) <|
  match r.tr with
  | .udp => some (mkCtxConn cf .udp none)
  | .tcp => some (mkCtxConn cf .tcp none)
  | .dcu => some (mkCtxConn cf .dnscrypt none)
  | .dot => some (mkCtxConn cf .tls (some r.sni))
  | .doq => some (mkCtxConn cf .quic (some r.sni))
  | .h1 | .h2 | .hp => (specPath (envOf cf r.ipLitOK) r.target).map fun hp => mkCtxHTTP cf r hp.1 hp.2

/-- What the client got. -/
inductive Cls where
  | ans | servfail | http (code : Nat) | rst | hs | other
  deriving DecidableEq, Repr

/-- One observed request. -/
structure Obs where
  cls : Cls
  /-- number of query-log entries written for the request -/
  nlog : Nat
  /-- distinct identities seen by: the query log, the statistics (the peer's
  IP address counts as nobody = `[]`), `CustomUpstreamConfig`,
  `ApplyClientFiltering` -/
  log : List Bytes
  stat : List Bytes
  ups : List Bytes
  filt : List Bytes
  /-- upstream exchanges made for the request -/
  upsN : Nat

def Obs.seen (o : Obs) : List Bytes := o.log ++ o.stat ++ o.ups ++ o.filt

/-- Every identity any consumer saw is justified by this very request. -/
def attributedJustified (cf : Conf) (r : Req) (o : Obs) : Bool :=
  o.seen.all fun id =>
    match specCtx cf r with
    | some c => specOK c (.ok id)
    | none => false

/-- An answered request was attributed, once, and every consumer saw the same
identity. -/
def answeredAttributed (o : Obs) : Bool :=
  if o.cls = .ans then
    o.nlog == 1 &&
      (match o.log with
       | [id] => o.stat == [id] && o.ups == [id] && o.filt == [id]
       | _ => false)
  else true

/-- A request that fails is not attributed to anybody (not even to nobody) and
is not resolved. -/
def failedNotProcessed (o : Obs) : Bool :=
  if o.cls = .ans then true else o.seen.isEmpty && o.nlog == 0 && o.upsN == 0

/-- A SERVFAIL has a reason the property names (invalid label, extra
segments, not a DoH path, strict mismatch). -/
def servfailHasReason (cf : Conf) (r : Req) (o : Obs) : Bool :=
  if o.cls = .servfail then
    match specCtx cf r with
    | some c => specOK c (.error .badLabel)
    | none => false
  else true

/-- A refused handshake needs strict server-name checking. -/
def hsOnlyStrict (cf : Conf) (r : Req) (o : Obs) : Bool :=
  if o.cls = .hs then cf.strict && (r.tr == .dot || r.tr == .doq) else true

def specE2E (cf : Conf) (r : Req) (o : Obs) : Bool :=
  attributedJustified cf r o && answeredAttributed o && failedNotProcessed o &&
    servfailHasReason cf r o && hsOnlyStrict cf r o

/-- The reason class reported by the driver. -/
def specE2EWhy (cf : Conf) (r : Req) (o : Obs) : Option String :=
  if !attributedJustified cf r o then some "C16E.attributed-identity-not-from-this-request"
  else if !answeredAttributed o then some "C16E.answered-but-consumers-differ"
  else if !failedNotProcessed o then some "C16E.failed-request-was-processed"
  else if !servfailHasReason cf r o then some "C16E.servfail-without-reason"
  else if !hsOnlyStrict cf r o then some "C16E.handshake-refused-without-strict"
  else none

/-- The observation a model outcome stands for. -/
def obsOf : Out → Obs
  | .ans id => { cls := .ans, nlog := 1, log := [id], stat := [id], ups := [id], filt := [id], upsN := 1 }
  | .servfail => { cls := .servfail, nlog := 0, log := [], stat := [], ups := [], filt := [], upsN := 0 }
  | .http n => { cls := .http n, nlog := 0, log := [], stat := [], ups := [], filt := [], upsN := 0 }
  | .rst => { cls := .rst, nlog := 0, log := [], stat := [], ups := [], filt := [], upsN := 0 }
  | .hs => { cls := .hs, nlog := 0, log := [], stat := [], ups := [], filt := [], upsN := 0 }

end AGH.C16.E2E
