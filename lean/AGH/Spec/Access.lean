/-
C03 declarative spec, written from the property text (not from the code).

  "A DNS request from a client that the access settings exclude (by IP, CIDR or
   ClientID) or for a name on the blocked-hosts list is never resolved,
   filtered, logged or counted: over UDP and DNSCrypt it gets no reply at all,
   over every other transport only REFUSED.  If the allowed list is non-empty a
   client is admitted exactly when its address or its ClientID is allowed (the
   disallowed list is then ignored); otherwise it is excluded exactly when its
   address or ClientID is disallowed.  All other requests are served."

The spec speaks about the two LISTS as the user wrote them (`List Entry`), not
about the containers the code builds from them.

Reading choices (each is also a theorem or an `example` in Props/C03.lean):
* an address is "on a list" when an address entry equals it (as `netip.Addr`,
  i.e. including the zone) or a CIDR entry of the same family agrees with it on
  the leading `bits` bits (CIDRs carry no zone, the client's zone is ignored);
* a ClientID is on a list when a ClientID entry equals it byte for byte; a
  request without ClientID has no ClientID on any list;
* "name on the blocked-hosts list" is the rule engine's answer for the single
  question of the request (oracle bit); requests with 0 or ≥ 2 questions name
  nothing;
* a request whose ClientID cannot be determined (C16 failure: malformed
  label, server-name mismatch) has no ClientID that could be on a list (list
  entries are valid labels), so it is excluded or admitted by its address
  alone, exactly like a request without ClientID; when it is excluded, or its
  name is blocked, it must be dropped/REFUSED like any other such request; when
  it is not, what it gets (SERVFAIL) is C16's business, not this property's;
* the zero `netip.Addr` (no address at all) in allow-list mode is outside the
  property unless its ClientID is allowed.
-/
import AGH.Model.Access
namespace AGH.C03
open AGH AGH.Bytes

/-- `ip` lies inside the CIDR `p`: same family and same network number. -/
def inCIDR (p : Prefix) : IP → Bool
  | .invalid => false
  | .v4 n => !p.is6 && (n / 2 ^ (32 - p.bits) == p.addr / 2 ^ (32 - p.bits))
  | .v6 n _ => p.is6 && (n / 2 ^ (128 - p.bits) == p.addr / 2 ^ (128 - p.bits))

/-- The address is named by the list, as an IP or through a CIDR. -/
def addrListed (es : List Entry) (ip : IP) : Bool :=
  ip.isValid && es.any fun e =>
    match e.parse with
    | .addr a => a == ip
    | .pfx p => inCIDR p ip
    | .none => false

/-- The ClientID is named by the list. -/
def idListed (es : List Entry) (id : Bytes) : Bool :=
  id ≠ [] && es.any fun e => e.parse == .none && e.raw == id

/-- The access settings exclude the client. -/
def excluded (allowed blocked : List Entry) (ip : IP) (id : Bytes) : Bool :=
  if !allowed.isEmpty then !(addrListed allowed ip || idListed allowed id)
  else addrListed blocked ip || idListed blocked id

/-- One observed request against one configuration. -/
structure Case where
  allowed : List Entry
  blocked : List Entry
  req : Request

/-- What is observed of the implementation (or computed by the model). -/
structure Obs where
  /-- first result of `IsBlockedClient(addr, clientID)` -/
  blocked : Bool
  /-- outcome of `HandleBefore` -/
  action : Action
  deriving DecidableEq, Repr

/-- "over UDP and DNSCrypt it gets no reply at all, over every other transport
only REFUSED" -/
def refusal (proto : C16.Proto) : Action :=
  match proto with
  | .udp | .dnscrypt => .drop
  | _ => .refused

/-- The request is for a name on the blocked-hosts list. -/
def nameBlocked (r : Request) : Bool := r.nq == 1 && r.hostBlocked

/-- Inside the domain of the property (see the header). -/
def inScope (c : Case) (id : Bytes) : Bool :=
  c.req.addr.isValid || c.allowed.isEmpty || idListed c.allowed id

inductive Why where
  /-- `IsBlockedClient` differs from "excluded by the settings" -/
  | decision
  /-- an excluded client / a blocked name was let through -/
  | served
  /-- refused, but not in the way the transport requires (e.g. a reply over UDP) -/
  | replyKind
  /-- a request that is neither excluded nor for a blocked name was not served -/
  | notServed
  deriving DecidableEq, Repr

def Why.token : Why → String
  | .decision => "C03.decision"
  | .served => "C03.served-excluded"
  | .replyKind => "C03.reply-kind"
  | .notServed => "C03.others-not-served"

/-- First clause of the property that the observation breaks, if any. -/
def specFail (c : Case) (o : Obs) : Option Why :=
  let id := c.req.effectiveID
  if !inScope c id then none
  else
    let ex := excluded c.allowed c.blocked c.req.addr id
    if o.blocked != ex then some .decision
    else if ex || nameBlocked c.req then
      if o.action == .pass then some .served
      else if o.action != refusal c.req.proto then some .replyKind
      else none
    else
      match c.req.clientID with
      | .ok _ => if o.action != .pass then some .notServed else none
      | .error _ => none

def specOK (c : Case) (o : Obs) : Bool := (specFail c o).isNone

end AGH.C03
