/-
C09, the timing clause the property implies for the flush loop.

"Each query is counted … in the hour that was current when it was counted":
the module learns the hour by polling; its documented polling period is one
second.  So once the hour shown by the clock has been the same for more than
`period`, the module must be counting in that hour — a query counted more than
`period` after an hour change is counted in the new hour.

`rolloverOK`: at time `t` the clock has shown hour `wall` since time `since`;
the module's current unit has id `unitId`.
-/
import AGH.Model.StatsLoop
namespace AGH.C09

/-- The documented polling period of the flush loop, ms. -/
def docPeriodMs : Nat := 1000

def rolloverOK (period t since wall unitId : Nat) : Bool :=
  if t - since > period then unitId == wall else true

end AGH.C09
