/-
C08 translator tie: obligations over the call-site tables regenerated from
internal/dnsforward on every run (AGH/Gen/C08Facts.lean).  They state the
structure the model of `processQueryLogsAndStats` relies on:

* the query log is written (`QueryLog.Add`) only in `logQuery`, the statistics
  (`stats.Update`) only in `updateStats`; `logQuery` (method of *Server or package-level function) is called only in the
  then-branch of `if s.shouldLog(…, ids)`, `updateStats` only in the
  then-branch of `if s.shouldCountStat(…, ids)`, both only in
  `processQueryLogsAndStats`; the deciders hand `ids` on to
  `QueryLog.ShouldLog` / `stats.ShouldCount`;
* there is exactly one anonymizer call, on `ip`, after `realIPStr` was taken
  and before `ipStr` is taken and before both decisions; the log gets the
  mutated `ip`, the statistics get `ipStr`;
* `ids` is built from `realIPStr` and `dctx.clientID` only.
-/
import AGH.Gen.C08Facts
namespace AGH.C08.Facts
open AGH.Gen.C08

def count (cs : List Call) (callee : Nat) : Nat := (cs.filter (·.callee == callee)).length

/-- Every call of `callee` sits in function `fn` under guard `guard` with the expected argument. -/
def allAt (cs : List Call) (callee fn guard : Nat) : Bool :=
  cs.all fun c => c.callee != callee || (c.fn == fn && c.guard == guard && c.arg == 1)

def ok (cs : List Call) (idsOps : List Nat) (idsAssigns realPos ipStrPos : Nat) : Bool :=
  -- record-making calls and their guards
  allAt cs 1 1 1 && allAt cs 2 1 2 && allAt cs 3 2 0 && allAt cs 4 3 0 &&
  -- the deciders and what they consult
  allAt cs 5 1 0 && allAt cs 6 1 0 && allAt cs 7 4 0 && allAt cs 8 5 0 &&
  -- each link of the chain exists exactly once
  count cs 1 == 1 && count cs 2 == 1 && count cs 3 == 1 && count cs 4 == 1 &&
  count cs 5 == 1 && count cs 6 == 1 && count cs 7 == 1 && count cs 8 == 1 &&
  -- one anonymizer call, on ip, between realIPStr and ipStr and before both decisions
  count cs 9 == 1 && allAt cs 9 1 0 &&
  (cs.all fun a => a.callee != 9 ||
    (decide (0 < realPos) && decide (realPos < a.pos) && decide (a.pos < ipStrPos) &&
      cs.all fun c => !(c.callee == 5 || c.callee == 6 || c.callee == 1 || c.callee == 2) ||
        decide (a.pos < c.pos))) &&
  -- the id list
  decide (0 < idsAssigns) && !idsOps.isEmpty && idsOps.all (fun o => o == 1 || o == 2) && idsOps.contains 1

/-- One anonymizer on the start-up path: `config.anonymizer()` is called exactly
once in package home, and the variable holding it is both the query log's
`Config.Anonymizer` (the one the config handlers switch) and the argument of
`initDNSServer` (the one `processQueryLogsAndStats` applies). -/
def singleAnonymizer (calls toQlog toServer : Nat) : Bool := calls == 1 && toQlog == 1 && toServer == 1

end AGH.C08.Facts
