/-
C13 declarative spec, written from the property text (not from the code).

One case is a configuration file (its decoded document, `none` if it is not a
YAML mapping), a target version, and split points.  The observation is what
the upgrade returned in one run, in one single-step run, and in two partial
runs for every split point.  `specWhy` names the first clause of the property
that the observation violates; the driver evaluates it on the IMPLEMENTATION's
observation.

  "never panics: it either fails with an error, leaving the file content
   unchanged, or produces a document stamped with the current schema version …
   The result does not depend on whether the upgrade is performed in one run or
   in several partial runs, upgrading an already current file changes nothing,
   and settings a step does not concern are preserved."

What a step concerns (`touched n`) is taken from the BEFORE/AFTER description
in the documentation comment of `migrateTo<n>`.  The clause about the loader
accepting the result is exercised by the harness only (DESIGN, "Partial").
-/
import AGH.Model.Migrate
namespace AGH.C13
open AGH

/-! ### Equality of documents -/

mutual
def YVal.beq : YVal → YVal → Bool
  | .null, .null => true
  | .bool a, .bool b => a == b
  | .int a, .int b => a == b
  | .str a, .str b => a == b
  | .opaque k a, .opaque l b => k == l && a == b
  | .arr xs, .arr ys => YVal.beqList xs ys
  | .obj es, .obj fs => YVal.beqEntries es fs
  | .dur a, .dur b => a == b
  | .strs a, .strs b => a == b
  | .umode a, .umode b => a == b
  | _, _ => false
def YVal.beqList : List YVal → List YVal → Bool
  | [], [] => true
  | x :: xs, y :: ys => YVal.beq x y && YVal.beqList xs ys
  | _, _ => false
def YVal.beqEntries : List (Key × YVal) → List (Key × YVal) → Bool
  | [], [] => true
  | (k, x) :: xs, (l, y) :: ys => k == l && YVal.beq x y && YVal.beqEntries xs ys
  | _, _ => false
end

instance : BEq YVal := ⟨YVal.beq⟩

/-! ### Observations -/

/-- What one call of the upgrade returned. -/
inductive Res
  | panic (p : PanicK) (step : Nat)
  /-- an error; was the returned body the input, was `upgraded` set -/
  | err (k : ErrK) (step : Nat) (bodySame upgraded : Bool)
  /-- no error and `upgraded = false`; was the returned body the input -/
  | same (bodySame : Bool)
  /-- upgraded; the decoded new body (`none`: it is not a YAML mapping) -/
  | up (d : Option YVal)

structure Case where
  parsed : Option YVal
  target : Nat
  /-- target of the single-step run (current version + 1), if there is one -/
  stepTarget : Option Nat
  ks : List Nat

structure Obs where
  one : Res
  step : Option Res
  /-- per split point: the stage that produced the final answer (1: the first
      partial run failed) and that answer -/
  splits : List (Nat × Res)

def Outcome.toRes : Outcome → Res
  | .err k s => .err k s true false
  | .same => .same true
  | .up d => .up (some d)
  | .panic p s => .panic p s
  | .oracle => .err .other 0 true false   -- never evaluated: the driver answers `bad-op`

/-! ### The version stamp -/

def lookupE (k : Key) : List (Key × YVal) → Option YVal
  | [] => none
  | (k', v) :: es => if k' = k then some v else lookupE k es

def stampKey : Key := kSchemaVersion  -- "schema_version"

/-- The schema version a document declares: an absent or null stamp is version 0. -/
def versionOf (d : YVal) : Option Nat :=
  match d with
  | .null => some 0       -- a null document is an empty one
  | .obj es =>
    match lookupE stampKey es with
    | none => some 0
    | some .null => some 0
    | some (.int i) => if i < 0 then none else some i.toNat
    | some _ => none
  | _ => none

def stampedWith (n : Nat) (d : Option YVal) : Bool :=
  match d with
  | some (.obj es) =>
    match lookupE stampKey es with
    | some (.int i) => i == Int.ofNat n
    | _ => false
  | _ => false

/-! ### What each step concerns -/

inductive PC
  | key (k : Key)
  | each
  deriving DecidableEq, Repr

abbrev Path := List PC

def pk (k : Key) : PC := .key k

def sv : Path := [pk stampKey]

def dnsP (k : Key) : Path := [pk kDns, pk k]

/-- The settings `migrateTo<n>` concerns (documentation comment of each step). -/
def touched : Nat → List Path
  | 1 => [sv]
  | 2 => [sv, [pk kCoredns], [pk kDns]]
  | 3 => [sv, dnsP kBootstrapDns]
  | 4 => [sv, [pk kClients, .each, pk kUseGlobalBlockedServices]]
  | 5 => [sv, [pk kAuthName], [pk kAuthPass], [pk kUsers]]
  | 6 => [sv, [pk kClients, .each, pk kIds]]
  | 7 => [sv, [pk kDhcp, pk kGatewayIp], [pk kDhcp, pk kSubnetMask], [pk kDhcp, pk kRangeStart],
          [pk kDhcp, pk kRangeEnd], [pk kDhcp, pk kLeaseDuration], [pk kDhcp, pk kIcmpTimeoutMsec],
          [pk kDhcp, pk kDhcpv4]]
  | 8 => [sv, dnsP kBindHost, dnsP kBindHosts]
  | 9 => [sv, dnsP kAutohostTld, dnsP kLocalDomainName]
  | 10 => [sv, dnsP kUpstreamDns, dnsP kLocalPtrUpstreams]
  | 11 => [sv, [pk kRlimitNofile], [pk kOs]]
  | 12 => [sv, dnsP kQuerylogInterval]
  | 13 => [sv, dnsP kLocalDomainName, [pk kDhcp, pk kLocalDomainName]]
  | 14 => [sv, [pk kClients], dnsP kResolveClients]
  | 15 => [sv, dnsP kQuerylogEnabled, dnsP kQuerylogFileEnabled, dnsP kQuerylogInterval,
           dnsP kQuerylogSizeMemory, [pk kQuerylog]]
  | 16 => [sv, dnsP kStatisticsInterval, [pk kStatistics]]
  | 17 => [sv, dnsP kEdnsClientSubnet]
  | 18 => [sv, dnsP kSafesearchEnabled, dnsP kSafeSearch]
  | 19 => [sv, [pk kClients, pk kPersistent, .each, pk kSafesearchEnabled],
           [pk kClients, pk kPersistent, .each, pk kSafeSearch]]
  | 20 => [sv, [pk kStatistics, pk kInterval]]
  | 21 => [sv, dnsP kBlockedServices]
  | 22 => [sv, [pk kClients, pk kPersistent, .each, pk kBlockedServices]]
  | 23 => [sv, [pk kBindHost], [pk kBindPort], [pk kWebSessionTtl], [pk kHttp]]
  | 24 => [sv, [pk kLogFile], [pk kLogMaxBackups], [pk kLogMaxSize], [pk kLogMaxAge], [pk kLogCompress],
           [pk kLogLocaltime], [pk kVerbose], [pk kLog]]
  | 25 => [sv, [pk kDebugPprof], [pk kHttp, pk kPprof]]
  | 26 => [sv, dnsP kFilteringEnabled, dnsP kFiltersUpdateInterval, dnsP kParentalEnabled,
           dnsP kSafebrowsingEnabled, dnsP kSafebrowsingCacheSize, dnsP kSafesearchCacheSize,
           dnsP kParentalCacheSize, dnsP kSafeSearch, dnsP kRewrites, dnsP kBlockedServices,
           dnsP kProtectionEnabled, dnsP kBlockingMode, dnsP kBlockingIpv4, dnsP kBlockingIpv6,
           dnsP kBlockedResponseTtl, dnsP kProtectionDisabledUntil, dnsP kParentalBlockHost,
           dnsP kSafebrowsingBlockHost, [pk kFiltering]]
  | 27 => [sv, [pk kQuerylog, pk kIgnored], [pk kStatistics, pk kIgnored]]
  | 28 => [sv, dnsP kAllServers, dnsP kFastestAddr, dnsP kUpstreamMode]
  | 29 => [sv, [pk kFiltering, pk kSafeFsPatterns]]
  | _ => []

/-- The settings the steps `cur+1 … cur+cnt` concern. -/
def touchedRange : (cnt cur : Nat) → List Path
  | 0, _ => []
  | cnt + 1, cur => touched (cur + 1) ++ touchedRange cnt (cur + 1)

/-- `p` is one of the concerned paths. -/
def isTouched (fp : List Path) (p : Path) : Bool := fp.any (· == p)

/-- A concerned path lies strictly below `p`. -/
def reaches (fp : List Path) (p : Path) : Bool :=
  fp.any (fun q => p.isPrefixOf q && p.length < q.length)

/-! ### Preservation of everything else

`frameV fp p din dout`: below the path `p`, everything that is not on a concerned
path is the same in the input `din` and in the result `dout` (`none`: absent).
`p` is kept reversed. -/

def newKeysOK (fp : List Path) (rp : Path) (es : List (Key × YVal)) : List (Key × YVal) → Bool
  | [] => true
  | (k, _) :: fs =>
    ((lookupE k es).isSome || isTouched fp (pk k :: rp).reverse) && newKeysOK fp rp es fs

mutual
def frameV (fp : List Path) (rp : Path) (din : YVal) (dout : Option YVal) : Bool :=
  if isTouched fp rp.reverse then true
  else if !reaches fp rp.reverse then dout == some din
  else
    match din, dout with
    | .obj es, some (.obj fs) => frameEs fp rp [] es fs && newKeysOK fp rp es fs
    | .arr xs, some (.arr ys) => frameList fp rp xs ys
    | _, _ => dout == some din
/-- the fields of a mapping, each key once (the first entry counts, as in `lookupE`) -/
def frameEs (fp : List Path) (rp : Path) : List Key → List (Key × YVal) → List (Key × YVal) → Bool
  | _, [], _ => true
  | seen, (k, v) :: es, fs =>
    (seen.contains k || frameV fp (pk k :: rp) v (lookupE k fs)) && frameEs fp rp (k :: seen) es fs
def frameList (fp : List Path) (rp : Path) : List YVal → List YVal → Bool
  | [], [] => true
  | x :: xs, y :: ys => frameV fp (.each :: rp) x (some y) && frameList fp rp xs ys
  | _, _ => false
end

def frameOK (fp : List Path) (din : YVal) (dout : Option YVal) : Bool := frameV fp [] din dout

/-! ### The clauses -/

mutual
/-- The document holds a float that YAML writes back as an integer. -/
def hasIntegralFloat (o : Oracles) : YVal → Bool
  | .opaque 1 p => (match o.rt 1 p with | some (.int _) => true | _ => false)
  | .arr xs => hasIntegralFloatList o xs
  | .obj es => hasIntegralFloatEnts o es
  | _ => false
def hasIntegralFloatList (o : Oracles) : List YVal → Bool
  | [] => false
  | x :: xs => hasIntegralFloat o x || hasIntegralFloatList o xs
def hasIntegralFloatEnts (o : Oracles) : List (Key × YVal) → Bool
  | [] => false
  | (_, v) :: es => hasIntegralFloat o v || hasIntegralFloatEnts o es
end

inductive Why
  | panicked (p : PanicK) (step : Nat)
  | errorChangedFile
  | notStamped
  | notUpgraded
  | currentFileChanged
  | pathDependent
  /-- path dependence of a document that holds an integral float (`86400.0`),
      which YAML writes back as an integer (known finding, keyed separately) -/
  | pathDependentFloat
  | settingLost (step : Nat)
  deriving Repr

def Res.panicWhy : Res → Option Why
  | .panic p s => some (.panicked p s)
  | _ => none

/-- An error leaves the file content unchanged. -/
def Res.wrapperOK : Res → Bool
  | .err _ _ bodySame upgraded => bodySame && !upgraded
  | .same bodySame => bodySame
  | _ => true

def Res.stampOK (target : Nat) : Res → Bool
  | .up d => stampedWith target d
  | _ => true

def firstSome {α β} (f : α → Option β) : List α → Option β
  | [] => none
  | x :: xs => match f x with | some y => some y | none => firstSome f xs

def allRes (o : Obs) : List Res :=
  o.one :: ((match o.step with | some r => [r] | none => []) ++ o.splits.map (·.2))

/-- One split point agrees with the single run. -/
def splitOK (one : Res) (sr : Nat × Res) : Bool :=
  match one, sr.2 with
  | .up (some d), .up (some d') => d == d'
  | .err _ _ _ _, .err _ _ _ _ => true
  | .same _, .same _ => true
  | _, _ => false

/-- The current version of the case, when the upgrade is a real one (`cur ≤ target ≤ 29`). -/
def caseVersion (c : Case) : Option (YVal × Nat) :=
  match c.parsed with
  | none => none
  | some din0 =>
    match versionOf din0 with
    | none => none
    | some cur => if cur > c.target || c.target > 29 then none else some (din0, cur)

/-- Every produced document carries the requested version. -/
def stampsOK (c : Case) (o : Obs) : Bool :=
  o.one.stampOK c.target && (o.splits.all (fun s => s.2.stampOK c.target))
    && (match c.stepTarget, o.step with | some t, some r => r.stampOK t | _, _ => true)

/-- never panics; an error leaves the file unchanged; a produced document is stamped;
a current file is left alone; otherwise the upgrade fails or produces a document -/
def coreWhy (c : Case) (o : Obs) : Option Why :=
  match firstSome Res.panicWhy (allRes o) with
  | some w => some w
  | none =>
  if !(allRes o).all Res.wrapperOK then some .errorChangedFile
  else if !stampsOK c o then some .notStamped
  else
  match caseVersion c with
  | none => none
  | some (_, cur) =>
    if cur == c.target then
      (match o.one with | .same true => none | _ => some .currentFileChanged)
    else if (match o.one with | .same _ => true | _ => false) then some .notUpgraded
    else none

/-- one run or several partial runs -/
def pathWhy (orc : Oracles) (c : Case) (o : Obs) : Option Why :=
  match caseVersion c with
  | none => none
  | some (din0, cur) =>
    if cur == c.target then none
    else if !((c.ks.zip o.splits).all (fun ks => ks.1 < cur || ks.1 > c.target || splitOK o.one ks.2)) then
      some (if hasIntegralFloat orc din0 then .pathDependentFloat else .pathDependent)
    else none

/-- The settings of the input as YAML writes them back (`1.5e3` is the setting `1500`). -/
def frameInput (orc : Oracles) (din0 : YVal) : YVal :=
  (reparse orc (match din0 with | .null => .obj [] | d => d)).getD din0

/-- The single-step run lost a setting the step does not concern. -/
def stepFrameBad (c : Case) (o : Obs) (cur : Nat) (din : YVal) : Bool :=
  match c.stepTarget, o.step with
  | some t, some (.up d) => t == cur + 1 && !frameOK (touched t) din d
  | _, _ => false

/-- The single run lost a setting none of its steps concerns. -/
def oneFrameBad (c : Case) (o : Obs) (cur : Nat) (din : YVal) : Bool :=
  match o.one with
  | .up d => !frameOK (touchedRange (c.target - cur) cur) din d
  | _ => false

/-- settings a step does not concern are preserved -/
def frameWhy (orc : Oracles) (c : Case) (o : Obs) : Option Why :=
  match caseVersion c with
  | none => none
  | some (din0, cur) =>
    if cur == c.target then none
    else if stepFrameBad c o cur (frameInput orc din0) then some (.settingLost (cur + 1))
    else if oneFrameBad c o cur (frameInput orc din0) then some (.settingLost 0)
    else none

def specWhy (orc : Oracles) (c : Case) (o : Obs) : Option Why :=
  match coreWhy c o with
  | some w => some w
  | none =>
    match pathWhy orc c o with
    | some w => some w
    | none => frameWhy orc c o

def specOK (orc : Oracles) (c : Case) (o : Obs) : Bool := (specWhy orc c o).isNone

/-! ### The model's observation of a case -/

/-- Two partial runs: to `k`, then (on the re-read file) to `target`. -/
def splitRun (o : Oracles) (parsed : Option YVal) (target k : Nat) : Nat × Outcome :=
  match migrate o parsed k with
  | .same => (2, migrate o parsed target)
  | .up d1 =>
    match migrate o (some d1) target with
    | .same => (2, .up d1)      -- nothing left to do: the file is the first run's
    | r => (2, r)
  | r => (1, r)

def modelOutcomes (o : Oracles) (c : Case) : Outcome × Option Outcome × List (Nat × Outcome) :=
  (migrate o c.parsed c.target, c.stepTarget.map (migrate o c.parsed),
   c.ks.map (splitRun o c.parsed c.target))

def modelObs (o : Oracles) (c : Case) : Obs :=
  let m := modelOutcomes o c
  { one := m.1.toRes, step := m.2.1.map Outcome.toRes, splits := m.2.2.map (fun s => (s.1, s.2.toRes)) }

end AGH.C13
