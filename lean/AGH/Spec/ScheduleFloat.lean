/-
C18 spec, part 2: serialised ranges judged by the EXACT value of what is
written ("ranges that are negative, inverted, longer than 24h or not whole
minutes are rejected").  A JSON number `m` means `m` milliseconds as a real
number; a YAML duration string means the sum of its coefficient×unit terms.
Whether that real number is a whole number of minutes, negative, … is decided
here with exact integer arithmetic on fractions — no float, no truncation.
-/
import AGH.Spec.Schedule
import AGH.Model.ScheduleFloat
namespace AGH.C18
open AGH

/-- The exact meaning of one duration token. -/
inductive TokVal
  | notNumber                               -- no duration at all (string, null, "1x", …)
  | notWhole (neg : Bool) (num den : Nat)   -- exactly ±num/den ns, not a whole number of minutes
  | whole (ns : Int)                        -- exactly this many ns, a whole number of minutes
  | unknown                                 -- oversized literal: not judged
deriving DecidableEq, Repr

/-- `±num/den` ns: whole minutes or not. -/
def wholeOf (neg : Bool) (num den : Nat) : TokVal :=
  if num % (den * 60000000000) = 0 then .whole (if neg then -((num / den : Nat) : Int) else ((num / den : Nat) : Int))
  else .notWhole neg num den

/-- A JSON number of milliseconds. -/
def jsonTokVal (t : Bytes) : TokVal :=
  match parseJSONNumber t with
  | none => .notNumber
  | some x => if !x.small then .unknown else wholeOf x.neg (x.frac.1 * 1000000) x.frac.2

/-- A YAML duration string. -/
def yamlTokVal (t : Bytes) : TokVal :=
  match parseDurF t with
  | .ok _ neg en ed => wholeOf neg en ed
  | .err => .notNumber
  | _ => .unknown

/-- An absent key leaves the field 0. -/
def fieldVal (val : Bytes → TokVal) : Option Bytes → TokVal
  | none => .whole 0
  | some t => val t

inductive DayVal
  | range (r : DayRange)     -- both ends are whole minutes: this exact range
  | bad                      -- some end is no duration or not whole minutes
  | unknown
deriving DecidableEq, Repr

def dayVal (val : Bytes → TokVal) : Option DayToks → DayVal
  | none => .range DayRange.zero
  | some dt =>
    match fieldVal val dt.start, fieldVal val dt.stop with
    | .whole s, .whole e => .range ⟨s, e⟩
    | .unknown, _ => .unknown
    | _, .unknown => .unknown
    | _, _ => .bad

/-- One day of an accepted document: written exactly, read exactly, nothing forbidden. -/
def dayAcceptedOK (val : Bytes → TokVal) (t : Option DayToks) (decoded : DayRange) : Bool :=
  match dayVal val t with
  | .range r => decoded == r && !mustReject r
  | .bad => false
  | .unknown => true

/-- One day gives a reason to reject the document. -/
def dayRejectable (val : Bytes → TokVal) (t : Option DayToks) : Bool :=
  match dayVal val t with
  | .range r => !mustAccept r
  | .bad => true
  | .unknown => true

def Week.zipAll {α β} (f : α → β → Bool) (a : Week α) (b : Week β) : Bool :=
  f a.sun b.sun && f a.mon b.mon && f a.tue b.tue && f a.wed b.wed && f a.thu b.thu && f a.fri b.fri && f a.sat b.sat

def Week.any {α} (f : α → Bool) (a : Week α) : Bool :=
  f a.sun || f a.mon || f a.tue || f a.wed || f a.thu || f a.fri || f a.sat

/-- Monitor for one decode case whose tokens are known. -/
def specDecodeTokOK (val : Bytes → TokVal) (parseOK tzOK : Bool) (tz : Bytes) (toks : Week (Option DayToks))
    (o : DecodeObs) : Bool :=
  match o with
  | .accepted loc days same =>
    parseOK && tzOK &&
    Week.zipAll (dayAcceptedOK val) toks days &&
    (loc == tz || (tz == [] && loc == utcName)) &&
    same
  | .rejected =>
    !parseOK || !tzOK || Week.any (dayRejectable val) toks

end AGH.C18
