/-
C14 — the crash models, as explicit objects.

A file system has a volatile layer (what running processes see: `FS.names`,
`FS.cache`) and a durable layer.  For DATA the durable layer is per inode:
`FS.disk` is the content as of the last `fsync(fd)`, `FS.dirty` says that the
inode was modified since.  For DIRECTORY ENTRIES the durable layer is defined
from the trace: the operations completed since the last `fsync(dir)` are pending
and a crash may lose some of them.  Three models, from weakest guarantee up:

* POSIX (pessimistic): ANY subset of the pending directory operations is lost
  (each operation — create, unlink, a rename with its two entries — atomically),
  the others applied in order; a dirty inode comes back with ARBITRARY content.
* ordered journal (ext4/xfs metadata journalling): the pending directory
  operations that survive form a PREFIX; dirty inodes arbitrary as above.
* strict: every completed directory operation is durable (journal committed,
  or `fsync(dir)` after each): the model `AfterCrash` of AGH/Spec/FS.lean.

`C14_crash_models_nested` proves strict ⊆ ordered ⊆ POSIX (as sets of possible
directories after the crash), so a safety theorem under POSIX holds under all.
-/
import AGH.Spec.FS
namespace AGH.C14
open AGH

abbrev Dir := Path → Option Nat

/-- Directory snapshots along a replayed trace, from the last `fsync(dir)` on:
the first is the durable directory, each further one the directory after one
more completed syscall. -/
def dirSnaps (s : FS) : List Sys → List Dir
  | [] => [s.names]
  | e :: es =>
    if e = .fsyncDir then dirSnaps (exec s e) es
    else s.names :: dirSnaps (exec s e) es

/-- Apply to `cur` the directory operation that turned `before` into `after`:
exactly the entries it changed take their new value. -/
def applyOp (cur before after : Dir) : Dir :=
  fun p => if before p = after p then cur p else after p

/-- `Lossy cur snaps out`: starting from the durable directory `cur`, walking the
pending operations (consecutive snapshots), each one is either applied (`keep`)
or lost (`lose`); `out` is what the crash leaves. -/
inductive Lossy : Dir → List Dir → Dir → Prop
  | last (cur b : Dir) : Lossy cur [b] cur
  | keep {cur b a : Dir} {rest : List Dir} {out : Dir} :
      Lossy (applyOp cur b a) (a :: rest) out → Lossy cur (b :: a :: rest) out
  | lose {cur b a : Dir} {rest : List Dir} {out : Dir} :
      Lossy cur (a :: rest) out → Lossy cur (b :: a :: rest) out

/-- POSIX model: any admissible loss set. -/
def CrashDirPosix (s₀ : FS) (es : List Sys) (out : Dir) : Prop :=
  match dirSnaps s₀ es with
  | [] => False
  | d :: ds => Lossy d (d :: ds) out

/-- Ordered-journal model: a prefix of the pending operations survives. -/
def CrashDirOrdered (s₀ : FS) (es : List Sys) (out : Dir) : Prop :=
  out ∈ dirSnaps s₀ es

/-- Strict model: everything completed is durable. -/
def CrashDirStrict (s₀ : FS) (es : List Sys) (out : Dir) : Prop :=
  out = (run s₀ es).names

/-- Data after a crash, pessimistically: an inode not modified since its last
fsync survives exactly, a modified one may hold anything at all. -/
def SurvivesAny (s : FS) (i : Nat) (c : Content) : Prop :=
  s.dirty i = false → c = s.cache i

/-- What may be found at `p` after a crash in state `s` that left directory `out`. -/
def AfterCrashIn (out : Dir) (s : FS) (p : Path) : Option Content → Prop
  | none => out p = none
  | some c => ∃ i, out p = some i ∧ SurvivesAny s i c

end AGH.C14
