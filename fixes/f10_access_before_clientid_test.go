//go:build verif

package dnsforward

import (
	"net/netip"
	"testing"

	"github.com/AdguardTeam/dnsproxy/proxy"
	"github.com/AdguardTeam/golibs/errors"
	"github.com/miekg/dns"
)

// F10 (C03): a request from a disallowed address gets only REFUSED over DoT,
// also when it carries a malformed ClientID.
func TestVerifF10AccessBeforeClientID(t *testing.T) {
	a, err := newAccessCtx(nil, []string{"1.2.3.4"}, nil)
	if err != nil {
		t.Fatal(err)
	}
	s := &Server{conf: ServerConfig{TLSConf: &TLSConfig{ServerName: "dns.example.org"}}, access: a}
	req := (&dns.Msg{}).SetQuestion("example.com.", dns.TypeA)
	pctx := &proxy.DNSContext{
		Proto: proxy.ProtoTLS, Req: req, Addr: netip.MustParseAddrPort("1.2.3.4:5353"),
		Conn: testTLSConn{serverName: "a_b.dns.example.org"},
	}
	err = s.HandleBefore(nil, pctx)
	var brErr *proxy.BeforeRequestError
	if !errors.As(err, &brErr) || brErr.Response == nil {
		t.Fatalf("want a BeforeRequestError with a response, got %v", err)
	}
	if brErr.Response.Rcode != dns.RcodeRefused {
		t.Errorf("disallowed client with a malformed ClientID got %s, want REFUSED", dns.RcodeToString[brErr.Response.Rcode])
	}
}
