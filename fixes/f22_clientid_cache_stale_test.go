//go:build verif

package dnsforward

import (
	"encoding/binary"
	"net/netip"
	"testing"

	"github.com/AdguardTeam/dnsproxy/proxy"
	"github.com/AdguardTeam/golibs/cache"
	"github.com/miekg/dns"
)

// F22 (C16): a plain-DNS request never carries a ClientID, also when its
// RequestID number was used by a DoT request with a ClientID before the proxy
// was re-created (dnsproxy restarts its request counter at 1 on every
// proxy.New, which Reconfigure does; the ClientID cache lives on the Server).
func TestVerifF22StaleClientIDCache(t *testing.T) {
	a, err := newAccessCtx(nil, nil, nil)
	if err != nil {
		t.Fatal(err)
	}
	s := &Server{
		conf:          ServerConfig{TLSConf: &TLSConfig{ServerName: "dns.example.org"}},
		access:        a,
		clientIDCache: cache.New(cache.Config{EnableLRU: true, MaxCount: 1024}),
	}
	req := (&dns.Msg{}).SetQuestion("example.com.", dns.TypeA)
	dot := &proxy.DNSContext{
		Proto: proxy.ProtoTLS, Req: req, Addr: netip.MustParseAddrPort("10.0.0.1:853"),
		Conn: testTLSConn{serverName: "victim.dns.example.org"}, RequestID: 7,
	}
	if err = s.HandleBefore(nil, dot); err != nil {
		t.Fatal(err)
	}
	// The proxy is re-created (Reconfigure): its counter restarts, so a later
	// plain UDP request gets the same number.
	udp := &proxy.DNSContext{
		Proto: proxy.ProtoUDP, Req: req, Addr: netip.MustParseAddrPort("192.0.2.99:5353"), RequestID: 7,
	}
	if err = s.HandleBefore(nil, udp); err != nil {
		t.Fatal(err)
	}
	var key [8]byte
	binary.BigEndian.PutUint64(key[:], udp.RequestID)
	if got := string(s.clientIDCache.Get(key[:])); got != "" {
		t.Errorf("plain UDP request %d is attributed to ClientID %q", udp.RequestID, got)
	}
}
