//go:build verif && linux

package dhcpd

import (
	"net"
	"net/netip"
	"testing"

	"github.com/AdguardTeam/AdGuardHome/internal/dhcpsvc"
	"github.com/insomniacslk/dhcp/dhcpv4"
)

func vfRequest(t *testing.T, s *v4Server, mac net.HardwareAddr, host string) netip.Addr {
	disc, err := dhcpv4.NewDiscovery(mac)
	if err != nil {
		t.Fatal(err)
	}
	offer, err := dhcpv4.NewReplyFromRequest(disc)
	if err != nil {
		t.Fatal(err)
	}
	if rc := s.handle(disc, offer); rc != 1 {
		t.Fatalf("discover rc=%d", rc)
	}
	req, err := dhcpv4.NewRequestFromOffer(offer, dhcpv4.WithOption(dhcpv4.OptHostName(host)))
	if err != nil {
		t.Fatal(err)
	}
	ack, err := dhcpv4.NewReplyFromRequest(req)
	if err != nil {
		t.Fatal(err)
	}
	if rc := s.handle(req, ack); rc != 1 {
		t.Fatalf("request rc=%d", rc)
	}
	a, _ := netip.AddrFromSlice(ack.YourIPAddr.To4())

	return a
}

// F16 (C10): emptying a dynamic lease's hostname in favour of a static lease
// must keep the hostname index (the answers given to DNS) consistent.
func TestVerifF16HostIndexStale(t *testing.T) {
	s := vfSrv(t)
	m1 := net.HardwareAddr{1, 1, 1, 1, 1, 1}
	m2 := net.HardwareAddr{2, 2, 2, 2, 2, 2}
	ip1 := vfRequest(t, s, m1, "alpha")
	_ = s.AddStaticLease(&dhcpsvc.Lease{HWAddr: m2, IP: netip.MustParseAddr("192.168.10.150"), Hostname: "alpha"})
	got := s.IPByHost("alpha")
	for _, l := range s.leases {
		if l.Hostname == "alpha" && l.IP == got {
			return
		}
	}
	t.Errorf("IPByHost(alpha) = %s (dynamic lease was %s), but no lease in the table is named alpha: %v", got, ip1, s.leases)
}

// F17 (C10): the lease database must list the leases in memory also when
// adding a static lease fails after dynamic leases have been removed.
func TestVerifF17FailedStaticNotStored(t *testing.T) {
	conf := defaultV4ServerConf()
	var s *v4Server
	stored := -1
	conf.notify = func(flags uint32) {
		if flags == LeaseChangedDBStore {
			stored = len(s.leases)
		}
	}
	srv, err := v4Create(conf)
	if err != nil {
		t.Fatal(err)
	}
	s = srv
	mA := net.HardwareAddr{0xa, 1, 1, 1, 1, 1}
	mB := net.HardwareAddr{0xb, 2, 2, 2, 2, 2}
	mC := net.HardwareAddr{0xc, 3, 3, 3, 3, 3}
	if err = s.AddStaticLease(&dhcpsvc.Lease{HWAddr: mA, IP: netip.MustParseAddr("192.168.10.150"), Hostname: "h"}); err != nil {
		t.Fatal(err)
	}
	x := vfDiscover(t, s, mB)
	err = s.AddStaticLease(&dhcpsvc.Lease{HWAddr: mC, IP: x, Hostname: "h"})
	if err == nil {
		t.Skip("the second static lease was accepted")
	}
	if stored != len(s.leases) {
		t.Errorf("after the failed AddStaticLease the table has %d leases, the database was last stored with %d", len(s.leases), stored)
	}
}
