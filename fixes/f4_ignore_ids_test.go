//go:build verif

package dnsforward

import (
	"net/netip"
	"testing"
	"time"

	"github.com/AdguardTeam/AdGuardHome/internal/aghnet"
	"github.com/AdguardTeam/AdGuardHome/internal/filtering"
	"github.com/AdguardTeam/AdGuardHome/internal/querylog"
	"github.com/AdguardTeam/AdGuardHome/internal/stats"
	"github.com/AdguardTeam/dnsproxy/proxy"
	"github.com/AdguardTeam/dnsproxy/upstream"
	"github.com/AdguardTeam/golibs/logutil/slogutil"
	"github.com/miekg/dns"
)

type vfQL struct {
	querylog.QueryLog
	ids   []string
	added []*querylog.AddParams
}

func (l *vfQL) Add(p *querylog.AddParams) { l.added = append(l.added, p) }
func (l *vfQL) ShouldLog(_ string, _, _ uint16, ids []string) bool {
	l.ids = ids
	// The client 192.168.1.5 is marked "ignore_querylog".
	for _, id := range ids {
		if id == "192.168.1.5" {
			return false
		}
	}

	return true
}

type vfST struct {
	stats.Interface
	n int
}

func (s *vfST) Update(*stats.Entry) { s.n++ }
func (s *vfST) ShouldCount(_ string, _, _ uint16, ids []string) bool {
	for _, id := range ids {
		if id == "192.168.1.5" {
			return false
		}
	}

	return true
}

// F4 (C08): with anonymisation on, the per-client ignore lookup must still
// see the real client address, and the recorded address must be anonymised.
func TestVerifF4IgnoreIDs(t *testing.T) {
	ups, err := upstream.AddressToUpstream("1.1.1.1", nil)
	if err != nil {
		t.Fatal(err)
	}
	ql, st := &vfQL{}, &vfST{}
	srv := &Server{
		baseLogger: slogutil.NewDiscardLogger(), queryLog: ql, stats: st,
		anonymizer: aghnet.NewIPMut(querylog.AnonymizeIP),
	}
	run := func(addr string) {
		pctx := &proxy.DNSContext{
			Proto: proxy.ProtoUDP, Req: &dns.Msg{Question: []dns.Question{{Name: "example.org."}}},
			Res: &dns.Msg{}, Addr: netip.MustParseAddrPort(addr), Upstream: ups,
		}
		srv.processQueryLogsAndStats(&dnsContext{
			proxyCtx: pctx, startTime: time.Now(), result: &filtering.Result{},
		})
	}
	run("192.168.1.5:1234")
	if len(ql.added) != 0 || st.n != 0 {
		t.Errorf("ignored client 192.168.1.5 was recorded (ids seen by the ignore lookup: %v)", ql.ids)
	}
	run("192.168.1.6:1234")
	if len(ql.added) != 1 || ql.added[0].ClientIP.String() != "192.168.0.0" {
		t.Errorf("other client must be recorded with the anonymised address, got %v", ql.added)
	}
}
