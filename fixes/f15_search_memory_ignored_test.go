//go:build verif

package querylog

import (
	"context"
	"testing"

	"github.com/AdguardTeam/AdGuardHome/internal/aghnet"
	"github.com/AdguardTeam/AdGuardHome/internal/filtering"
)

// F15 (C08): the log API does not return entries whose name or client is
// currently ignored, also while they still sit in the memory buffer.
func TestVerifF15SearchMemoryIgnored(t *testing.T) {
	l := vfLog(t)
	ctx := context.Background()
	vfAdd(l, "example.org", filtering.NotFilteredNotFound)
	vfAdd(l, "tracker.io", filtering.NotFilteredNotFound)
	eng, err := aghnet.NewIgnoreEngine([]string{"||tracker.io^"})
	if err != nil {
		t.Fatal(err)
	}
	l.conf.Ignored = eng
	mem, _ := l.search(ctx, newSearchParams())
	for _, e := range mem {
		if e.QHost == "tracker.io" {
			t.Errorf("entry for the currently ignored name %q is returned from the memory buffer", e.QHost)
		}
	}
	l.findClient = func(ids []string) (c *Client, err error) {
		return &Client{Name: "ignored-client", IgnoreQueryLog: true}, nil
	}
	mem, _ = l.search(ctx, newSearchParams())
	if len(mem) != 0 {
		t.Errorf("%d entries of a client with ignore_querylog are returned from the memory buffer", len(mem))
	}
}
