//go:build verif

package querylog

import (
	"strings"
	"testing"
)

// Demonstration for the C07 finding "containsFold compares a window of
// len(substr) BYTES": runes that are equal under simple case folding can have
// UTF-8 encodings of different lengths, so the unquoted (substring) search
// missed entries that the quoted (exact, strings.EqualFold) search finds.
// FAILS before the fix, passes after it.
func TestVerifC07ContainsFoldRunes(t *testing.T) {
	for _, tc := range []struct{ s, sub string }{
		{"STRAẞE 7", "straße"}, // capital sharp s (3 bytes) ~ small sharp s (2 bytes)
		{"Meſſage", "mess"},     // long s (2 bytes) ~ s
		{"K-phone", "k-ph"},          // Kelvin sign (3 bytes) ~ k
		{"k", "K"},                   // field shorter in bytes than the term
		{"Ωmega", "ωmeg"},       // ohm sign ~ small omega
	} {
		whole := strings.EqualFold(tc.s[:len(tc.s)], tc.s) // sanity
		if !whole {
			t.Fatal("unreachable")
		}

		if !containsFold(tc.s, tc.sub) {
			t.Errorf("containsFold(%q, %q) = false, want true", tc.s, tc.sub)
		}
	}

	// Same-length orbits and plain ASCII keep working.
	for _, tc := range []struct{ s, sub string }{
		{"ΝΙΚΟΣ", "νικος"}, // final sigma
		{"My Kitchen", "kit"},
		{"example.org", "PLE.O"},
	} {
		if !containsFold(tc.s, tc.sub) {
			t.Errorf("containsFold(%q, %q) = false, want true", tc.s, tc.sub)
		}
	}

	for _, tc := range []struct{ s, sub string }{
		{"example.org", "exampel"},
		{"abc", "abcd"},
		{"", "a"},
	} {
		if containsFold(tc.s, tc.sub) {
			t.Errorf("containsFold(%q, %q) = true, want false", tc.s, tc.sub)
		}
	}
}
