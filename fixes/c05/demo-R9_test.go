// Demonstration for finding R9 (C05): WriteDiskConfig, which every saving of
// the configuration file calls, copies the whole Config under confMu only,
// although the filter lists, the custom rules and the filtering settings in it
// are written under conf.filtersMu, and the enabled flag is stored atomically
// by SetEnabled.
//
// Copy to internal/filtering/ and run from the repository root:
//
//	go1.26 test -race -vet=off -count=1 -run 'TestDemoR9' ./internal/filtering/
//
// Fails with "DATA RACE" (WriteDiskConfig vs handleFilteringConfig /
// EnableFilters) before the fix, passes after it.
package filtering

import (
	"fmt"
	"net/http"
	"net/http/httptest"
	"strings"
	"sync"
	"testing"
	"time"
)

func TestDemoR9_WriteDiskConfigVsFilteringConfig(t *testing.T) {
	d, err := New(&Config{
		DataDir:                    t.TempDir(),
		HTTPClient:                 &http.Client{Timeout: time.Second},
		ConfigModified:             func() {},
		FilteringEnabled:           true,
		FiltersUpdateIntervalHours: 24,
	}, nil)
	if err != nil {
		t.Fatal(err)
	}
	// Start the updates loop, which receives the filters to initialize.
	d.Start()
	t.Cleanup(d.Close)

	const n = 300
	wg := &sync.WaitGroup{}
	wg.Add(2)
	done := make(chan struct{})
	go func() {
		defer wg.Done()
		defer close(done)
		for i := range n {
			body := fmt.Sprintf(`{"enabled":%v,"interval":%d}`, i%2 == 0, []int{1, 12, 24}[i%3])
			r := httptest.NewRequest(http.MethodPost, "/control/filtering/config", strings.NewReader(body))
			r.Header.Set("Content-Type", "application/json")
			d.handleFilteringConfig(httptest.NewRecorder(), r)
		}
	}()
	go func() {
		defer wg.Done()
		for {
			select {
			case <-done:
				return
			default:
			}

			// What home.onConfigModified > configuration.write does.
			c := &Config{}
			d.WriteDiskConfig(c)
		}
	}()
	wg.Wait()
}
