// Demonstration for finding R10 (C05): PUT /control/querylog/config/update
// evaluates l.conf.ConfigModified (deferred) before it takes confMu, while the
// same handler, serving another request, replaces l.conf under the lock.
//
// Copy to internal/querylog/ and run from the repository root:
//
//	go1.26 test -race -vet=off -count=1 -run 'TestDemoR10' ./internal/querylog/
//
// Fails with "DATA RACE" (handlePutQueryLogConfig vs handlePutQueryLogConfig)
// before the fix, passes after it.
package querylog

import (
	"net/http"
	"net/http/httptest"
	"strings"
	"sync"
	"testing"

	"github.com/AdguardTeam/AdGuardHome/internal/aghnet"
	"github.com/AdguardTeam/golibs/logutil/slogutil"
	"github.com/AdguardTeam/golibs/timeutil"
)

func TestDemoR10_ConcurrentConfigUpdates(t *testing.T) {
	ignored, err := aghnet.NewIgnoreEngine(nil)
	if err != nil {
		t.Fatal(err)
	}

	l, err := newQueryLog(Config{
		Logger:         slogutil.NewDiscardLogger(),
		Anonymizer:     aghnet.NewIPMut(nil),
		ConfigModified: func() {},
		BaseDir:        t.TempDir(),
		RotationIvl:    timeutil.Day,
		Ignored:        ignored,
		MemSize:        100,
		Enabled:        true,
		FileEnabled:    true,
	})
	if err != nil {
		t.Fatal(err)
	}

	const body = `{"enabled":true,"anonymize_client_ip":false,"interval":86400000,"ignored":["ignored.example"]}`

	wg := &sync.WaitGroup{}
	for range 2 {
		wg.Add(1)
		go func() {
			defer wg.Done()
			for range 300 {
				r := httptest.NewRequest(http.MethodPut, "/control/querylog/config/update", strings.NewReader(body))
				r.Header.Set("Content-Type", "application/json")
				w := httptest.NewRecorder()
				l.handlePutQueryLogConfig(w, r)
				if w.Code != http.StatusOK {
					t.Errorf("got code %d: %s", w.Code, w.Body)

					return
				}
			}
		}()
	}
	wg.Wait()
}
