//go:build verif

// Demonstration for finding R14 (C05): PUT /control/blocked_services/update
// reads len(bsvc.IDs) for its debug log AFTER it has published bsvc as
// d.conf.BlockedServices and released confMu, while the deprecated POST
// /control/blocked_services/set changes d.conf.BlockedServices.IDs in place
// under the lock.
//
// Copy to internal/filtering/ and run from the repository root:
//
//	go1.26 test -tags verif -race -vet=off -count=1 -run 'TestDemoR14' ./internal/filtering/
//
// Fails with "DATA RACE" (handleBlockedServicesSet vs
// handleBlockedServicesUpdate) before the fix, passes after it.
package filtering

import (
	"net/http"
	"net/http/httptest"
	"strings"
	"sync"
	"testing"
	"time"

	"github.com/AdguardTeam/AdGuardHome/internal/schedule"
)

func TestDemoR14_BlockedServicesUpdateVsSet(t *testing.T) {
	d, err := New(&Config{
		DataDir:         t.TempDir(),
		HTTPClient:      &http.Client{Timeout: time.Second},
		ConfigModified:  func() {},
		BlockedServices: &BlockedServices{Schedule: schedule.EmptyWeekly()},
	}, nil)
	if err != nil {
		t.Fatal(err)
	}

	// Empty lists will do: the race is on the slice itself.
	const (
		updBody = `{"ids":[],"schedule":{"time_zone":"UTC"}}`
		setBody = `[]`
	)

	call := func(h http.HandlerFunc, method, body string) {
		r := httptest.NewRequest(method, "/", strings.NewReader(body))
		r.Header.Set("Content-Type", "application/json")
		w := httptest.NewRecorder()
		h(w, r)
		if w.Code != http.StatusOK {
			t.Errorf("got code %d: %s", w.Code, w.Body)
		}
	}

	// The window is the few instructions between the unlock and the log call
	// of the update handler, so use several clients of each endpoint.
	wg := &sync.WaitGroup{}
	for range 4 {
		wg.Add(2)
		go func() {
			defer wg.Done()
			for range 5000 {
				call(d.handleBlockedServicesUpdate, http.MethodPut, updBody)
			}
		}()
		go func() {
			defer wg.Done()
			for range 5000 {
				call(d.handleBlockedServicesSet, http.MethodPost, setBody)
			}
		}()
	}
	wg.Wait()
}
