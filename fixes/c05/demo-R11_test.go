// Demonstration for finding R11 (C05): StatsCtx.Close takes bbolt's writer lock
// (db.Begin(true)) and then currMu.RLock without confMu, while the flush worker
// holds confMu and currMu and then takes the writer lock in flushDB.  If Close
// runs while a flush that has already loaded the database pointer rotates the
// unit, each waits for the other forever.
//
// Copy to internal/stats/ and run from the repository root:
//
//	go1.26 test -vet=off -count=1 -run 'TestDemoR11' ./internal/stats/
//
// The window is two adjacent statements of flushDB, so the test makes many
// attempts; before the fix one of them may hang (reported as a stall), after it
// none can.
package stats

import (
	"path/filepath"
	"sync"
	"sync/atomic"
	"testing"
	"time"

	"github.com/AdguardTeam/golibs/logutil/slogutil"
	"github.com/AdguardTeam/golibs/timeutil"
)

func TestDemoR11_CloseVsFlush(t *testing.T) {
	dir := t.TempDir()
	for i := range 4000 {
		var unitID atomic.Uint32
		unitID.Store(1000)
		s, err := New(Config{
			Logger:            slogutil.NewDiscardLogger(),
			UnitID:            unitID.Load,
			ConfigModified:    func() {},
			ShouldCountClient: func([]string) bool { return true },
			Filename:          filepath.Join(dir, "stats.db"),
			Limit:             timeutil.Day,
			Enabled:           true,
		})
		if err != nil {
			t.Fatal(err)
		}

		start := make(chan struct{})
		wg := &sync.WaitGroup{}
		wg.Add(2)
		go func() {
			defer wg.Done()
			<-start
			// An hour boundary: the unit is rotated and written.
			unitID.Add(1)
			s.flush()
		}()
		go func() {
			defer wg.Done()
			<-start
			_ = s.Close()
		}()
		close(start)

		finished := make(chan struct{})
		go func() { wg.Wait(); close(finished) }()
		select {
		case <-finished:
		case <-time.After(5 * time.Second):
			t.Fatalf("stalled: Close and flush wait for each other (attempt %d)", i)
		}
	}
}
