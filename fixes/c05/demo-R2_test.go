// Demonstration for finding R2 (C05): Server.HandleBefore, which dnsproxy calls
// for every request, reads s.access without serverLock, while POST
// /control/access/set replaces it under the lock.
//
// Copy to internal/dnsforward/ and run from the repository root:
//
//	go1.26 test -race -vet=off -count=1 -run 'TestDemoR2' ./internal/dnsforward/
//
// Fails with "DATA RACE" (HandleBefore vs handleAccessSet) before the fix,
// passes after it.
package dnsforward

import (
	"fmt"
	"net"
	"net/http"
	"net/http/httptest"
	"strings"
	"sync"
	"testing"

	"github.com/AdguardTeam/AdGuardHome/internal/filtering"
	"github.com/AdguardTeam/dnsproxy/proxy"
	"github.com/miekg/dns"
)

func TestDemoR2_HandleBeforeVsAccessSet(t *testing.T) {
	s := createTestServer(t, &filtering.Config{
		BlockingMode: filtering.BlockingModeDefault,
	}, ServerConfig{
		UDPListenAddrs: []*net.UDPAddr{{}},
		TCPListenAddrs: []*net.TCPAddr{{}},
		TLSConf:        &TLSConfig{},
		Config: Config{
			UpstreamMode:     UpstreamModeLoadBalance,
			EDNSClientSubnet: &EDNSClientSubnet{Enabled: false},
			ClientsContainer: EmptyClientsContainer{},
		},
		ConfigModified: func() {},
		ServePlainDNS:  true,
	})

	const n = 500
	wg := &sync.WaitGroup{}
	wg.Add(2)
	done := make(chan struct{})
	go func() {
		defer wg.Done()
		defer close(done)
		for i := range n {
			body := fmt.Sprintf(`{"allowed_clients":[],"disallowed_clients":["10.9.%d.1"],"blocked_hosts":["blocked%d.example"]}`, i%200, i%7)
			r := httptest.NewRequest(http.MethodPost, "/control/access/set", strings.NewReader(body))
			r.Header.Set("Content-Type", "application/json")
			w := httptest.NewRecorder()
			s.handleAccessSet(w, r)
			if w.Code != http.StatusOK {
				t.Errorf("got code %d: %s", w.Code, w.Body)

				return
			}
		}
	}()
	go func() {
		defer wg.Done()
		for {
			select {
			case <-done:
				return
			default:
			}

			req := (&dns.Msg{}).SetQuestion("host.example.", dns.TypeA)
			_ = s.HandleBefore(nil, &proxy.DNSContext{
				Proto: proxy.ProtoUDP,
				Req:   req,
				Addr:  testClientAddrPort,
			})
		}
	}()
	wg.Wait()
}
