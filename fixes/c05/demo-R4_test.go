//go:build verif

// Demonstration for finding R4 (C05): two chains of the DNS request path take
// Server.serverLock for reading while they already hold it for reading:
//
//	processFilteringBeforeRequest > filterDNSRequest > genDNSFilterMessage >
//	genBlockedHost > proxy                     (safe-browsing / parental block host
//	                                            given as a host name, the default)
//	processQueryLogsAndStats > shouldLog > QueryLog.ShouldLog > FindClient >
//	(home) clientsContainer.clientOrArtificial > IsBlockedClient     (every query)
//
// sync.RWMutex blocks new readers once a writer waits, so when any writer
// (POST /control/access/set, /control/dns_config, /control/protection, the
// protection re-enable timer) arrives between the two acquisitions, the request
// goroutine, the writer, and then every other DNS request wait forever.
//
// The tests make the schedule deterministic: the code that runs between the
// two acquisitions (the safe-browsing checker; the client finder of the query
// log) starts the writer and waits until it is pending.
//
// Copy to internal/dnsforward/ and run from the repository root:
//
//	go1.26 test -tags verif -vet=off -count=1 -run 'TestDemoR4' ./internal/dnsforward/
//
// Both tests report a deadlock before the fix and pass after it.
package dnsforward

import (
	"net"
	"net/http"
	"net/http/httptest"
	"strings"
	"sync"
	"testing"
	"time"

	"github.com/AdguardTeam/AdGuardHome/internal/aghnet"
	"github.com/AdguardTeam/AdGuardHome/internal/aghtest"
	"github.com/AdguardTeam/AdGuardHome/internal/filtering"
	"github.com/AdguardTeam/AdGuardHome/internal/querylog"
	"github.com/AdguardTeam/dnsproxy/proxy"
	"github.com/AdguardTeam/dnsproxy/upstream"
	"github.com/AdguardTeam/golibs/logutil/slogutil"
	"github.com/AdguardTeam/golibs/timeutil"
	"github.com/miekg/dns"
)

// demoR4Writer starts POST /control/access/set and returns once it waits for
// s.serverLock, i.e. once new readers are refused, or once it has finished
// (when nobody holds the lock at this point).
func demoR4Writer(t *testing.T, s *Server, once *sync.Once, wg *sync.WaitGroup) {
	once.Do(func() {
		finished := make(chan struct{})
		wg.Add(1)
		go func() {
			defer wg.Done()
			defer close(finished)

			body := `{"allowed_clients":[],"disallowed_clients":["10.9.8.7"],"blocked_hosts":[]}`
			r := httptest.NewRequest(http.MethodPost, "/control/access/set", strings.NewReader(body))
			r.Header.Set("Content-Type", "application/json")
			s.handleAccessSet(httptest.NewRecorder(), r)
		}()

		deadline := time.Now().Add(5 * time.Second)
		for s.serverLock.TryRLock() {
			s.serverLock.RUnlock()

			select {
			case <-finished:
				return
			default:
			}

			if time.Now().After(deadline) {
				t.Error("the writer has not started waiting for the lock")

				return
			}

			time.Sleep(time.Millisecond)
		}
	})
}

// demoR4Wait fails the test if done isn't closed in time.
func demoR4Wait(t *testing.T, done <-chan struct{}, what string) {
	t.Helper()

	select {
	case <-done:
	case <-time.After(5 * time.Second):
		t.Fatalf("deadlock: %s has not returned for 5s with a writer waiting for serverLock", what)
	}
}

func demoR4Server(t *testing.T, filterConf *filtering.Config) (s *Server) {
	return createTestServer(t, filterConf, ServerConfig{
		UDPListenAddrs: []*net.UDPAddr{{}},
		TCPListenAddrs: []*net.TCPAddr{{}},
		TLSConf:        &TLSConfig{},
		Config: Config{
			UpstreamMode:     UpstreamModeLoadBalance,
			EDNSClientSubnet: &EDNSClientSubnet{Enabled: false},
			ClientsContainer: EmptyClientsContainer{},
		},
		ConfigModified: func() {},
		ServePlainDNS:  true,
	})
}

// demoR4Checker is a safe-browsing checker that blocks everything; the real
// one makes a DNS lookup at this point.
type demoR4Checker struct {
	onCheck func()
}

func (c *demoR4Checker) Check(_ string) (block bool, err error) {
	c.onCheck()

	return true, nil
}

func TestDemoR4_BlockedHostWhileWriterWaits(t *testing.T) {
	checker := &demoR4Checker{onCheck: func() {}}
	s := demoR4Server(t, &filtering.Config{
		BlockingMode:          filtering.BlockingModeDefault,
		SafeBrowsingEnabled:   true,
		SafeBrowsingChecker:   checker,
		SafeBrowsingBlockHost: "standard-block.dns.adguard.com",
		SafeBrowsingCacheSize: 1000,
		CacheTime:             30,
	})

	// The replacement host is looked up through the proxy.
	s.conf.UpstreamConfig.Upstreams = []upstream.Upstream{&aghtest.UpstreamMock{
		OnAddress: func() (addr string) { return "upstream.example" },
		OnExchange: func(req *dns.Msg) (resp *dns.Msg, err error) {
			return (&dns.Msg{}).SetReply(req), nil
		},
		OnClose: func() (err error) { return nil },
	}}

	once, wg := &sync.Once{}, &sync.WaitGroup{}
	checker.onCheck = func() { demoR4Writer(t, s, once, wg) }

	req := (&dns.Msg{}).SetQuestion("malware.example.", dns.TypeA)
	dctx := &dnsContext{
		proxyCtx: &proxy.DNSContext{Proto: proxy.ProtoUDP, Req: req, Addr: testClientAddrPort},
		setts: &filtering.Settings{
			ProtectionEnabled:   true,
			FilteringEnabled:    true,
			SafeBrowsingEnabled: true,
		},
		protectionEnabled: true,
	}

	done := make(chan struct{})
	go func() {
		defer close(done)

		_ = s.processFilteringBeforeRequest(dctx)
	}()

	demoR4Wait(t, done, "processFilteringBeforeRequest")
	wg.Wait()
}

func TestDemoR4_QueryLogWhileWriterWaits(t *testing.T) {
	s := demoR4Server(t, &filtering.Config{BlockingMode: filtering.BlockingModeDefault})

	once, wg := &sync.Once{}, &sync.WaitGroup{}
	ignored, err := aghnet.NewIgnoreEngine(nil)
	if err != nil {
		t.Fatal(err)
	}

	ql, err := querylog.New(querylog.Config{
		Logger:         slogutil.NewDiscardLogger(),
		Anonymizer:     aghnet.NewIPMut(nil),
		ConfigModified: func() {},
		// What home.clientsContainer.findMultiple does for an unknown client:
		// it asks the DNS server whether the client is blocked.
		FindClient: func(ids []string) (c *querylog.Client, err error) {
			demoR4Writer(t, s, once, wg)
			c = &querylog.Client{}
			c.Disallowed, c.DisallowedRule = s.IsBlockedClient(testClientAddrPort.Addr(), "")

			return c, nil
		},
		BaseDir:     t.TempDir(),
		RotationIvl: timeutil.Day,
		Ignored:     ignored,
		MemSize:     100,
		Enabled:     true,
	})
	if err != nil {
		t.Fatal(err)
	}

	s.queryLog = ql

	req := (&dns.Msg{}).SetQuestion("host.example.", dns.TypeA)
	resp := (&dns.Msg{}).SetReply(req)
	dctx := &dnsContext{
		proxyCtx:  &proxy.DNSContext{Proto: proxy.ProtoUDP, Req: req, Res: resp, Addr: testClientAddrPort},
		result:    &filtering.Result{},
		startTime: time.Now(),
	}

	done := make(chan struct{})
	go func() {
		defer close(done)

		_ = s.processQueryLogsAndStats(dctx)
	}()

	demoR4Wait(t, done, "processQueryLogsAndStats")
	wg.Wait()
}
