// Demonstration for finding R6 (C05): Storage.ReloadARP (called by the ARP
// updating goroutine and by the SIGHUP handler) reads s.arpDB without s.mu,
// while addFromSystemARP replaces it under s.mu when refreshing fails.
//
// Copy to internal/client/ and run from the repository root:
//
//	go1.26 test -race -vet=off -count=1 -run 'TestDemoR6' ./internal/client/
//
// Fails with "DATA RACE" (ReloadARP vs addFromSystemARP) before the fix,
// passes after it.
package client_test

import (
	"context"
	"errors"
	"sync"
	"sync/atomic"
	"testing"

	"github.com/AdguardTeam/AdGuardHome/internal/arpdb"
	"github.com/AdguardTeam/AdGuardHome/internal/client"
	"github.com/AdguardTeam/golibs/logutil/slogutil"
	"github.com/AdguardTeam/golibs/timeutil"
)

// demoR6ARPDB is an [arpdb.Interface] that starts failing on demand.
type demoR6ARPDB struct {
	fail atomic.Bool
}

func (a *demoR6ARPDB) Refresh() (err error) {
	if a.fail.Load() {
		return errors.New("arp: refreshing failed")
	}

	return nil
}

func (a *demoR6ARPDB) Neighbors() (ns []arpdb.Neighbor) { return nil }

func TestDemoR6_ReloadARP(t *testing.T) {
	ctx := context.Background()
	for range 200 {
		a := &demoR6ARPDB{}
		s, err := client.NewStorage(ctx, &client.StorageConfig{
			Logger: slogutil.NewDiscardLogger(),
			Clock:  timeutil.SystemClock{},
			DHCP:   client.EmptyDHCP{},
			ARPDB:  a,
		})
		if err != nil {
			t.Fatal(err)
		}

		// The ARP database breaks; the periodic update and a SIGHUP reload
		// the ARP data at the same time.
		a.fail.Store(true)
		start := make(chan struct{})
		wg := &sync.WaitGroup{}
		for range 4 {
			wg.Add(1)
			go func() {
				defer wg.Done()
				<-start
				s.ReloadARP(ctx)
			}()
		}
		close(start)
		wg.Wait()
	}
}
