//go:build verif

// Demonstration for finding R5 (C05): POST /control/tls/validate (and
// /control/tls/configure) take the lock of the configuration while holding
// tlsManager.mu (validateTLSSettings), and configuration.write, with which
// every modifying admin operation ends (onConfigModified), takes tlsManager.mu
// (tlsMgr.config) while holding the lock of the configuration.
//
// Copy to internal/home/ and run from the repository root:
//
//	go1.26 test -tags verif -vet=off -count=1 -run 'TestDemoR5' ./internal/home/
//
// Before the fix the two wait for each other within a few iterations (the test
// reports the stall); after it both finish.
package home

import (
	"context"
	"net/http"
	"net/http/httptest"
	"path/filepath"
	"strings"
	"sync"
	"sync/atomic"
	"testing"
	"time"

	"github.com/AdguardTeam/AdGuardHome/internal/client"
	"github.com/AdguardTeam/golibs/logutil/slogutil"
	"github.com/AdguardTeam/golibs/timeutil"
)

func TestDemoR5_TLSValidateVsConfigWrite(t *testing.T) {
	ctx := context.Background()
	logger := slogutil.NewDiscardLogger()
	dir := t.TempDir()

	globalContext.workDir = dir
	globalContext.confFilePath = filepath.Join(dir, "AdGuardHome.yaml")

	var err error
	globalContext.clients.storage, err = client.NewStorage(ctx, &client.StorageConfig{
		Logger: logger,
		Clock:  timeutil.SystemClock{},
		DHCP:   client.EmptyDHCP{},
	})
	if err != nil {
		t.Fatal(err)
	}

	m, err := newTLSManager(ctx, &tlsManagerConfig{
		logger:         logger,
		configModified: func() {},
		tlsSettings:    tlsConfigSettings{},
		servePlainDNS:  true,
	})
	if err != nil {
		t.Fatal(err)
	}

	const n = 500

	var ops atomic.Int64
	wg := &sync.WaitGroup{}
	wg.Add(2)
	go func() {
		defer wg.Done()

		const body = `{"enabled":true,"port_https":0,"port_dns_over_tls":0,"port_dns_over_quic":0}`
		for range n {
			r := httptest.NewRequest(http.MethodPost, "/control/tls/validate", strings.NewReader(body))
			r.Header.Set("Content-Type", "application/json")
			m.handleTLSValidate(httptest.NewRecorder(), r)
			ops.Add(1)
		}
	}()
	go func() {
		defer wg.Done()

		for range n {
			// What onConfigModified does.
			_ = config.write(m)
			ops.Add(1)
		}
	}()

	finished := make(chan struct{})
	go func() { wg.Wait(); close(finished) }()

	last, lastChange := int64(-1), time.Now()
	for {
		select {
		case <-finished:
			return
		case <-time.After(100 * time.Millisecond):
		}

		if cur := ops.Load(); cur != last {
			last, lastChange = cur, time.Now()
		} else if time.Since(lastChange) > 5*time.Second {
			t.Fatalf("deadlock: neither tls/validate nor the configuration write has returned for 5s (%d of %d done)", cur, 2*n)
		}
	}
}
