// Demonstration for finding R13 (C05): two overlapping resets of the
// statistics (POST /control/stats_reset; also the legacy POST
// /control/stats_config with a zero interval) both run StatsCtx.clear, which
// closes, removes and reopens the database.  The second one can see s.db == nil
// in between, skip closing, and open the file that the first has just reopened
// and keeps open: bbolt.Open then waits for the file lock forever (the handler
// never returns; through the legacy handler the wait is made under confMu and
// stalls every DNS request in ShouldCount).
//
// Copy to internal/stats/ and run from the repository root:
//
//	go1.26 test -vet=off -count=1 -run 'TestDemoR13' ./internal/stats/
//
// Before the fix some reset never returns (the test reports the stall, usually
// within a few seconds); after it all of them return.
package stats

import (
	"net/http"
	"net/http/httptest"
	"path/filepath"
	"sync"
	"sync/atomic"
	"testing"
	"time"

	"github.com/AdguardTeam/golibs/logutil/slogutil"
	"github.com/AdguardTeam/golibs/timeutil"
)

func TestDemoR13_OverlappingResets(t *testing.T) {
	s, err := New(Config{
		Logger:            slogutil.NewDiscardLogger(),
		ConfigModified:    func() {},
		ShouldCountClient: func([]string) bool { return true },
		Filename:          filepath.Join(t.TempDir(), "stats.db"),
		Limit:             timeutil.Day,
		Enabled:           true,
	})
	if err != nil {
		t.Fatal(err)
	}

	const (
		workers = 4
		resets  = 3000
	)

	var done atomic.Int64
	wg := &sync.WaitGroup{}
	for range workers {
		wg.Add(1)
		go func() {
			defer wg.Done()
			for range resets {
				r := httptest.NewRequest(http.MethodPost, "/control/stats_reset", nil)
				s.handleStatsReset(httptest.NewRecorder(), r)
				done.Add(1)
			}
		}()
	}

	finished := make(chan struct{})
	go func() { wg.Wait(); close(finished) }()

	last, lastChange := int64(-1), time.Now()
	for {
		select {
		case <-finished:
			return
		case <-time.After(100 * time.Millisecond):
		}

		if cur := done.Load(); cur != last {
			last, lastChange = cur, time.Now()
		} else if time.Since(lastChange) > 5*time.Second {
			t.Fatalf("stalled: no reset has returned for 5s after %d of %d", cur, workers*resets)
		}
	}
}
