//go:build verif

// Demonstration for finding R7 (C05), the part that the admin API reaches
// without restarting the server: POST /control/dns_config writes
// conf.EnableDNSSEC and conf.AAAADisabled under serverLock (setConfig) while
// every DNS request reads them without the lock (processInitial, setReqAD,
// setRespAD, filterHTTPSRecords).
//
// Copy to internal/dnsforward/ and run from the repository root:
//
//	go1.26 test -tags verif -race -vet=off -count=1 -run 'TestDemoR7' ./internal/dnsforward/
//
// Fails with "DATA RACE" (setReqAD / setRespAD / processInitial vs setIfNotNil)
// before the fix, passes after it.
package dnsforward

import (
	"fmt"
	"net"
	"net/http"
	"net/http/httptest"
	"strings"
	"sync"
	"testing"

	"github.com/AdguardTeam/AdGuardHome/internal/filtering"
	"github.com/AdguardTeam/dnsproxy/proxy"
	"github.com/miekg/dns"
)

func TestDemoR7_RequestPathVsDNSConfig(t *testing.T) {
	s := createTestServer(t, &filtering.Config{
		BlockingMode: filtering.BlockingModeDefault,
	}, ServerConfig{
		UDPListenAddrs: []*net.UDPAddr{{}},
		TCPListenAddrs: []*net.TCPAddr{{}},
		TLSConf:        &TLSConfig{},
		Config: Config{
			UpstreamMode:     UpstreamModeLoadBalance,
			EDNSClientSubnet: &EDNSClientSubnet{Enabled: false},
			ClientsContainer: EmptyClientsContainer{},
		},
		ConfigModified: func() {},
		ServePlainDNS:  true,
	})

	wg := &sync.WaitGroup{}
	wg.Add(2)
	done := make(chan struct{})
	go func() {
		defer wg.Done()
		defer close(done)

		for i := range 300 {
			body := fmt.Sprintf(`{"dnssec_enabled":%v,"disable_ipv6":%v}`, i%2 == 0, i%2 == 1)
			r := httptest.NewRequest(http.MethodPost, "/control/dns_config", strings.NewReader(body))
			r.Header.Set("Content-Type", "application/json")
			w := httptest.NewRecorder()
			s.handleSetConfig(w, r)
			if w.Code != http.StatusOK {
				t.Errorf("got code %d: %s", w.Code, w.Body)

				return
			}
		}
	}()
	go func() {
		defer wg.Done()

		for {
			select {
			case <-done:
				return
			default:
			}

			// What every request does.
			req := (&dns.Msg{}).SetQuestion("host.example.", dns.TypeAAAA)
			pctx := &proxy.DNSContext{Proto: proxy.ProtoUDP, Req: req, Addr: testClientAddrPort}
			_ = s.processInitial(&dnsContext{proxyCtx: pctx})
			wantsDNSSEC := s.setReqAD(req)
			pctx.Res = (&dns.Msg{}).SetReply(req)
			s.setRespAD(pctx, wantsDNSSEC)
		}
	}()
	wg.Wait()
}
