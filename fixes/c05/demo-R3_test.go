//go:build linux || darwin || freebsd || openbsd

// Demonstration for finding R3 (C05): the DHCP lease database is stored by
// server.dbStore, which reads the lease slices of the DHCPv4 and DHCPv6 servers
// through getLeasesRef without their leasesLock (for DHCPv4 after the lock has
// been released, the deferred notification runs after the deferred unlock),
// while the HTTP API and the DHCP handlers change the leases under that lock.
//
// Copy to internal/dhcpd/ and run from the repository root:
//
//	go1.26 test -race -vet=off -count=1 -run 'TestDemoR3' ./internal/dhcpd/
//
// Fails with "DATA RACE" (dbStore/fromLease/getLeasesRef vs addLease and the
// like) before the fix, passes after it.
package dhcpd

import (
	"fmt"
	"net"
	"net/netip"
	"path/filepath"
	"sync"
	"testing"

	"github.com/AdguardTeam/AdGuardHome/internal/dhcpsvc"
)

func TestDemoR3_StoreLeasesVsChanges(t *testing.T) {
	s := &server{conf: &ServerConfig{
		ConfigModified: func() {},
		Enabled:        true,
		dbFilePath:     filepath.Join(t.TempDir(), dataFilename),
	}}

	var err error
	s.srv4, err = v4Create(&V4ServerConf{
		Enabled:       true,
		RangeStart:    netip.MustParseAddr("192.168.10.100"),
		RangeEnd:      netip.MustParseAddr("192.168.10.200"),
		GatewayIP:     netip.MustParseAddr("192.168.10.1"),
		SubnetMask:    netip.MustParseAddr("255.255.255.0"),
		LeaseDuration: 3600,
		notify:        s.onNotify,
	})
	if err != nil {
		t.Fatal(err)
	}

	s.srv6, err = v6Create(V6ServerConf{
		Enabled:       true,
		RangeStart:    net.ParseIP("2001::1"),
		LeaseDuration: 3600,
		notify:        s.onNotify,
	})
	if err != nil {
		t.Fatal(err)
	}

	// Two admin API clients adding and removing static leases, IPv4 and IPv6;
	// every change stores the database.
	wg := &sync.WaitGroup{}
	for g := range 2 {
		wg.Add(1)
		go func() {
			defer wg.Done()
			for i := range 60 {
				k := g*16 + i%8
				mac := net.HardwareAddr{0xAA, 0xBB, 0xCC, 0x00, byte(g), byte(k)}
				l4 := &dhcpsvc.Lease{HWAddr: mac, IP: netip.AddrFrom4([4]byte{192, 168, 10, byte(10 + k)}), Hostname: fmt.Sprintf("static-%d", k)}
				l6 := &dhcpsvc.Lease{HWAddr: mac, IP: netip.MustParseAddr(fmt.Sprintf("2001::1:%x", 16+k)), Hostname: fmt.Sprintf("static6-%d", k)}
				if (i/8)%2 == 0 {
					_ = s.srv4.AddStaticLease(l4)
					_ = s.srv6.AddStaticLease(l6)
				} else {
					_ = s.srv4.RemoveStaticLease(l4)
					_ = s.srv6.RemoveStaticLease(l6)
				}
			}
		}()
	}
	wg.Wait()
}
