// Demonstration for finding R12 (C05): the filter refresh worker
// (periodicallyRefreshFilters, called by updatesLoop on its timer) reads
// conf.FiltersUpdateIntervalHours without a lock while POST
// /control/filtering/config writes it under conf.filtersMu.
//
// Copy to internal/filtering/ and run from the repository root:
//
//	go1.26 test -race -vet=off -count=1 -run 'TestDemoR12' ./internal/filtering/
//
// Fails with "DATA RACE" (periodicallyRefreshFilters vs handleFilteringConfig)
// before the fix, passes after it.
package filtering

import (
	"fmt"
	"net/http"
	"net/http/httptest"
	"strings"
	"sync"
	"testing"
	"time"
)

func TestDemoR12_RefreshWorkerVsConfig(t *testing.T) {
	d, err := New(&Config{
		DataDir:                    t.TempDir(),
		HTTPClient:                 &http.Client{Timeout: time.Second},
		ConfigModified:             func() {},
		FilteringEnabled:           true,
		FiltersUpdateIntervalHours: 24,
	}, nil)
	if err != nil {
		t.Fatal(err)
	}
	// Start the updates loop, which receives the filters to initialize.
	d.Start()
	t.Cleanup(d.Close)

	const n = 300
	wg := &sync.WaitGroup{}
	wg.Add(2)
	go func() {
		defer wg.Done()
		for i := range n {
			body := fmt.Sprintf(`{"enabled":true,"interval":%d}`, []int{1, 12, 24}[i%3])
			r := httptest.NewRequest(http.MethodPost, "/control/filtering/config", strings.NewReader(body))
			r.Header.Set("Content-Type", "application/json")
			d.handleFilteringConfig(httptest.NewRecorder(), r)
		}
	}()
	go func() {
		defer wg.Done()
		for range n {
			// What updatesLoop does when its timer fires.
			_ = d.periodicallyRefreshFilters(time.Second)
		}
	}()
	wg.Wait()
}
