// Demonstration for finding R8 (C05): POST /control/filtering/set_rules assigns
// conf.UserRules without any lock while GET /control/filtering/status (and the
// configuration writer, and EnableFilters) read it under conf.filtersMu.
//
// Copy to internal/filtering/ and run from the repository root:
//
//	go1.26 test -race -vet=off -count=1 -run 'TestDemoR8' ./internal/filtering/
//
// Fails with "DATA RACE" (handleFilteringSetRules vs handleFilteringStatus)
// before the fix, passes after it.
package filtering

import (
	"fmt"
	"net/http"
	"net/http/httptest"
	"strings"
	"sync"
	"testing"
	"time"
)

func TestDemoR8_SetRulesVsStatus(t *testing.T) {
	d, err := New(&Config{
		DataDir:                    t.TempDir(),
		HTTPClient:                 &http.Client{Timeout: time.Second},
		ConfigModified:             func() {},
		FilteringEnabled:           true,
		FiltersUpdateIntervalHours: 24,
		UserRules:                  []string{"||custom.example^"},
	}, nil)
	if err != nil {
		t.Fatal(err)
	}
	// Start the updates loop, which receives the filters to initialize.
	d.Start()
	t.Cleanup(d.Close)

	const n = 300
	wg := &sync.WaitGroup{}
	wg.Add(2)
	go func() {
		defer wg.Done()
		for i := range n {
			body := fmt.Sprintf(`{"rules":["||r%d.example^","||custom.example^"]}`, i)
			r := httptest.NewRequest(http.MethodPost, "/control/filtering/set_rules", strings.NewReader(body))
			r.Header.Set("Content-Type", "application/json")
			d.handleFilteringSetRules(httptest.NewRecorder(), r)
		}
	}()
	go func() {
		defer wg.Done()
		for range n {
			r := httptest.NewRequest(http.MethodGet, "/control/filtering/status", nil)
			d.handleFilteringStatus(httptest.NewRecorder(), r)
		}
	}()
	wg.Wait()
}
