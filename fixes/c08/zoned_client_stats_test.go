//go:build verif

package home

import (
	"context"
	"net"
	"net/netip"
	"testing"

	"github.com/AdguardTeam/AdGuardHome/internal/client"
	"github.com/AdguardTeam/AdGuardHome/internal/filtering"
	"github.com/AdguardTeam/golibs/logutil/slogutil"
	"github.com/stretchr/testify/assert"
	"github.com/stretchr/testify/require"
)

// vfNoBlock is the access-list stub the query log's finder needs.
type vfNoBlock struct{}

func (vfNoBlock) IsBlockedClient(_ netip.Addr, _ string) (blocked bool, rule string) { return false, "" }

// TestVerifZonedClientIgnoredInStatistics demonstrates C08's zoned-client
// finding: a persistent client configured by a zoned link-local address with
// both ignore flags.  dnsforward.processQueryLogsAndStats builds the id list
// from net.IP(addr.AsSlice()).String(), which has no zone, so the request of
// fe80::1%eth0 is looked up as "fe80::1".  The query log's finder finds the
// client (FindLoose), the statistics' checker must find it as well.
func TestVerifZonedClientIgnoredInStatistics(t *testing.T) {
	clients := &clientsContainer{testing: true, clientChecker: vfNoBlock{}}
	objs := []*clientObject{{
		Name:                     "zoned",
		IDs:                      []string{"fe80::1%eth0"},
		IgnoreQueryLog:           true,
		IgnoreStatistics:         true,
		UseGlobalSettings:        true,
		UseGlobalBlockedServices: true,
	}, {
		Name:                     "plain",
		IDs:                      []string{"192.168.1.5"},
		IgnoreStatistics:         true,
		UseGlobalSettings:        true,
		UseGlobalBlockedServices: true,
	}}
	err := clients.Init(
		context.Background(),
		slogutil.NewDiscardLogger(),
		objs,
		client.EmptyDHCP{},
		nil,
		nil,
		&filtering.Config{},
		newSignalHandler(nil, nil),
	)
	require.NoError(t, err)

	// What processQueryLogsAndStats hands to both modules for a request from
	// fe80::1%eth0.
	peer := netip.MustParseAddr("fe80::1%eth0")
	ids := []string{net.IP(peer.AsSlice()).String()}
	require.Equal(t, []string{"fe80::1"}, ids)

	c, err := clients.findMultiple(ids)
	require.NoError(t, err)
	require.NotNil(t, c)
	assert.True(t, c.IgnoreQueryLog, "the query log ignores the zoned client")

	assert.False(t, clients.shouldCountClient(ids), "the statistics must ignore the zoned client as well")

	// Unchanged behaviour around it.
	assert.False(t, clients.shouldCountClient([]string{"192.168.1.5"}))
	assert.True(t, clients.shouldCountClient([]string{"192.168.1.6"}))
	assert.True(t, clients.shouldCountClient([]string{"some-clientid", "fe80::2"}))
}
