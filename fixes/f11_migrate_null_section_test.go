//go:build verif

package configmigrate_test

import (
	"testing"

	"github.com/AdguardTeam/AdGuardHome/internal/configmigrate"
)

// F11 (C13): upgrading a configuration never panics, also when a section is
// present but null.
func TestVerifF11NullSection(t *testing.T) {
	for _, body := range []string{
		"schema_version: 6\ndhcp:\n",
		"schema_version: 11\ndns:\n",
		"schema_version: 19\nstatistics: ~\n",
		"schema_version: 24\nhttp:\n",
		"schema_version: 28\nfilters: []\nfiltering:\n",
		"schema_version: 12\ndns:\n  local_domain_name: lan\ndhcp:\n",
	} {
		func() {
			defer func() {
				if v := recover(); v != nil {
					t.Errorf("Migrate(%q) panicked: %v", body, v)
				}
			}()
			m := configmigrate.New(&configmigrate.Config{WorkingDir: t.TempDir(), DataDir: t.TempDir()})
			_, _, _ = m.Migrate([]byte(body), configmigrate.LastSchemaVersion)
		}()
	}
}
