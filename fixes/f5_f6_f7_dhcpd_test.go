//go:build verif && linux

package dhcpd

import (
	"net"
	"net/netip"
	"testing"

	"github.com/AdguardTeam/AdGuardHome/internal/dhcpsvc"
	"github.com/insomniacslk/dhcp/dhcpv4"
)

func vfSrv(t *testing.T) *v4Server {
	s, err := v4Create(defaultV4ServerConf())
	if err != nil {
		t.Fatal(err)
	}

	return s
}

func vfDiscover(t *testing.T, s *v4Server, mac net.HardwareAddr) netip.Addr {
	req, err := dhcpv4.NewDiscovery(mac)
	if err != nil {
		t.Fatal(err)
	}
	resp, err := dhcpv4.NewReplyFromRequest(req)
	if err != nil {
		t.Fatal(err)
	}
	if rc := s.handle(req, resp); rc != 1 {
		t.Fatalf("discover rc=%d", rc)
	}
	a, _ := netip.AddrFromSlice(resp.YourIPAddr.To4())

	return a
}

func vfCountIP(s *v4Server, ip netip.Addr) (n int) {
	for _, l := range s.leases {
		if l.IP == ip {
			n++
		}
	}

	return n
}

// F5 (C10): a static lease for the address a dynamic client holds must evict
// that dynamic lease even when another dynamic lease of the same MAC precedes it.
func TestVerifF5RmDynamicSkip(t *testing.T) {
	s := vfSrv(t)
	m1 := net.HardwareAddr{1, 1, 1, 1, 1, 1}
	m2 := net.HardwareAddr{2, 2, 2, 2, 2, 2}
	vfDiscover(t, s, m1)
	ip2 := vfDiscover(t, s, m2)
	err := s.AddStaticLease(&dhcpsvc.Lease{HWAddr: m1, IP: ip2, Hostname: "st"})
	if err != nil {
		t.Fatal(err)
	}
	if n := vfCountIP(s, ip2); n != 1 {
		t.Errorf("address %s is held by %d leases: %v", ip2, n, s.leases)
	}
}

// F6 (C10): a static lease outside the pool must not consume a pool address.
func TestVerifF6StaticOutsidePool(t *testing.T) {
	s := vfSrv(t)
	err := s.AddStaticLease(&dhcpsvc.Lease{
		HWAddr: net.HardwareAddr{3, 3, 3, 3, 3, 3}, IP: netip.MustParseAddr("192.168.10.50"), Hostname: "out",
	})
	if err != nil {
		t.Fatal(err)
	}
	got := vfDiscover(t, s, net.HardwareAddr{4, 4, 4, 4, 4, 4})
	if got != DefaultRangeStart {
		t.Errorf("first offer is %s, want pool start %s", got, DefaultRangeStart)
	}
}

// F7 (C10): DECLINE must leave each lease in the table exactly once and the
// stored database must reflect the table after the change.
func TestVerifF7DeclineDouble(t *testing.T) {
	conf := defaultV4ServerConf()
	var s *v4Server
	var stored []int
	conf.notify = func(flags uint32) {
		if flags == LeaseChangedDBStore {
			stored = append(stored, len(s.leases))
		}
	}
	srv, err := v4Create(conf)
	if err != nil {
		t.Fatal(err)
	}
	s = srv
	mac := net.HardwareAddr{5, 5, 5, 5, 5, 5}
	ip := vfDiscover(t, s, mac)
	req, _ := dhcpv4.New(dhcpv4.WithMessageType(dhcpv4.MessageTypeDecline), dhcpv4.WithHwAddr(mac),
		dhcpv4.WithOption(dhcpv4.OptRequestedIPAddress(ip.AsSlice())))
	resp, _ := dhcpv4.NewReplyFromRequest(req)
	stored = nil
	if rc := s.handle(req, resp); rc != 1 {
		t.Fatalf("decline rc=%d", rc)
	}
	seen := map[*dhcpsvc.Lease]int{}
	for _, l := range s.leases {
		seen[l]++
		if seen[l] > 1 {
			t.Errorf("lease %v is in the table %d times", l, seen[l])
		}
	}
	if len(stored) == 0 || stored[len(stored)-1] != len(s.leases) {
		t.Errorf("database stored with %v leases, table has %d after the decline", stored, len(s.leases))
	}
}
