//go:build verif

package hashprefix

import (
	"testing"
	"time"

	"github.com/AdguardTeam/AdGuardHome/internal/aghtest"
)

// F9 (C19): answering from the cache must give the verdict a fresh lookup
// gives.  With a cache too small for the positive item, storeInCache wrote a
// negative entry for the prefix of a blocked name.
func TestVerifF9SmallCacheNegative(t *testing.T) {
	const host = "bad.example"
	c := New(&Config{
		Upstream:  aghtest.NewBlockUpstream(host, true),
		CacheTime: 10 * time.Minute,
		CacheSize: 41,
		TXTSuffix: "sb.dns.adguard.com.",
	})
	first, err := c.Check(host)
	if err != nil {
		t.Fatal(err)
	}
	second, err := c.Check(host)
	if err != nil {
		t.Fatal(err)
	}
	if !first || !second {
		t.Errorf("blocked host: fresh verdict %v, verdict on the second check %v; want true, true", first, second)
	}
}
