//go:build verif

package filtering

import (
	"net/http"
	"sync/atomic"
	"testing"

	"github.com/miekg/dns"
)

// F23 (C15): a failed refresh leaves the rules in force as they were.  Before
// the fix, re-enabling a list whose server returned an empty body did not
// rebuild the engine (filterSetProperties overwrote shouldRestart with
// update's "not updated"), so the list's old file came into force later,
// during a refresh that FAILED for that very list.
func TestVerifF23ReenableWithoutRebuild(t *testing.T) {
	d := newDNSFilter(t)
	d.SetEnabled(true)
	var l0Body, l1Body atomic.Value
	var l0Status, l1Status atomic.Int64
	l0Body.Store("||w0.l0.example^\n")
	l1Body.Store("")
	l0Status.Store(200)
	l1Status.Store(404)
	srv := func(body *atomic.Value, status *atomic.Int64) string {
		return serveHTTPLocally(t, http.HandlerFunc(func(w http.ResponseWriter, _ *http.Request) {
			w.WriteHeader(int(status.Load()))
			_, _ = w.Write([]byte(body.Load().(string)))
		}))
	}
	u0, u1 := srv(&l0Body, &l0Status), srv(&l1Body, &l1Status)
	d.conf.Filters = []FilterYAML{
		{Enabled: true, URL: u0, Name: "l0", Filter: Filter{ID: 100}},
		{Enabled: true, URL: u1, Name: "l1", Filter: Filter{ID: 101}},
	}
	blocked := func() bool {
		res, err := d.CheckHost("w0.l0.example", dns.TypeA, &Settings{ProtectionEnabled: true, FilteringEnabled: true})
		if err != nil {
			t.Fatal(err)
		}

		return res.IsFiltered
	}
	setProps := func(enabled bool) {
		restart, err := d.filterSetProperties(u0, FilterYAML{Enabled: enabled, URL: u0, Name: "l0"}, false)
		if err != nil {
			t.Fatal(err)
		}
		if restart {
			d.EnableFilters(false)
		}
	}

	d.tryRefreshFilters(true, false, true) // l0 stored, l1 fails
	if !blocked() {
		t.Fatal("setup: l0 not in force")
	}
	l0Body.Store("")
	setProps(false) // disable l0
	setProps(true)  // re-enable while the server returns an empty list
	before := blocked()
	l0Status.Store(404) // the refresh FAILS for l0 …
	l1Status.Store(200) // … and updates l1, which rebuilds the engine
	l1Body.Store("||w0.l1.example^\n")
	d.tryRefreshFilters(true, false, true)
	if after := blocked(); after != before {
		t.Errorf("w0.l0.example blocked=%v before the refresh that failed for l0, blocked=%v after it", before, after)
	}
}
