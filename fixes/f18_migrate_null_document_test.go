//go:build verif

package configmigrate_test

import (
	"testing"

	"github.com/AdguardTeam/AdGuardHome/internal/configmigrate"
)

// F18 (C13): upgrading never panics, also when the YAML document is null.
func TestVerifF18NullDocument(t *testing.T) {
	for _, body := range []string{"---\n", "~\n", "null\n"} {
		func() {
			defer func() {
				if v := recover(); v != nil {
					t.Errorf("Migrate(%q) panicked: %v", body, v)
				}
			}()
			m := configmigrate.New(&configmigrate.Config{WorkingDir: t.TempDir(), DataDir: t.TempDir()})
			_, _, _ = m.Migrate([]byte(body), configmigrate.LastSchemaVersion)
		}()
	}
}
