// Demonstration for session_expiry_serial_compare.patch (property C12, known
// finding "uint32 session horizon").
//
// Copy to internal/home/horizon_demo_test.go and run from the repository root:
//
//	go1.26 test -vet=off -count=1 -run 'TestDemoC12Horizon' ./internal/home/
//
// It FAILS on the tree without the patch and PASSES with it.
package home

import (
	"path/filepath"
	"testing"
	"testing/synctest"
	"time"

	"github.com/stretchr/testify/assert"
	"github.com/stretchr/testify/require"
)

func TestDemoC12Horizon(t *testing.T) {
	users := []webUser{{
		Name:         "name",
		PasswordHash: "$2y$05$..vyzAECIhJPfaQiOK17IukcQnqEgKJHy0iETyYqxn3YXJl8yZuo2",
	}}

	t.Run("expired_session_does_not_come_back", func(t *testing.T) {
		synctest.Test(t, func(t *testing.T) {
			fn := filepath.Join(t.TempDir(), "sessions.db")
			a := InitAuth(fn, users, 1000, nil, nil)
			require.NotNil(t, a)

			// 2000 s before the 32-bit clock wraps (2106-02-07T06:28:16Z).
			time.Sleep(time.Duration(1<<32-946684800-2000) * time.Second)
			c, err := a.newCookie(loginJSON{Name: "name", Password: "password"}, "1.2.3.4")
			require.NoError(t, err)
			assert.Equal(t, checkSessionOK, a.checkSession(c.Value))

			// 3000 s later the session has been expired for 2000 s.
			a.Close()
			a = InitAuth(fn, users, 1000, nil, nil)
			require.NotNil(t, a)
			assert.Equal(t, checkSessionOK, a.checkSession(c.Value), "still valid right after a restart")

			time.Sleep(3000 * time.Second)
			assert.NotEqual(t, checkSessionOK, a.checkSession(c.Value), "expired session accepted after the clock wrapped")
			a.Close()

			a = InitAuth(fn, users, 1000, nil, nil)
			require.NotNil(t, a)
			assert.NotEqual(t, checkSessionOK, a.checkSession(c.Value), "expired session loaded after a restart")
			a.Close()
		})
	})

	t.Run("wrapped_expiry_still_works", func(t *testing.T) {
		synctest.Test(t, func(t *testing.T) {
			a := InitAuth(filepath.Join(t.TempDir(), "sessions.db"), users, 1000, nil, nil)
			require.NotNil(t, a)

			// 500 s before the wrap: the stored expiration time wraps to 500.
			time.Sleep(time.Duration(1<<32-946684800-500) * time.Second)
			c, err := a.newCookie(loginJSON{Name: "name", Password: "password"}, "1.2.3.4")
			require.NoError(t, err)
			assert.Equal(t, checkSessionOK, a.checkSession(c.Value), "fresh session refused")

			time.Sleep(999 * time.Second)
			assert.Equal(t, checkSessionOK, a.checkSession(c.Value), "session refused before its expiry")

			time.Sleep(2 * time.Second)
			assert.NotEqual(t, checkSessionOK, a.checkSession(c.Value))
			a.Close()
		})
	})
}
