//go:build verif

// Demonstration for basic_auth_throttle.patch (property C12): HTTP Basic
// authentication is a login attempt and must be subject to the login rate
// limiter.  Copy to internal/home/basic_auth_demo_test.go and run from the
// repository root:
//
//	go1.26 test -tags verif -vet=off -count=1 -run 'TestDemoC12BasicAuthThrottle' ./internal/home/
//
// It FAILS on the tree without the patch and PASSES with it.
package home

import (
	"net/http"
	"net/http/httptest"
	"path/filepath"
	"strings"
	"testing"
	"time"

	"github.com/AdguardTeam/golibs/netutil"
	"github.com/stretchr/testify/assert"
	"github.com/stretchr/testify/require"
	"golang.org/x/crypto/bcrypt"
)

func TestDemoC12BasicAuthThrottle(t *testing.T) {
	prevAuth, prevMux, prevWeb := globalContext.auth, globalContext.mux, globalContext.web
	t.Cleanup(func() { globalContext.auth, globalContext.mux, globalContext.web = prevAuth, prevMux, prevWeb })

	hash, err := bcrypt.GenerateFromPassword([]byte("secret"), bcrypt.MinCost)
	require.NoError(t, err)

	rl := newAuthRateLimiter(15*time.Minute, 2)
	users := []webUser{{Name: "u", PasswordHash: string(hash)}}
	globalContext.auth = InitAuth(filepath.Join(t.TempDir(), "sessions.db"), users, 3600, rl, netutil.SliceSubnetSet(nil))
	require.NotNil(t, globalContext.auth)
	t.Cleanup(globalContext.auth.Close)

	globalContext.mux = http.NewServeMux()
	globalContext.web = &webAPI{}
	RegisterAuthHandlers()

	const peer = "10.0.0.9:1234"
	login := func(pass string) (code int) {
		body := strings.NewReader(`{"name":"u","password":"` + pass + `"}`)
		r := httptest.NewRequest(http.MethodPost, "/control/login", body)
		r.Header.Set("Content-Type", "application/json")
		r.RemoteAddr = peer
		w := httptest.NewRecorder()
		globalContext.mux.ServeHTTP(w, r)

		return w.Code
	}
	basic := func(pass string) (passed bool) {
		h := optionalAuth(func(http.ResponseWriter, *http.Request) { passed = true })
		r := httptest.NewRequest(http.MethodGet, "/control/status", nil)
		r.RemoteAddr = peer
		r.SetBasicAuth("u", pass)
		h(httptest.NewRecorder(), r)

		return passed
	}

	// Two failed Basic attempts reach the limit of two...
	assert.False(t, basic("guess1"))
	assert.False(t, basic("guess2"))

	// ... so the address is blocked for both forms of login, the correct
	// password included.
	assert.Equal(t, http.StatusTooManyRequests, login("secret"), "failed basic attempts must count")
	assert.False(t, basic("secret"), "correct basic password accepted from a blocked address")

	// A successful Basic authentication before the limit clears the count.
	rl.remove("10.0.0.9")
	assert.False(t, basic("guess"))
	assert.True(t, basic("secret"))
	assert.Equal(t, http.StatusForbidden, login("wrong"), "the count must have been cleared")
	assert.Equal(t, http.StatusOK, login("secret"))
}
