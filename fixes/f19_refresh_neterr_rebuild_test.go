//go:build verif

package filtering

import (
	"net/http"
	"testing"

	"github.com/miekg/dns"
)

// F19 (C15): a refresh in which one list array fails completely must still put
// the lists it has stored for the other array into force — otherwise they come
// into force later, during a refresh that fails for that very list.
func TestVerifF19NetErrSkipsRebuild(t *testing.T) {
	d := newDNSFilter(t)
	d.SetEnabled(true)
	okURL := serveFiltersLocally(t, []byte("||w0.l1.example^\n"))
	badURL := serveHTTPLocally(t, http.HandlerFunc(func(w http.ResponseWriter, _ *http.Request) {
		w.WriteHeader(http.StatusInternalServerError)
	}))
	d.conf.Filters = []FilterYAML{{Enabled: true, URL: okURL, Name: "l1", Filter: Filter{ID: 101}}}
	d.conf.WhitelistFilters = []FilterYAML{{Enabled: true, URL: badURL, Name: "l0", Filter: Filter{ID: 100}}}

	_, _, ok := d.tryRefreshFilters(true, true, true)
	if !ok {
		t.Fatal("refresh did not run")
	}
	if d.conf.Filters[0].RulesCount != 1 {
		t.Fatalf("l1 was not stored: rules count %d", d.conf.Filters[0].RulesCount)
	}
	setts := &Settings{ProtectionEnabled: true, FilteringEnabled: true}
	res, err := d.CheckHost("w0.l1.example", dns.TypeA, setts)
	if err != nil {
		t.Fatal(err)
	}
	if !res.IsFiltered {
		t.Errorf("l1 was refreshed and stored (1 rule) but its rule is not in force: %+v", res)
	}
}
