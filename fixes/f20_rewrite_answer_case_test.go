//go:build verif

package filtering

import (
	"testing"

	"github.com/miekg/dns"
)

// F20 (C06): "name to itself" is a pass-through exception and CNAMEs are
// followed through further rewrites, whatever letter case the entries were
// typed in (names are case-insensitive; the domain part is already folded).
func TestVerifF20RewriteAnswerCase(t *testing.T) {
	d, _ := newForTest(t, &Config{Rewrites: []*LegacyRewrite{
		{Domain: "Example.com", Answer: "Example.com"},
		{Domain: "a.x.com", Answer: "B.x.com"},
		{Domain: "b.x.com", Answer: "1.1.1.1"},
	}}, nil)
	t.Cleanup(d.Close)
	if err := d.prepareRewrites(); err != nil {
		t.Fatal(err)
	}
	if r := d.processRewrites("example.com", dns.TypeA); r.Reason != NotFilteredNotFound {
		t.Errorf("Example.com -> Example.com must pass example.com through, got %s canon=%q", r.Reason, r.CanonName)
	}
	r := d.processRewrites("a.x.com", dns.TypeA)
	if len(r.IPList) != 1 || r.IPList[0].String() != "1.1.1.1" {
		t.Errorf("a.x.com -> B.x.com -> 1.1.1.1 must resolve to 1.1.1.1, got canon=%q ips=%v", r.CanonName, r.IPList)
	}
}
