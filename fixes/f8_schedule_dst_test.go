//go:build verif

package schedule

import (
	"testing"
	"time"
)

// Demonstration for finding F8 (C18): Contains must follow wall-clock time of
// day on DST-transition days.  Fails before the "fix:" commit, passes after.
func TestVerifF8DST(t *testing.T) {
	loc, err := time.LoadLocation("Europe/Berlin")
	if err != nil {
		t.Skip(err)
	}
	w := &Weekly{location: loc}
	w.days[time.Sunday] = dayRange{start: 9 * time.Hour, end: 10 * time.Hour}
	if !w.Contains(time.Date(2024, 3, 31, 9, 30, 0, 0, loc)) {
		t.Errorf("09:30 local on 2024-03-31 must be inside 09:00-10:00")
	}
	if w.Contains(time.Date(2024, 3, 31, 10, 30, 0, 0, loc)) {
		t.Errorf("10:30 local on 2024-03-31 must be outside 09:00-10:00")
	}
	full := &Weekly{location: loc}
	full.days[time.Sunday] = dayRange{start: 0, end: 24 * time.Hour}
	if !full.Contains(time.Date(2024, 10, 27, 23, 30, 0, 0, loc)) {
		t.Errorf("full-day range must cover 23:30 local on the 25-hour day 2024-10-27")
	}
}
