//go:build verif

package querylog

import (
	"context"
	"errors"
	"os"
	"path/filepath"
	"testing"

	"github.com/AdguardTeam/golibs/logutil/slogutil"
)

// F14 (C20): seeking in files of zero lines.  An empty current file must not
// hide the entries of the rotated file, and an absent timestamp is reported as
// not-found / too-early / too-late.
func TestVerifF14EmptyFile(t *testing.T) {
	ctx := context.Background()
	logger := slogutil.NewDiscardLogger()
	dir := t.TempDir()
	old := prepareTestFile(t, dir, 3)
	empty := filepath.Join(dir, "empty.json")
	if err := os.WriteFile(empty, nil, 0o644); err != nil {
		t.Fatal(err)
	}

	q, err := newQLogFile(empty)
	if err != nil {
		t.Fatal(err)
	}
	_, _, err = q.seekTS(ctx, logger, 12345)
	_ = q.Close()
	if !errors.Is(err, errTSNotFound) && !errors.Is(err, errTSTooEarly) && !errors.Is(err, errTSTooLate) {
		t.Errorf("seekTS in an empty file: %v, want not-found, too-early or too-late", err)
	}

	// Find the timestamp of the newest entry of the old file.
	oq, err := newQLogFile(old)
	if err != nil {
		t.Fatal(err)
	}
	if _, err = oq.SeekStart(); err != nil {
		t.Fatal(err)
	}
	line, err := oq.ReadNext()
	if err != nil {
		t.Fatal(err)
	}
	ts := readQLogTimestamp(ctx, logger, line)
	_ = oq.Close()

	r, err := newQLogReader(ctx, logger, []string{old, empty})
	if err != nil {
		t.Fatal(err)
	}
	defer func() { _ = r.Close() }()
	if err = r.seekTS(ctx, ts); err != nil {
		t.Fatalf("seek to a stored timestamp with an empty newer file: %v", err)
	}
	got, err := r.ReadNext()
	if err != nil || got != line {
		t.Errorf("after the seek ReadNext = %q, %v; want the sought entry", got, err)
	}
}
