//go:build verif

package client_test

import (
	"context"
	"net/netip"
	"sync"
	"testing"

	"github.com/AdguardTeam/AdGuardHome/internal/client"
	"github.com/AdguardTeam/AdGuardHome/internal/filtering"
	"github.com/AdguardTeam/golibs/logutil/slogutil"
	"github.com/AdguardTeam/golibs/timeutil"
)

// R1 (C05): a DNS request applying client filtering settings while the admin
// API adds/removes clients must not race.  Run with -race: reports a DATA RACE
// before the fix.
func TestVerifR1ApplyClientFilteringRace(t *testing.T) {
	ctx := context.Background()
	s, err := client.NewStorage(ctx, &client.StorageConfig{
		Logger: slogutil.NewDiscardLogger(), Clock: timeutil.SystemClock{}, DHCP: client.EmptyDHCP{},
	})
	if err != nil {
		t.Fatal(err)
	}
	ip := netip.MustParseAddr("1.2.3.4")
	var wg sync.WaitGroup
	wg.Add(2)
	go func() {
		defer wg.Done()
		for i := 0; i < 2000; i++ {
			c := &client.Persistent{Name: "c", IPs: []netip.Addr{ip}, UID: client.MustNewUID()}
			_ = s.Add(ctx, c)
			s.RemoveByName(ctx, "c")
		}
	}()
	go func() {
		defer wg.Done()
		for i := 0; i < 2000; i++ {
			s.ApplyClientFiltering("", ip, &filtering.Settings{})
		}
	}()
	wg.Wait()
}
