//go:build verif && linux

package dhcpd

import (
	"net"
	"net/netip"
	"path/filepath"
	"testing"

	"github.com/AdguardTeam/AdGuardHome/internal/dhcpsvc"
	"github.com/insomniacslk/dhcp/dhcpv4"
)

// Demonstrations for the two C10 findings that are still in the tree (R3, R4).
// Both tests FAIL on the unrepaired tree and pass with the patches of this
// directory applied (r3_commit_generated_hostname_unique.patch,
// r4_resetleases_keep_unnamed.patch).

// c10dSrv is a v4Server wired to the real dbStore/dbLoad over a scratch file.
func c10dSrv(t *testing.T, dir string) (srv *server, s *v4Server) {
	t.Helper()

	srv = &server{conf: &ServerConfig{dbFilePath: filepath.Join(dir, dataFilename)}}
	conf := defaultV4ServerConf()
	conf.notify = srv.onNotify
	s4, err := v4Create(conf)
	if err != nil {
		t.Fatal(err)
	}
	srv.srv4 = s4
	if err = srv.dbLoad(); err != nil {
		t.Fatal(err)
	}

	return srv, s4
}

func c10dDiscover(t *testing.T, s *v4Server, mac net.HardwareAddr) (offer *dhcpv4.DHCPv4) {
	t.Helper()

	disc, err := dhcpv4.NewDiscovery(mac)
	if err != nil {
		t.Fatal(err)
	}
	offer, err = dhcpv4.NewReplyFromRequest(disc)
	if err != nil {
		t.Fatal(err)
	}
	if rc := s.handle(disc, offer); rc != 1 {
		t.Fatalf("discover rc=%d", rc)
	}

	return offer
}

func c10dRequest(t *testing.T, s *v4Server, offer *dhcpv4.DHCPv4, mods ...dhcpv4.Modifier) {
	t.Helper()

	req, err := dhcpv4.NewRequestFromOffer(offer, mods...)
	if err != nil {
		t.Fatal(err)
	}
	ack, err := dhcpv4.NewReplyFromRequest(req)
	if err != nil {
		t.Fatal(err)
	}
	if rc := s.handle(req, ack); rc != 1 {
		t.Fatalf("request rc=%d", rc)
	}
}

// R3 (C10): commitLease must not hand out a hostname that another lease
// already has, also when it falls back to the generated one.
func TestVerifC10R3GeneratedHostnameUnique(t *testing.T) {
	_, s := c10dSrv(t, t.TempDir())

	// The first pool address is 192.168.10.100; a reservation carries the name
	// the server would generate for it.
	err := s.AddStaticLease(&dhcpsvc.Lease{
		HWAddr:   net.HardwareAddr{0xa, 1, 1, 1, 1, 1},
		IP:       netip.MustParseAddr("192.168.10.150"),
		Hostname: "192-168-10-100",
	})
	if err != nil {
		t.Fatal(err)
	}

	offer := c10dDiscover(t, s, net.HardwareAddr{0xb, 2, 2, 2, 2, 2})
	c10dRequest(t, s, offer)

	names := map[string]netip.Addr{}
	for _, l := range s.leases {
		if l.Hostname == "" {
			continue
		}
		if prev, ok := names[l.Hostname]; ok {
			t.Errorf("leases %s and %s are both named %q", prev, l.IP, l.Hostname)
		}
		names[l.Hostname] = l.IP
		if got := s.IPByHost(l.Hostname); got != l.IP {
			t.Errorf("IPByHost(%q) = %s, but the lease of %s carries that name", l.Hostname, got, l.IP)
		}
	}
}

// R4 (C10): a restart must restore the table it stored: same leases, same
// hostnames, same answers.
func TestVerifC10R4RestartKeepsUnnamedLease(t *testing.T) {
	dir := t.TempDir()
	_, s := c10dSrv(t, dir)

	// A reservation named like the first pool address, and an offer that is
	// never requested (a lease without a hostname).
	err := s.AddStaticLease(&dhcpsvc.Lease{
		HWAddr:   net.HardwareAddr{0xa, 1, 1, 1, 1, 1},
		IP:       netip.MustParseAddr("192.168.10.150"),
		Hostname: "192-168-10-100",
	})
	if err != nil {
		t.Fatal(err)
	}
	c10dDiscover(t, s, net.HardwareAddr{0xb, 2, 2, 2, 2, 2})

	type rec struct {
		ip     netip.Addr
		host   string
		static bool
	}
	table := func(s *v4Server) (m map[string]rec) {
		m = map[string]rec{}
		for _, l := range s.leases {
			m[l.HWAddr.String()] = rec{ip: l.IP, host: l.Hostname, static: l.IsStatic}
		}

		return m
	}
	before := table(s)

	_, s2 := c10dSrv(t, dir)
	after := table(s2)

	for mac, b := range before {
		a, ok := after[mac]
		if !ok {
			t.Errorf("lease of %s (%s, static=%t) is lost by the restart", mac, b.ip, b.static)
		} else if a != b {
			t.Errorf("lease of %s: %+v before the restart, %+v after it", mac, b, a)
		}
	}
	if got, want := s2.IPByHost("192-168-10-100"), s.IPByHost("192-168-10-100"); got != want {
		t.Errorf("IPByHost(192-168-10-100) = %s after the restart, %s before", got, want)
	}
}
