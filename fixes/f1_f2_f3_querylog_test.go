//go:build verif

package querylog

import (
	"context"
	"net"
	"net/http"
	"net/http/httptest"
	"strings"
	"testing"
	"time"

	"github.com/AdguardTeam/AdGuardHome/internal/aghnet"
	"github.com/AdguardTeam/AdGuardHome/internal/filtering"
	"github.com/AdguardTeam/golibs/logutil/slogutil"
	"github.com/AdguardTeam/golibs/timeutil"
	"github.com/miekg/dns"
)

func vfLog(t *testing.T, ignored ...string) *queryLog {
	conf := Config{
		Logger: slogutil.NewDiscardLogger(), Enabled: true, FileEnabled: true,
		RotationIvl: timeutil.Day, MemSize: 100, BaseDir: t.TempDir(),
	}
	l, err := newQueryLog(conf)
	if err != nil {
		t.Fatal(err)
	}

	return l
}

func vfAdd(l *queryLog, host string, reason filtering.Reason) {
	q := dns.Msg{Question: []dns.Question{{Name: host + ".", Qtype: dns.TypeA, Qclass: dns.ClassINET}}}
	l.Add(&AddParams{
		Question: &q, Answer: &q, Result: &filtering.Result{Reason: reason, IsFiltered: reason == filtering.FilteredBlockList},
		ClientIP: net.IPv4(1, 2, 3, 4), Upstream: "u",
	})
	time.Sleep(time.Millisecond)
}

// F1 (C07): no parameter value may crash the request.
func TestVerifF1NegativeLimit(t *testing.T) {
	l := vfLog(t)
	vfAdd(l, "example.org", filtering.NotFilteredNotFound)
	for _, q := range []string{"limit=-1", "limit=5&offset=-10", "limit=9223372036854775807&offset=1"} {
		func() {
			defer func() {
				if v := recover(); v != nil {
					t.Errorf("GET /control/querylog?%s panicked: %v", q, v)
				}
			}()
			w := httptest.NewRecorder()
			l.handleQueryLog(w, httptest.NewRequest(http.MethodGet, "/control/querylog?"+q, nil))
			if w.Code != http.StatusOK && w.Code != http.StatusBadRequest {
				t.Errorf("%s: status %d", q, w.Code)
			}
		}()
	}
}

// F2 (C07): a search term selects the same entries in memory and on disk.
func TestVerifF2QuickMatchEscapes(t *testing.T) {
	l := vfLog(t)
	ctx := context.Background()
	vfAdd(l, "a&b.example.org", filtering.NotFilteredNotFound)
	p := newSearchParams()
	p.searchCriteria = []searchCriterion{{criterionType: ctTerm, value: "a&b", asciiVal: "a&b"}}
	mem, _ := l.search(ctx, p)
	if err := l.flushLogBuffer(ctx); err != nil {
		t.Fatal(err)
	}
	disk, _ := l.search(ctx, p)
	if len(mem) != 1 || len(disk) != 1 {
		t.Errorf("search a&b: %d hits in memory, %d after flush; want 1 and 1", len(mem), len(disk))
	}
}

// F3 (C07): paging with the returned cursor must not stop before an
// unscanned matching entry because the page ended on an ignored entry.
func TestVerifF3IgnoredCursor(t *testing.T) {
	l := vfLog(t)
	ctx := context.Background()
	vfAdd(l, "blocked-old.example", filtering.FilteredBlockList)
	vfAdd(l, "ignored.example", filtering.NotFilteredNotFound)
	vfAdd(l, "plain.example", filtering.NotFilteredNotFound)
	if err := l.flushLogBuffer(ctx); err != nil {
		t.Fatal(err)
	}
	eng, err := aghnet.NewIgnoreEngine([]string{"ignored.example"})
	if err != nil {
		t.Fatal(err)
	}
	l.conf.Ignored = eng
	p := newSearchParams()
	p.maxFileScanEntries = 2
	p.searchCriteria = []searchCriterion{{criterionType: ctFilteringStatus, value: filteringStatusBlocked}}
	var got []string
	for i := 0; i < 5; i++ {
		ents, oldest := l.search(ctx, p)
		for _, e := range ents {
			got = append(got, e.QHost)
		}
		if oldest.IsZero() {
			break
		}
		p.olderThan = oldest
	}
	if strings.Join(got, ",") != "blocked-old.example" {
		t.Errorf("paging with scan budget 2 returned %v, want [blocked-old.example]", got)
	}
}

