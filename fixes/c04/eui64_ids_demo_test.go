//go:build verif

package client

import (
	"net"
	"slices"
	"testing"
)

// EUI-64 (C04): the identifiers a client is written to the configuration file
// with (Persistent.IDs) must read back (Persistent.SetIDs) as the identifiers
// it has.  An 8-byte MAC printed with colons is also the text of an IPv6
// address, and SetIDs tries the address parser first.
func TestVerifEUI64IDsRoundTrip(t *testing.T) {
	for _, in := range []string{
		"00-11-22-33-44-55-66-77",                                     // EUI-64
		"02-00-00-00-00-01",                                           // EUI-48
		"00-00-00-00-fe-80-00-00-00-00-00-00-02-00-5e-10-00-00-00-01", // InfiniBand
	} {
		c := &Persistent{}
		if err := c.SetIDs([]string{in}); err != nil {
			t.Fatal(err)
		}
		if len(c.MACs) != 1 || len(c.IPs) != 0 {
			t.Fatalf("%s: want one MAC, got MACs %v IPs %v", in, c.MACs, c.IPs)
		}
		want, _ := net.ParseMAC(in)

		back := &Persistent{}
		if err := back.SetIDs(c.IDs()); err != nil {
			t.Fatal(err)
		}
		if len(back.MACs) != 1 || len(back.IPs) != 0 || !slices.Equal(back.MACs[0], want) {
			t.Errorf("%s: written as %q, read back as MACs %v IPs %v", in, c.IDs(), back.MACs, back.IPs)
		}
	}
}
