//go:build verif && linux

package stats

import (
	"encoding/json"
	"net/http"
	"net/http/httptest"
	"os/signal"
	"path/filepath"
	"sync/atomic"
	"syscall"
	"testing"
	"time"

	"github.com/AdguardTeam/golibs/logutil/slogutil"
)

// C09 finding "flush write error": the hourly flush swaps in the new unit
// before it knows whether the old one could be stored; when the write (here:
// the bbolt commit) fails, the queries of the hour that just ended are gone
// although that hour is still inside the retention window.
//
// Fails on the unrepaired tree (num_dns_queries = 0), passes with
// flush_keep_unit_on_write_error.patch (3).
func TestVerifC09FlushWriteError(t *testing.T) {
	var hour atomic.Uint32
	hour.Store(500000)
	s, err := New(Config{
		Logger:            slogutil.NewDiscardLogger(),
		UnitID:            func() uint32 { return hour.Load() },
		ConfigModified:    func() {},
		ShouldCountClient: func([]string) bool { return true },
		Filename:          filepath.Join(t.TempDir(), "stats.db"),
		Limit:             24 * time.Hour,
		Enabled:           true,
	})
	if err != nil {
		t.Fatal(err)
	}
	defer func() { _ = s.Close() }()

	for range 3 {
		s.Update(&Entry{Domain: "example.org", Client: "192.0.2.1", Result: RFiltered})
	}

	// The hour ends while no file can be written (RLIMIT_FSIZE = 0 stands for
	// a full disk or an I/O error).
	signal.Ignore(syscall.SIGXFSZ)
	var old syscall.Rlimit
	if err = syscall.Getrlimit(syscall.RLIMIT_FSIZE, &old); err != nil {
		t.Fatal(err)
	}
	if err = syscall.Setrlimit(syscall.RLIMIT_FSIZE, &syscall.Rlimit{Cur: 0, Max: old.Max}); err != nil {
		t.Fatal(err)
	}
	hour.Store(500001)
	s.flush()
	if err = syscall.Setrlimit(syscall.RLIMIT_FSIZE, &old); err != nil {
		t.Fatal(err)
	}

	// The disk works again; the periodic flush runs once more.
	s.flush()

	w := httptest.NewRecorder()
	s.handleStats(w, httptest.NewRequest(http.MethodGet, "/control/stats", nil))
	resp := &StatsResp{}
	if err = json.Unmarshal(w.Body.Bytes(), resp); err != nil {
		t.Fatal(err)
	}
	if resp.NumDNSQueries != 3 || resp.NumBlockedFiltering != 3 {
		t.Errorf("after a failed and a successful flush: num_dns_queries = %d, num_blocked_filtering = %d, want 3 and 3",
			resp.NumDNSQueries, resp.NumBlockedFiltering)
	}
}
