//go:build verif

package querylog

import (
	"context"
	"strings"
	"testing"

	"github.com/AdguardTeam/AdGuardHome/internal/filtering"
)

// F12 (C07): paging with the returned older_than cursor must not lose the
// newest file record when the page boundary falls inside the memory buffer.
func TestVerifF12CursorGap(t *testing.T) {
	l := vfLog(t)
	ctx := context.Background()
	for _, h := range []string{"e1", "e2", "e3"} {
		vfAdd(l, h+".example", filtering.NotFilteredNotFound)
	}
	if err := l.flushLogBuffer(ctx); err != nil {
		t.Fatal(err)
	}
	for _, h := range []string{"m4", "m5", "m6"} {
		vfAdd(l, h+".example", filtering.NotFilteredNotFound)
	}
	var got []string
	p := newSearchParams()
	p.limit = 2
	for i := 0; i < 10; i++ {
		ents, oldest := l.search(ctx, p)
		for _, e := range ents {
			got = append(got, strings.TrimSuffix(e.QHost, ".example"))
		}
		if oldest.IsZero() || len(ents) == 0 {
			break
		}
		p.olderThan = oldest
	}
	if strings.Join(got, ",") != "m6,m5,m4,e3,e2,e1" {
		t.Errorf("paging by cursor returned %v, want m6,m5,m4,e3,e2,e1", got)
	}
}

// F13 (C07): a non-strict search term selects the entries whose client name
// contains it ignoring the letter case.
func TestVerifF13ContainsFold(t *testing.T) {
	for _, tc := range []struct{ name, term string }{
		{"My Kitchen", "kit"}, {"xSy", "sy"}, {"My Kitchen", "Kit"}, {"abc", ""}, {"", ""},
	} {
		if !ctDomainOrClientCaseNonStrict(tc.term, "", "", tc.name, "host.example", "1.2.3.4") {
			t.Errorf("client name %q does not match term %q", tc.name, tc.term)
		}
	}
	if ctDomainOrClientCaseNonStrict("kitx", "", "", "My Kitchen", "host.example", "1.2.3.4") {
		t.Errorf("term kitx must not match")
	}
}
