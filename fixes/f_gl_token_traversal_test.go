//go:build verif

package home

import (
	"encoding/binary"
	"os"
	"path/filepath"
	"testing"
	"time"

	"github.com/josharian/native"
)

// Demonstration for the C11 finding "GL-Inet token cookie is used as a path":
// with a directory gl_token_<x> next to the tokens, the cookie value
// "<x>/../secret" named an arbitrary file whose first four bytes were then
// read as the token date.  FAILS before the fix, passes after it.
func TestVerifC11GLTokenIsAName(t *testing.T) {
	dir := t.TempDir()
	prev := glFilePrefix
	glFilePrefix = filepath.Join(dir, "gl_token_")
	t.Cleanup(func() { glFilePrefix = prev })

	if err := os.Mkdir(filepath.Join(dir, "gl_token_dir"), 0o700); err != nil {
		t.Fatal(err)
	}

	date := make([]byte, 4)
	native.Endian.PutUint32(date, uint32(time.Now().UTC().Unix()))
	_ = binary.LittleEndian
	if err := os.WriteFile(filepath.Join(dir, "secret"), date, 0o600); err != nil {
		t.Fatal(err)
	}
	if err := os.WriteFile(filepath.Join(dir, "gl_token_good"), date, 0o600); err != nil {
		t.Fatal(err)
	}

	if !glCheckToken("good") {
		t.Error("a fresh token issued under the cookie's name must authenticate")
	}
	for _, v := range []string{"dir/../secret", "dir/../gl_token_good", "", "dir/", "/good"} {
		if glCheckToken(v) {
			t.Errorf("cookie value %q authenticated although no token of that name was issued", v)
		}
	}
}
