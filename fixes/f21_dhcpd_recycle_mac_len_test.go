//go:build verif && linux

package dhcpd

import (
	"net"
	"net/netip"
	"testing"
	"time"
)

// F21 (C10): recycling an expired lease for a client whose hardware address
// has another length must record that client's address, not a hybrid one.
func TestVerifF21RecycleOtherMACLength(t *testing.T) {
	conf := defaultV4ServerConf()
	conf.RangeStart = netip.MustParseAddr("192.168.10.100")
	conf.RangeEnd = netip.MustParseAddr("192.168.10.101")
	s, err := v4Create(conf)
	if err != nil {
		t.Fatal(err)
	}
	m1 := net.HardwareAddr{2, 0, 0, 0, 0, 1, 7, 7}
	m2 := net.HardwareAddr{2, 0, 0, 0, 0, 2, 7, 7}
	m3 := net.HardwareAddr{2, 0, 0, 0, 0, 2}
	vfDiscover(t, s, m1)
	vfDiscover(t, s, m2)
	for _, l := range s.leases {
		l.Expiry = time.Now().Add(-time.Hour)
	}
	ip := vfDiscover(t, s, m3)
	var holder net.HardwareAddr
	for _, l := range s.leases {
		if l.IP == ip {
			holder = l.HWAddr
		}
	}
	if holder.String() != m3.String() {
		t.Errorf("address %s offered to %s is recorded for %s", ip, m3, holder)
	}
}
